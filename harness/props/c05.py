"""C05 — killing the process at any instant never corrupts the Memory cache.

Model: lean/JoblibModel/Store.lean (+ StoreIO.lean); theorems: lean/JoblibProofs/C05.lean; driver: Driver/C05.lean.

Implementation side (harness/fstrace.py): every workload is a real process (`/venv/bin/python`, joblib from VERIF_REPO)
run under strace on a scratch cache directory.
 (a) operation-sequence correspondence: the canonicalised strace log of every process of a history (set-up processes, the
     workload, the recovering processes) must equal the model's operation list for the same history;
 (b) real crash injection: `strace -e inject=<mutating file syscalls>:signal=SIGKILL:when=k` kills the workload at its k-th
     file-system call; a kill at a write(2) is additionally turned into torn writes by extending the file being written to
     boundary-biased lengths of its complete content; then the same call — and calls for the other cached arguments — are
     made in FRESH processes and judged by the oracle "returns f(x) of the live source and does not raise" (no model);
 (c) crash states inside directory removals for kernel directory orders this file system does not produce are synthesised
     by replaying the model's operation prefix (unlink/rmdir only differ) on a copy of the pre-state;
 (d) expiry: the workload function is NOT pure — its value is tagged with the epoch (generation) of the process, which the
     harness controls through an epoch file; a process of epoch e also has its `time.time()` shifted by e * EPOCH_SHIFT (no
     sleeps). Workloads `refresh` (an entry stored in epoch 0 is found expired by a call of epoch 1 under "valid iff stored
     in epoch >= 1", removed, recomputed, stored — killed at every file-system call) and `coldexp` (a first call of epoch
     0 killed at every call) are recovered by fresh processes of epoch 1 under that validity rule, given once as a callable
     comparing metadata['time'] with the threshold instant the harness wrote (`since`) and once as the real
     `expires_after(seconds=EXPIRY_DELTA)` (`expafter`). Oracle (no model): the value returned is of epoch >= 1; a stale
     value is classified from the crash state the harness reads back (new time stamp next to the old value:
     `stale-value-after-crash[expired-entry-refreshed]`; value without metadata: `expired-entry-served:metadata-missing`).
     The model side: `gen=` of every process, `cb=since1` (theorems C05.stamp_not_newer_than_value_partial,
     C05.expiry_recovery_partial, C05.entry_without_metadata_is_not_valid_under_a_callback).
"""

from __future__ import annotations

import concurrent.futures as cf
import json
import os
import shutil
import subprocess
from pathlib import Path

from .. import core, fstrace
from ..core import Result

REQUIRED_THEOREMS = [
    "C05.final_name_complete",
    "C05.crash_state_ok",
    "C05.crash_recovery",
    "C05.recovery_idempotent_partial",
    "C05.later_calls_correct_partial",
    "C05.stale_after_crash_witness",
    "C05.old_code_F8_witness",
    "C05.old_code_F9_witness",
    "C05.crash_mem_crashStates",
    "C05.stamp_not_newer_than_value_partial",
    "C05.expiry_recovery_partial",
    "C05.entry_without_metadata_is_not_valid_under_a_callback",
    "C05.accepted_under_since_has_recent_stamp",
    "C05.accepted_under_since_has_recent_value",
    "C05.metadata_first_counterexample",
    "C05.skip_callback_without_metadata_counterexample",
]
TRUSTED_EXTRA = [
    "modelled, not verified: the kernel at kill -9 (a completed rename/unlink/mkdir is durable, an interrupted write leaves a "
    "prefix; no power-loss reordering), rename atomicity, open files surviving unlink (inode model), ext4 directory order "
    "(taken from the strace log and given to the model as an input)",
    "numpy_pickle.dump/load and json are parameters of the model (Codec): unpickle(pickle v) = v (C14's contract 'a strict "
    "prefix does not load' is not needed: no torn result ever has a final name); the comparison of func_code.py with the "
    "live source is a parameter constrained by CodeOK and instantiated by the byte-level transcription checkCodeImpl, "
    "tied to joblib.memory.extract_first_line on every prefix of real func_code.py texts (stream func_code-read)",
    "strace -f -y log parsing and canonicalisation (harness/fstrace.py); torn writes are produced by the harness from a "
    "kill at write(2) + extending the file to a prefix of its complete content",
    "generations: the model's Val.gen / stamp are tied to the harness-controlled epoch of a workload process (value tag of "
    "the impure workload function; time.time() shifted by epoch * EPOCH_SHIFT inside the process); `since g` stands for both "
    "the harness callable metadata['time'] >= threshold and the real expires_after(seconds=EXPIRY_DELTA) under the shifted "
    "clock; stamp_not_newer_than_value / expiry_recovery are proved for a finite family of workloads by evaluation of the "
    "model (every k, every torn length), not for every initial directory",
]

ARGS = [3, 4, 5]
X = 3  # the argument of "the same call"

# name -> (set-up processes, the workload process, version used by the recovering processes, recovery variants)
# a process = dict(kind=call|reduce|clear, a=…, ver=0|1, cb=none|long|now, shelve=0|1, compress=0|1)


def _call(a, ver=0, cb="none", shelve=0, compress=0, epoch=0):
    """cb: none | long | now (real expires_after(days=1) / (seconds=-1)) | since1 (a callable: valid iff metadata['time']
    is at or after the threshold instant = start of epoch 1) | exp1 (the real expires_after(seconds=EXPIRY_DELTA) in a
    process whose clock is shifted by its epoch). epoch: the generation the process lives in (value of f, time.time())."""
    return dict(kind="call", a=a, ver=ver, cb=cb, shelve=shelve, compress=compress, epoch=epoch)


WORKLOADS = {
    "cold": dict(setup=[], action=_call(X), ver=0, bystanders=[]),
    "warm": dict(setup=[_call(3), _call(4)], action=_call(X), ver=0, bystanders=[4]),
    "srcchange": dict(setup=[_call(3), _call(4), _call(5)], action=_call(X, ver=1), ver=1, bystanders=[4, 5]),
    "expire": dict(setup=[_call(3, cb="long"), _call(4, cb="long")], action=_call(X, cb="now"), ver=0, bystanders=[4]),
    "shelve": dict(setup=[], action=_call(X, shelve=1), ver=0, bystanders=[], shelve=1),
    "compressed": dict(setup=[], action=_call(X, compress=1), ver=0, bystanders=[], compress=1),
    "reduce": dict(setup=[_call(3), _call(4), _call(5)], action=dict(kind="reduce", items_limit=1, victims=[4, 5]), ver=0,
                   bystanders=[4, 5]),
    "clear": dict(setup=[_call(3), _call(4), _call(5)], action=dict(kind="clear"), ver=0, bystanders=[4, 5]),
    # the function's value changes between epochs (generations). refresh: entries stored in epoch 0; in epoch 1 a call under
    # "valid iff stored in epoch 1" finds the entry expired, removes it, recomputes and stores the epoch-1 value — killed at
    # every point; the recovering calls (epoch 1, same validity rule, as a callable and as the real expires_after) must
    # return a value of epoch >= 1
    "refresh": dict(setup=[_call(3), _call(4)], action=_call(X, cb="since1", epoch=1), ver=0, bystanders=[4],
                    rec_epoch=1, variants=["since", "expafter"]),
    # coldexp: a first call in epoch 0, killed at every point; the recovering calls are made in epoch 1 under the validity
    # rule (an output.pkl whose metadata.json was never written must not be served: its age is unknown)
    "coldexp": dict(setup=[], action=_call(X), ver=0, bystanders=[], rec_epoch=1, variants=["since", "expafter"]),
    # the environment is an input: the same first call / refresh with TMPDIR on ANOTHER file system than the cache (every
    # process of the history). Nothing in the store protocol may depend on it: same operations, same crash behaviour (a
    # store that stages its temporaries in the system temporary folder falls back from rename to copy there, i.e. writes
    # output.pkl / metadata.json in place under their final names).
    "cold-xfs": dict(setup=[], action=_call(X), ver=0, bystanders=[], variants=["plain"], xfs=1, same_ops_as="cold"),
    "refresh-xfs": dict(setup=[_call(3), _call(4)], action=_call(X, cb="since1", epoch=1), ver=0, bystanders=[4],
                        rec_epoch=1, variants=["since"], xfs=1, same_ops_as="refresh"),
}
XFS = {}  # name of the workload currently prepared / killed in this process -> its processes run with TMPDIR elsewhere
VARIANT_CB = {"plain": "none", "expires": "long", "since": "since1", "expafter": "exp1"}
REAL_CB = {"none": None, "long": "long", "now": "now", "since1": "since", "exp1": "expafter"}
MODEL_CB = {"none": "none", "long": "long", "now": "now", "since1": "since1", "exp1": "since1"}
QUICK_FULL = ("cold", "warm")  # every k in the quick tier

SRC = {0: "v0", 1: "v1"}


def _moddir(base, ver):
    d = os.path.join(base, f"mod{ver}")
    if not os.path.exists(os.path.join(d, "wl_mod.py")):
        fstrace.write_module(d, SRC[ver])
    return d


def _func_source(ver):
    """The text joblib stores for `f` (inspect.getblock of the def) and its first line."""
    text = fstrace.MOD_TEMPLATE.format(version=SRC[ver])
    lines = text.split("\n")
    i = next(k for k, ln in enumerate(lines) if ln.startswith("def f("))
    body = "\n".join(lines[i:])
    return body.encode("utf-8"), i + 1


ACTUAL = {}  # label -> actual integer argument (filled by _explore; inherited by the pool workers through the job tuples)


def _act(a):
    return ACTUAL.get(str(a), a)


def _real_spec(base, cache, p):
    repo = str(core.REPO)
    if p["kind"] == "call":
        spec = dict(repo=repo, moddir=_moddir(base, p["ver"]), cache=cache, action="call", args=[_act(p["a"])],
                    callback=REAL_CB[p["cb"]], shelve=bool(p["shelve"]), compress=bool(p["compress"]))
        if p.get("epoch", 0) or p["cb"] in ("since1", "exp1"):
            spec.update(epoch_file=_epoch_file(base, p.get("epoch", 0)), threshold=_threshold(base))
        if XFS.get("on"):
            spec.update(tmpdir=_other_fs(base))
        return spec
    if p["kind"] == "reduce":
        return dict(repo=repo, moddir=_moddir(base, 0), cache=cache, action="reduce", items_limit=p["items_limit"])
    return dict(repo=repo, moddir=_moddir(base, 0), cache=cache, action="clear")


_TMPDIRS = []  # directories created outside ctx.scratch (removed by run/search, whatever happens)


def _cleanup_tmpdirs():
    while _TMPDIRS:
        shutil.rmtree(_TMPDIRS.pop(), ignore_errors=True)


def _probe_other_fs(base):
    """A writable directory on another file system than the scratch directory (compare st_dev), or None."""
    import tempfile

    dev = os.stat(base).st_dev
    for cand in ("/dev/shm", "/tmp", "/var/tmp", "/run/user/%d" % os.getuid(), tempfile.gettempdir(), os.path.expanduser("~")):
        try:
            if os.path.isdir(cand) and os.access(cand, os.W_OK) and os.stat(cand).st_dev != dev:
                d = tempfile.mkdtemp(prefix="verif-c05-tmp-", dir=cand)
                _TMPDIRS.append(d)
                return d
        except OSError:
            continue
    return None


def _other_fs(base):
    return open(os.path.join(_root(base), "otherfs")).read().strip()


def _epoch_file(base, epoch):
    """The epoch file of processes living in `epoch` (written by the harness; the workload process reads it)."""
    root = _root(base)
    fn = os.path.join(root, f"epoch{epoch}")
    if not os.path.exists(fn):
        with open(fn + ".tmp%d" % os.getpid(), "w") as fh:
            fh.write(str(epoch))
        os.replace(fn + ".tmp%d" % os.getpid(), fn)
    return fn


def _root(base):
    """The scratch root of the run (kill cases work in sub-directories of it)."""
    d = base
    while not os.path.exists(os.path.join(d, "threshold")):
        nd = os.path.dirname(d)
        if nd == d:
            raise core.InfraError("no threshold file above " + base)
        d = nd
    return d


def _threshold(base):
    """The instant that separates epoch 0 from epoch 1 (written once by `_explore` before any process runs: clock of epoch
    0 < threshold < clock of epoch 1, which is shifted by fstrace.EPOCH_SHIFT)."""
    return float(open(os.path.join(_root(base), "threshold")).read())


def _model_tok(p, me, kill=None, torn=None):
    if p["kind"] == "call":
        s = (f"call:a={p['a']},ver={p['ver']},cb={MODEL_CB[p['cb']]},shelve={p['shelve']},me={me},legacy=0,"
             f"compress={p['compress']},gen={p.get('epoch', 0)}")
    elif p["kind"] == "reduce":
        s = f"reduce:me={me},victims=" + (".".join(str(v) for v in p["victims"]) or "-")
    else:
        s = f"clear:me={me}"
    if kill is not None:
        s += f",kill={kill}"
        if torn is not None:
            s += f",torn={torn}"
    return s


def _set_atimes(cache, ids):
    """Deterministic LRU order for reduce_size: E3 newest, then E4, E5 (so the victims are 4 then 5? no: oldest first)."""
    import time

    now = int(time.time())
    fdir = os.path.join(cache, "joblib", ids["func_id"])
    for a, age in ((3, 100), (4, 3000), (5, 2000)):
        p = os.path.join(fdir, ids["ids"][str(a)], "output.pkl")
        if os.path.exists(p):
            os.utime(p, (now - age, now - age))


def _run_worker(base, tag, spec, traced=True, when=None):
    sp = os.path.join(base, f"spec-{tag}.json")
    with open(sp, "w") as fh:
        json.dump(spec, fh)
    log = os.path.join(base, f"log-{tag}.txt")
    if traced:
        rc, out, err = fstrace.run_traced(fstrace.worker_cmd(sp), log, inject_when=when, timeout=180)
    else:
        p = subprocess.run(fstrace.worker_cmd(sp), capture_output=True, text=True, timeout=180)
        rc, out, err = p.returncode, p.stdout, p.stderr
    res = None
    for ln in out.splitlines():
        try:
            res = json.loads(ln)
        except ValueError:
            pass
    return dict(rc=rc, res=res, err=err[-400:], log=log if traced else None)


def _ids(base):
    """args ids of the labelled arguments. Label 3 is argument 3 ("the same call"); the bystander labels 4 and 5 are mapped
    to actual integer arguments chosen so that, in this file system's directory order, one entry directory is listed after
    `func_code.py` and one before it (so that a real kill inside a directory removal can leave either without the other)."""
    cache = os.path.join(base, "idcache")
    cands = list(range(3, 40))
    r = _run_worker(base, "ids", dict(repo=str(core.REPO), moddir=_moddir(base, 0), cache=cache, action="args_ids",
                                      args=cands), traced=False)
    shutil.rmtree(cache, ignore_errors=True)
    if not r["res"] or "ids" not in r["res"]:
        raise core.InfraError(f"cannot compute args ids: {r}")
    all_ids = r["res"]["ids"]
    probe = os.path.join(base, "order-probe")
    os.makedirs(probe)
    open(os.path.join(probe, "func_code.py"), "w").close()
    for c in cands:
        os.mkdir(os.path.join(probe, all_ids[str(c)]))
    listing = os.listdir(probe)
    shutil.rmtree(probe)
    k = listing.index("func_code.py")
    by_hash = {v: int(c) for c, v in all_ids.items()}
    after = [by_hash[n] for n in listing[k + 1:] if by_hash[n] != 3]
    before = [by_hash[n] for n in listing[:k] if by_hash[n] != 3]
    a4 = after[0] if after else 4
    a5 = next((b for b in before if b != a4), 5 if a4 != 5 else 6)
    actual = {"3": 3, "4": a4, "5": a5}
    return dict(func_id=r["res"]["func_id"], ids={lab: all_ids[str(a)] for lab, a in actual.items()}, actual=actual)


def _canon_for(cache, ids):
    mod, fn = ids["func_id"].split("/")
    return fstrace.Canon(cache, mod, fn, {v: k for k, v in ids["ids"].items()})


def _proc_real(base, tag, cache, canon, p, when=None, idx=0):
    """Run one process of a history for real. -> dict(ops, me, res, killed, killed_call)"""
    r = _run_worker(base, tag, _real_spec(base, cache, p), when=when)
    calls = fstrace.parse_log(r["log"])
    n0 = len(canon.participants)
    ops = canon.canon(calls)
    me = n0 if len(canon.participants) > n0 else 900 + idx
    killed = r["rc"] in (-9, 137) or (when is not None and r["res"] is None)
    kc = None
    if killed:
        for c in reversed(calls):
            if c["ret"] is None:
                kc = c
                break
    r.update(ops=ops, me=me, killed=killed, killed_call=kc, calls=calls)
    return r


def _order_from(listings):
    """A total order of names consistent with every observed directory listing (topological merge)."""
    names, succ = [], {}
    for lst in listings:
        for n in lst:
            if n not in succ:
                succ[n] = set()
                names.append(n)
        for a, b in zip(lst, lst[1:]):
            succ[a].add(b)
    indeg = {n: 0 for n in names}
    for a in names:
        for b in succ[a]:
            indeg[b] += 1
    out, ready = [], [n for n in names if indeg[n] == 0]
    while ready:
        n = ready.pop(0)
        out.append(n)
        for b in sorted(succ[n], key=names.index):
            indeg[b] -= 1
            if indeg[b] == 0:
                ready.append(b)
    if len(out) != len(names):
        return None
    return out


def _listings(ops_lists):
    out = []
    for ops in ops_lists:
        for o in ops:
            if o.startswith("readdir "):
                t = o.split(" ")
                if len(t) == 3 and t[2] != "-":
                    out.append(t[2].split(","))
    return out


def _hex(b):
    return b.hex() or "-"


def _hist_request(order, procs_tokens):
    s0, fl = _func_source(0)
    s1, _ = _func_source(1)
    return f"hist {','.join(order) if order else '-'} {fl} {_hex(s0)} {_hex(s1)} | " + " | ".join(procs_tokens)


def _crash_class(ops):
    """Where, with respect to func_code.py, the workload was killed (from the calls it had completed): was the old
    func_code.py unlinked, was a new one created (written or not), are result files of entry directories still being
    removed. This identifies the crash point CLASS of a failure, so that a known finding only matches its own history."""
    unlinked = any(o.startswith("unlink ") and o.split(" ")[1].endswith("/func_code.py") and o.endswith(" ok") for o in ops)
    created = any(o.startswith("creat ") and o.split(" ")[1].endswith("/func_code.py") and o.endswith(" ok") for o in ops)
    written = any(o.startswith("write ") and o.split(" ")[1].endswith("/func_code.py") for o in ops)
    k_unlink = next((i for i, o in enumerate(ops) if o.startswith("unlink ") and o.split(" ")[1].endswith("/func_code.py")), None)
    k_creat = next((i for i, o in enumerate(ops) if o.startswith("creat ") and o.split(" ")[1].endswith("/func_code.py")), None)
    if unlinked and not created:
        return "func_code-unlinked,new-code-not-yet-created"      # inside the removal of the function directory
    if created and (k_unlink is None or k_creat < k_unlink):
        return "func_code-rewritten-in-place-before-any-removal" + (",written" if written else ",empty")
    if unlinked and created:
        return "func_code-unlinked,new-code-created" + (",written" if written else ",empty")
    return "func_code-untouched"


def _judge(res, desc, rec, ver, variant, crash_class="?", entry_states=None):
    """Oracle on one recovering process (no model): returns f(x) of the live source, does not raise."""
    r = rec["res"]
    a = rec["p"]["a"]
    if rec["rc"] != 0 or not r or not r.get("results"):
        res.fail("recover-process-died", desc, dict(rc=rec["rc"], err=rec["err"], arg=a, variant=variant))
        return
    oc = r["results"][0]["outcome"]
    want = fstrace.expected(SRC[ver], _act(a), rec["p"].get("epoch", 0) if rec["p"]["cb"] in ("since1", "exp1") else 0)
    if oc[0] == "raise":
        cls = oc[1]
        where = oc[3] if len(oc) > 3 else "call"
        if cls == "KeyError" and "time" in oc[2] and rec["p"]["cb"] != "none":
            sig = "expires_after:metadata-missing:KeyError"
        elif cls in ("ValueError", "UnicodeDecodeError") and where == "call":
            sig = "func_code-torn:" + cls
        else:
            sig = f"recover-raises:{cls}@{where}"
        res.fail(sig, desc, dict(arg=a, variant=variant, outcome=oc))
    elif rec["p"]["cb"] in ("since1", "exp1"):
        # expiry oracle (no model): under "valid iff stored in epoch >= E" the value returned must be of an epoch >= E
        # (E = the epoch of the recovering process: a value cannot be newer than that, so it is exactly E)
        need = rec["p"].get("epoch", 0)
        got_epoch = fstrace.value_epoch(oc[1])
        if oc[1] == want:
            return
        if got_epoch is not None and oc[1] == fstrace.expected(SRC[ver], _act(a), got_epoch) and got_epoch < need:
            st = (entry_states or {}).get(str(a)) or {}
            if st.get("meta") == "fresh" and st.get("out") is not None and st["out"] < need:
                sig = "stale-value-after-crash[expired-entry-refreshed]"   # new time stamp next to the old value
            elif st.get("meta") == "missing" and st.get("out") is not None:
                sig = "expired-entry-served:metadata-missing"
            else:
                sig = "expired-entry-served:other"
            res.fail(sig, dict(desc, entry_state=st), dict(arg=a, variant=variant, got=oc[1], value_epoch=got_epoch,
                                                           required_epoch=need))
        else:
            res.fail("wrong-value", desc, dict(arg=a, variant=variant, got=oc[1], want=want))
    elif oc[1] != want:
        stale = oc[1] == fstrace.expected(SRC[1 - ver], _act(a))
        # a stale value is classified by the crash point class: F36 is exactly "killed after func_code.py was unlinked and
        # before a new one was created, old entries still there"; any other history is a different failure
        res.fail(f"stale-value-after-crash[{crash_class}]" if stale else "wrong-value",
                 dict(desc, crash_class=crash_class), dict(arg=a, variant=variant, got=oc[1], want=want))


def _mid_char_offsets(full):
    """Lengths that cut `full` inside a multi-byte UTF-8 character, grouped by the character's size (2, 3, 4 bytes)."""
    by_size = {}
    i = 0
    while i < len(full):
        b = full[i]
        size = 1 if b < 0x80 else 2 if b < 0xE0 else 3 if b < 0xF0 else 4
        if size > 1:
            by_size.setdefault(size, []).append([i + k for k in range(1, size)])
        i += size
    return by_size


def _torn_lengths(full, have, rng_vals, thorough):
    """Boundary-biased lengths in [have, total) (strict prefixes of the complete content); for text, every byte offset
    inside a 2-, 3- and 4-byte character (quick: of one character per size, thorough: of every character)."""
    total = len(full)
    cand = {have, have + 1, 1, 5, 12, 13, 14, 15, 16, 17, total - 1, total - 2, total // 2}
    cand |= set(rng_vals)
    mid = set()
    for size, chars in _mid_char_offsets(full).items():
        for offs in (chars if thorough else chars[:1]):
            mid |= set(offs)
    cand = sorted(n for n in cand if have <= n < total)
    if not thorough and len(cand) > 6:
        keep = {cand[0], cand[-1]} | {n for n in cand if n in (13, 14, 15, 16)}
        cand = sorted(keep)
    return sorted(set(cand) | {n for n in mid if have <= n < total})


def _copy(src, dst):
    """copytree that also copies "does not exist"."""
    shutil.rmtree(dst, ignore_errors=True)
    if os.path.exists(src):
        shutil.copytree(src, dst, symlinks=True)


def _check_final_names(cache):
    """Oracle 2 (no model): every `output.pkl` present loads (joblib.load) and every `metadata.json` parses and has a
    time stamp. -> list of problems."""
    import joblib

    bad = []
    for root, _, fns in os.walk(cache):
        for fn in fns:
            p = os.path.join(root, fn)
            if fn == "output.pkl":
                try:
                    v = joblib.load(p)
                    if not (fstrace.value_epoch(v) is not None and v[2] in SRC.values()):
                        bad.append(("output.pkl", "unexpected value %r" % (v,)))
                except BaseException as e:  # noqa: BLE001
                    bad.append(("output.pkl", type(e).__name__))
            elif fn == "metadata.json":
                try:
                    if "time" not in json.loads(open(p, "rb").read().decode("utf-8")):
                        bad.append(("metadata.json", "no time"))
                except BaseException as e:  # noqa: BLE001
                    bad.append(("metadata.json", type(e).__name__))
    return bad


def _entry_states(cache, ids, base):
    """What the entry directory of each labelled argument holds (read by the harness, no model): the epoch of the value in
    output.pkl and whether metadata.json carries a time stamp of epoch 0 ("old") or later ("fresh")."""
    import joblib

    thr = _threshold(base)
    out = {}
    fdir = os.path.join(cache, "joblib", ids["func_id"])
    for lab, h in ids["ids"].items():
        d = os.path.join(fdir, h)
        st = dict(out=None, meta="missing")
        try:
            st["out"] = fstrace.value_epoch(joblib.load(os.path.join(d, "output.pkl")))
        except BaseException:  # noqa: BLE001
            pass
        try:
            t = json.loads(open(os.path.join(d, "metadata.json"), "rb").read().decode("utf-8")).get("time")
            st["meta"] = "unreadable" if t is None else ("fresh" if t >= thr else "old")
        except BaseException:  # noqa: BLE001
            pass
        out[lab] = st
    return out


def _rec_call(w, arg, variant, first):
    """The recovering call for a variant: same source version; the workload's shelve flag only for its first variant."""
    return _call(arg, ver=w["ver"], cb=VARIANT_CB[variant], shelve=w.get("shelve", 0) if first else 0,
                 compress=w.get("compress", 0), epoch=w.get("rec_epoch", 0))


def _kill_case(a):
    """One crash point (runs in a pool worker). Returns a picklable record."""
    (base, wname, when, pre_dir, ids, clean_files, setup_ops, setup_mes, tier_thorough, rng_vals, variants) = a
    w = WORKLOADS[wname]
    XFS["on"] = bool(w.get("xfs"))
    ACTUAL.update(ids["actual"])
    out = dict(workload=wname, when=when, cases=[])
    kdir = os.path.join(base, f"k-{wname}-{when[0]}-{when[1]}")
    os.makedirs(kdir, exist_ok=True)
    cache = os.path.join(kdir, "cache")
    if os.path.exists(pre_dir):
        shutil.copytree(pre_dir, cache, symlinks=True)
        _set_atimes(cache, ids)
    canon = _canon_for(cache, ids)
    canon.participants = {f"setup{i}": i for i in range(len([m for m in setup_mes if m < 900]))}
    kp = _proc_real(kdir, "kill", cache, canon, w["action"], when=when, idx=50)
    if not kp["killed"]:
        out["not_killed"] = True
        shutil.rmtree(kdir, ignore_errors=True)
        return out
    j = len(kp["ops"])
    torn_variants = [None]
    torn_path = None
    kc = kp["killed_call"]
    if kc is not None and kc["name"] in ("write", "pwrite64"):
        args = fstrace._split_args(kc["args"])
        torn_path = fstrace._fdpath(args[0])
        cp = canon.path(torn_path) if torn_path else None
        if cp is not None and os.path.exists(torn_path):
            base_name = cp.split("/")[-1]
            key = base_name.split(".tmp")[0] if ".tmp" in base_name else base_name
            full = clean_files.get(key)
            if full is not None:
                full = bytes.fromhex(full)
                have = os.path.getsize(torn_path)
                out["torn_file"] = cp
                is_code = cp.endswith("func_code.py") or cp.endswith(".gitignore")
                lens = [n for n in _torn_lengths(full, have, rng_vals, tier_thorough) if n > have]
                if not tier_thorough and not cp.endswith("func_code.py"):
                    lens = lens[:1]  # a torn temporary / .gitignore is never read back: one length is a sample
                torn_variants += [("torn", n) for n in lens]
                # is the interrupted write the first write(2) of this open file (then the model's op is still to come)?
                out["first_write"] = not (kp["ops"] and kp["ops"][-1] == f"write {cp}")
    if (w.get("rec_epoch") or w.get("xfs")) and not tier_thorough:
        torn_variants = torn_variants[:2]  # torn func_code.py / temporaries are swept by `cold`; here one sample
    state = os.path.join(kdir, "state")
    _copy(cache, state)
    out["final_names"] = _check_final_names(cache)
    out["entry_states"] = _entry_states(cache, ids, base)
    for tv in torn_variants:
        for variant in variants:
            if tv is not None and variant != variants[0] and not tier_thorough and not out["torn_file"].endswith("func_code.py"):
                continue
            vdir = os.path.join(kdir, "v")
            shutil.rmtree(vdir, ignore_errors=True)
            os.makedirs(vdir)
            vcache = os.path.join(kdir, "cache")  # same absolute path as the killed run (canon root)
            _copy(state, vcache)
            kill_tok = dict(kill=j, torn=None)
            if tv is not None:
                n = tv[1]
                with open(torn_path, "r+b") as fh:
                    fh.seek(0)
                    fh.write(full[:n])
                    fh.truncate(n)
                kill_tok = dict(kill=j + 1 if out["first_write"] else j, torn=n if is_code else min(n, 2))
            elif "torn_file" in out and not out["first_write"]:
                kill_tok = dict(kill=j, torn=have if is_code else min(have, 2))
            vc = _canon_for(vcache, ids)
            vc.participants = dict(canon.participants)
            recs = []
            seq = [X] + list(w["bystanders"]) + [X]
            if variant != variants[0] and not tier_thorough:
                seq = [X] + list(w["bystanders"])[:1]
            for ri, arg in enumerate(seq):
                p = _rec_call(w, arg, variant, variant == variants[0])
                r = _proc_real(vdir, f"rec{ri}", vcache, vc, p, idx=60 + ri)
                recs.append(dict(p=p, rc=r["rc"], res=r["res"], err=r["err"], ops=r["ops"], me=r["me"]))
            out["cases"].append(dict(torn=tv, variant=variant, kill_tok=kill_tok, killed_ops=kp["ops"], killed_me=kp["me"],
                                     recs=recs))
    shutil.rmtree(kdir, ignore_errors=True)
    return out


def _prepare(ctx, res, base, wname, ids):
    """Build the pre-state of a workload, run it cleanly once. -> dict for the kill sweep."""
    w = WORKLOADS[wname]
    XFS["on"] = bool(w.get("xfs"))
    wdir = os.path.join(base, f"w-{wname}")
    os.makedirs(wdir, exist_ok=True)
    cache = os.path.join(wdir, "cache")
    canon = _canon_for(cache, ids)
    setup_ops, setup_mes = [], []
    for i, p in enumerate(w["setup"]):
        r = _proc_real(wdir, f"setup{i}", cache, canon, p, idx=i)
        if r["rc"] != 0 or not r["res"]:
            raise core.InfraError(f"set-up process failed: {wname} {p} {r['err']}")
        setup_ops.append(r["ops"])
        setup_mes.append(r["me"])
    pre_dir = os.path.join(wdir, "pre")
    if os.path.exists(cache):
        shutil.copytree(cache, pre_dir, symlinks=True)
        _set_atimes(cache, ids)
    n_setup_parts = len(canon.participants)
    clean = _proc_real(wdir, "clean", cache, canon, w["action"], idx=50)
    if clean["rc"] != 0:
        raise core.InfraError(f"clean run of {wname} failed: {clean['err']}")
    pts = fstrace.kill_points(clean["calls"], canon)
    # complete contents for torn writes
    files = {}
    for root, _, fns in os.walk(cache):
        for fn in fns:
            if fn in ("output.pkl", "metadata.json", "func_code.py", ".gitignore") and fn not in files:
                files[fn] = open(os.path.join(root, fn), "rb").read().hex()
    if wname in ("reduce", "clear", "warm") or "func_code.py" not in files:
        s, fl = _func_source(w["ver"])
        files.setdefault("func_code.py", (b"# first line: %d\n" % fl + s).hex())
    # clean correspondence: set-up + workload logs against the model
    all_ops = setup_ops + [clean["ops"]]
    order = _order_from(_listings(all_ops))
    toks = [_model_tok(p, m) for p, m in zip(w["setup"], setup_mes)] + [_model_tok(w["action"], clean["me"])]
    shutil.rmtree(cache, ignore_errors=True)
    return dict(wname=wname, pre_dir=pre_dir, points=pts, files=files, setup_ops=setup_ops, setup_mes=setup_mes,
                clean_ops=clean["ops"], clean_me=clean["me"], order=order, toks=toks, all_ops=all_ops,
                n_setup_parts=n_setup_parts, clean_res=clean["res"])


def _compare_logs(res, stream, desc, real_lists, reply):
    parts = reply.split(" | ")
    if reply == "bad-op" or len(parts) != len(real_lists):
        res.diverge(stream, desc, "<real logs>", reply[:300])
        return False
    ok = True
    for i, (real, part) in enumerate(zip(real_lists, parts)):
        log, _, outcome = part.rpartition(" => ")
        mops = [x for x in log.split(";") if x]
        res.traces_validated += 1
        if mops != real["ops"]:
            k = next((n for n, (x, y) in enumerate(zip(mops, real["ops"])) if x != y), min(len(mops), len(real["ops"])))
            res.diverge(stream, dict(desc, process=i, first_difference_at=k),
                        real["ops"][max(0, k - 2):k + 3], mops[max(0, k - 2):k + 3])
            ok = False
        elif real.get("outcome") is not None and outcome != real["outcome"]:
            res.diverge(stream + ":outcome", dict(desc, process=i), real["outcome"], outcome)
            ok = False
    return ok


def _outcome_str(rec, ver):
    r = rec["res"]
    if not r or not r.get("results"):
        return None
    oc = r["results"][0]["outcome"]
    a = rec["p"]["a"]
    if oc[0] == "ok":
        e = fstrace.value_epoch(oc[1])
        for v in (0, 1):
            if e is not None and oc[1] == fstrace.expected(SRC[v], _act(a), e):
                return f"ok v{v}.{a}" + (f"@{e}" if e else "")
        return "ok ?"
    cls = oc[1]
    return "raise " + {"UnicodeDecodeError": "ValueError", "EOFError": "UnpicklingError"}.get(cls, cls)


def _code_stream(ctx, res):
    """`_check_previous_func_code`'s reading of every torn length of func_code.py: real joblib vs `checkCodeImpl`."""
    joblib = core.use_repo()
    from joblib import memory as jm

    s0, fl = _func_source(0)
    live = s0.decode()
    variants = [(b"# first line: %d\n" % n) + s0 for n in (fl, 12, 345)]
    variants.append(b"# first line: 7\n" + "def g(x):\n    return 'naïve ☃ \U0001F600'\n".encode())
    reqs, real = [], []
    for full in variants:
        src = full.split(b"\n", 1)[1]
        for n in range(len(full) + 1):
            content = full[:n]
            try:
                old, _ = jm.extract_first_line(content.decode("utf-8"))
                r = "same" if old == src.decode() else "differs"
            except ValueError:
                r = "valueError"
            real.append((n, r, content))
            reqs.append(f"code {_hex(src)} {_hex(content)}")
    replies = ctx.driver().run(reqs)
    for (n, r, content), m in zip(real, replies):
        res.evaluations += 1
        res.count("code-read:" + r)
        res.traces_validated += 1
        if r != m:
            res.diverge("func_code-read", dict(content=content.decode("latin-1"), torn_at=n), r, m)
    del live, joblib


def _synth_cases(ctx, res, base, prep, ids, nperm):
    """Crash states inside directory removals under kernel orders this file system does not produce: the model's
    operation prefix is replayed on a copy of the pre-state (only unlink/rmdir/mkdir/creat-empty are replayed)."""
    wname = prep["wname"]
    w = WORKLOADS[wname]
    names = prep["order"] or []
    if not names:
        return []
    rng = ctx.rng("synth-" + wname)
    orders = [list(reversed(names))]
    fc_first = ["func_code.py"] + [n for n in names if n != "func_code.py"]
    if fc_first not in orders and fc_first != names:
        orders.insert(0, fc_first)
    for _ in range(nperm):
        o = names[:]
        rng.shuffle(o)
        if o not in orders and o != names:
            orders.append(o)
    jobs = []
    for order in orders:
        toks = [_model_tok(p, m) for p, m in zip(w["setup"], prep["setup_mes"])] + [_model_tok(w["action"], prep["clean_me"])]
        rep = ctx.driver().run([_hist_request(order, toks)])[0]
        if rep == "bad-op":
            raise core.InfraError("driver rejected a synthetic history")
        log = rep.split(" | ")[-1].rpartition(" => ")[0].split(";")
        rm_idx = [i for i, o in enumerate(log) if o.startswith(("unlink ", "rmdir "))]
        if not rm_idx:
            continue
        for j in range(rm_idx[0] + 1, rm_idx[-1] + 2):
            if not log[j - 1].startswith(("unlink ", "rmdir ")):
                continue  # the state only changes at removals
            jobs.append((order, j, log[:j]))
    return jobs


def _synth_case(a):
    (base, wname, order, j, prefix, pre_dir, ids, setup_mes, variants, tag) = a
    w = WORKLOADS[wname]
    XFS["on"] = bool(w.get("xfs"))
    ACTUAL.update(ids["actual"])
    kdir = os.path.join(base, f"s-{wname}-{tag}")
    os.makedirs(kdir, exist_ok=True)
    cache = os.path.join(kdir, "cache")
    shutil.copytree(pre_dir, cache, symlinks=True)
    inv = {"E" + k: v for k, v in ids["ids"].items()}
    mod, fn = ids["func_id"].split("/")

    def real(cp):
        parts = cp.split("/")
        out = [cache]
        for x in parts[1:]:
            out.append(mod if x == "M" else fn if x == "F" else inv.get(x, x))
        return os.path.join(*out)

    for o in prefix:
        t = o.split(" ")
        try:
            if t[0] == "unlink" and t[2] == "ok":
                os.unlink(real(t[1]))
            elif t[0] == "rmdir" and t[2] == "ok":
                os.rmdir(real(t[1]))
            elif t[0] == "mkdir" and t[2] == "ok":
                os.mkdir(real(t[1]))
        except OSError as e:
            shutil.rmtree(kdir, ignore_errors=True)
            return dict(workload=wname, infra=f"replay of {o} failed: {e}")
    out = dict(workload=wname, order=order, kill=j, prefix=list(prefix), cases=[])
    out["entry_states"] = _entry_states(cache, ids, base)
    state = os.path.join(kdir, "state")
    shutil.copytree(cache, state, symlinks=True)
    for variant in variants:
        shutil.rmtree(cache, ignore_errors=True)
        shutil.copytree(state, cache, symlinks=True)
        vc = _canon_for(cache, ids)
        vc.participants = {f"setup{i}": i for i in range(len([m for m in setup_mes if m < 900]))}
        recs = []
        for ri, arg in enumerate([X] + list(w["bystanders"]) + [X]):
            p = _rec_call(w, arg, variant, False)
            r = _proc_real(kdir, f"rec{ri}", cache, vc, p, idx=60 + ri)
            recs.append(dict(p=p, rc=r["rc"], res=r["res"], err=r["err"], ops=r["ops"], me=r["me"]))
        out["cases"].append(dict(variant=variant, recs=recs))
    shutil.rmtree(kdir, ignore_errors=True)
    return out


def _explore(ctx, budget_scale=1, only=None):
    res = Result()
    res.rule = ("one case = (workload, crash point k = number of completed file-system calls, torn length or none, recovery "
                "variant plain|expires_after|since(epoch)|expires_after(shifted clock)) judged on the same call + the other cached arguments in fresh processes; "
                "non-trivial = the crash point lies inside the workload's own calls under the cache directory; distinct by "
                "(workload, k, torn length, variant, synthetic directory order)")
    core.use_repo()
    base = str(ctx.scratch)
    import time

    # the threshold instant between epoch 0 (the real clock) and epoch 1 (the clock shifted by EPOCH_SHIFT)
    with open(os.path.join(base, "threshold"), "w") as fh:
        fh.write(repr(time.time() + fstrace.EXPIRY_DELTA))
    XFS["on"] = False
    ids = _ids(base)
    ACTUAL.update(ids["actual"])
    res.extra["arguments"] = ids["actual"]
    other = _probe_other_fs(base)
    res.extra["tmpdir_on_another_file_system"] = other or "none available (the *-xfs workloads were skipped)"
    if other:
        with open(os.path.join(base, "otherfs"), "w") as fh:
            fh.write(other)
    thorough = ctx.thorough or budget_scale > 1
    rng = ctx.rng("torn")
    _code_stream(ctx, res)
    names = list(WORKLOADS) if only is None else only
    if not other:
        names = [n for n in names if not WORKLOADS[n].get("xfs")]
        res.notes.append("no second writable file system found (st_dev): TMPDIR-on-another-file-system workloads skipped")
    preps = {}
    for wname in names:
        preps[wname] = _prepare(ctx, res, base, wname, ids)
    XFS["on"] = False
    # the environment must not matter: same operations with TMPDIR on another file system (no model involved)
    for wname, p in preps.items():
        twin = WORKLOADS[wname].get("same_ops_as")
        if twin in preps:
            res.evaluations += 1
            res.traces_validated += 1
            res.count("env-independence:" + wname)
            a_ops, b_ops = p["all_ops"], preps[twin]["all_ops"]
            if a_ops != b_ops:
                fa = [o for ops in a_ops for o in ops]
                fb = [o for ops in b_ops for o in ops]
                k = next((n for n, (x, y) in enumerate(zip(fa, fb)) if x != y), min(len(fa), len(fb)))
                res.diverge("ops:env-independence", dict(workload=wname, tmpdir="another file system", first_difference_at=k),
                            fa[max(0, k - 2):k + 4], fb[max(0, k - 2):k + 4])
    # a final name must only ever appear by rename — also in the clean (unkilled) run of every workload and environment
    for wname, p in preps.items():
        for o in p["clean_ops"]:
            t = o.split(" ")
            if t[0] in ("creat", "write") and t[1].rsplit("/", 1)[-1] in ("output.pkl", "metadata.json"):
                res.fail("final-name-written-in-place:" + t[1].rsplit("/", 1)[-1],
                         dict(workload=wname, phase="clean", tmpdir_on_another_file_system=bool(WORKLOADS[wname].get("xfs"))), o)
                break
    # (a) clean correspondence
    reqs = [_hist_request(p["order"] or [], p["toks"]) for p in preps.values()]
    for p, rep in zip(preps.values(), ctx.driver().run(reqs)):
        real = [dict(ops=o) for o in p["all_ops"]]
        res.evaluations += 1
        res.count("clean-run:" + p["wname"])
        _compare_logs(res, "ops:" + p["wname"], dict(workload=p["wname"], phase="clean"), real, rep)
    # (b) kill sweep
    jobs = []
    for wname, p in preps.items():
        pts = p["points"]
        whens = [x["when"] for x in pts]
        if not thorough and wname not in QUICK_FULL:
            # quick: a sample — the first, the last, every rename/unlink/rmdir and the calls around them, every write
            prim, sec = [], []
            for i, x in enumerate(pts):
                nxt = pts[min(i + 1, len(pts) - 1)]["when"]
                if x["op"].split(" ")[0] in ("rename", "unlink", "rmdir"):
                    prim += [x["when"], nxt]  # before and after every rename / removal
                elif i in (0, len(pts) - 1) or x["op"].split(" ")[0] in ("write", "write+"):
                    sec += [x["when"]]
            prim = list(dict.fromkeys(prim))
            sec = [x for x in dict.fromkeys(sec) if x not in prim]
            cap = 18
            if len(prim) > cap:
                prim = sorted(rng.sample(prim, cap))
            whens = prim + sec[:max(0, cap - len(prim))]
        variants = WORKLOADS[wname].get("variants", ["plain", "expires"])
        for wh in whens:
            jobs.append((base, wname, wh, p["pre_dir"], ids, p["files"], p["setup_ops"], p["setup_mes"], thorough,
                         [rng.randint(0, 120) for _ in range(2 if not thorough else 5)], variants))
    synth_jobs = []
    for wname, p in preps.items():
        if wname in ("srcchange", "clear", "reduce", "expire", "refresh"):
            vs = WORKLOADS[wname].get("variants", ["plain", "expires"])
            for si, (order, j, prefix) in enumerate(_synth_cases(ctx, res, base, p, ids, 3 if thorough else 1)):
                synth_jobs.append((base, wname, order, j, prefix, p["pre_dir"], ids, p["setup_mes"],
                                   vs if thorough or j % 3 == 0 else vs[:1], f"{si}"))
    if not thorough and len(synth_jobs) > 40:
        keep = [s for s in synth_jobs if s[1] == "srcchange"][:24]
        rest = [s for s in synth_jobs if s[1] != "srcchange"]
        synth_jobs = keep + rng.sample(rest, min(len(rest), 16))
    with cf.ProcessPoolExecutor(max_workers=min(16, os.cpu_count() or 4)) as ex:
        kill_out = list(ex.map(_kill_case, jobs, chunksize=1))
        synth_out = list(ex.map(_synth_case, synth_jobs, chunksize=1))
    # judge + model correspondence of every history
    reqs, pend = [], []
    covered = {w: set() for w in preps}
    for ko in kill_out:
        wname = ko["workload"]
        p = preps[wname]
        w = WORKLOADS[wname]
        if ko.get("not_killed"):
            res.count("kill-after-the-last-call")
            continue
        for c0 in ko["cases"][:1]:
            for o in c0["killed_ops"]:
                t = o.split(" ")
                if t[0] in ("creat", "write") and t[1].rsplit("/", 1)[-1] in ("output.pkl", "metadata.json"):
                    res.fail("final-name-written-in-place:" + t[1].rsplit("/", 1)[-1], dict(workload=wname, when=ko["when"]), o)
                    break
        for fn, why in ko.get("final_names", []):
            res.fail(f"final-name-incomplete:{fn}", dict(workload=wname, when=ko["when"]), why)
        for c in ko["cases"]:
            j = len(c["killed_ops"])
            covered[wname].add(j)
            desc = dict(workload=wname, kill_after_calls=j, when=ko["when"], torn=c["torn"], variant=c["variant"],
                        torn_file=ko.get("torn_file"))
            res.evaluations += 1
            res.nontrivial.add((wname, j, str(c["torn"]), c["variant"]))
            res.count("crash:" + wname)
            res.count("torn" if c["torn"] else "untorn")
            res.sample(desc)
            kops = list(c["killed_ops"])
            if c["torn"] is not None and ko.get("torn_file") and kops[-1:] != [f"write {ko['torn_file']}"]:
                kops.append(f"write {ko['torn_file']}")
            for rec in c["recs"]:
                _judge(res, desc, rec, w["ver"], c["variant"], _crash_class(kops), ko.get("entry_states"))
            all_ops = p["setup_ops"] + [c["killed_ops"]] + [r["ops"] for r in c["recs"]]
            order = _order_from(_listings(all_ops + [p["clean_ops"]]))
            if order is None:
                res.count("order-inconsistent")
                continue
            toks = ([_model_tok(q, m) for q, m in zip(w["setup"], p["setup_mes"])]
                    + [_model_tok(w["action"], c["killed_me"], kill=c["kill_tok"]["kill"], torn=c["kill_tok"]["torn"])]
                    + [_model_tok(r["p"], r["me"]) for r in c["recs"]])
            reqs.append(_hist_request(order, toks))
            real = ([dict(ops=o) for o in p["setup_ops"]] + [dict(ops=c["killed_ops"], outcome="killed")]
                    + [dict(ops=r["ops"], outcome=_outcome_str(r, w["ver"])) for r in c["recs"]])
            if c["torn"] is not None and ko.get("first_write"):
                real[len(p["setup_ops"])]["ops"] = c["killed_ops"] + [f"write {ko['torn_file']}"]
            pend.append(("crash:" + wname, desc, real))
    for so in synth_out:
        if so.get("infra"):
            res.notes.append(so["infra"])
            continue
        wname = so["workload"]
        w = WORKLOADS[wname]
        p = preps[wname]
        for c in so["cases"]:
            desc = dict(workload=wname, kill_after_calls=so["kill"], synthetic_directory_order=so["order"],
                        variant=c["variant"])
            res.evaluations += 1
            res.nontrivial.add((wname, so["kill"], tuple(so["order"]), c["variant"]))
            res.count("synthetic-crash:" + wname)
            for rec in c["recs"]:
                _judge(res, desc, rec, w["ver"], c["variant"], _crash_class(so.get("prefix", [])), so.get("entry_states"))
    if reqs:
        for (stream, desc, real), rep in zip(pend, ctx.driver().run(reqs)):
            _compare_logs(res, stream, desc, real, rep)
    for wname, p in preps.items():
        total = len(p["clean_ops"])
        res.extra.setdefault("crash_points", {})[wname] = dict(calls=total, distinct_crash_points=len(covered[wname]),
                                                                 kill_targets=len(p["points"]))
    if other:
        shutil.rmtree(other, ignore_errors=True)
    res.assumptions = ["a completed system call is durable, an interrupted write leaves a prefix (kill -9, not power loss)",
                       "the live source of the cached function is not a prefix of its own '# first line:' header"]
    return res


def run(ctx):
    try:
        if ctx.replay:
            case = ctx.replay.get("case", {})
            wn = case.get("workload")
            return _explore(ctx, only=[wn] if wn in WORKLOADS else None)
        return _explore(ctx)
    finally:
        _cleanup_tmpdirs()


def search(ctx, res):
    ctx2 = core.Ctx(prop=ctx.prop, tier="thorough", seed=ctx.seed, scratch=ctx.scratch / "search")
    os.makedirs(ctx2.scratch, exist_ok=True)
    try:
        return _explore(ctx2, budget_scale=10)
    finally:
        _cleanup_tmpdirs()
