"""Importable classes for the extended C08 universe: values whose pickling goes through
reduce / dictitems / listitems / setstate / __getstate__ paths of `pickle._Pickler` (and therefore of
`joblib.hashing.Hasher`).  They must live in an importable module (the stream names them with GLOBAL), and
equal values must compare equal so that they can be rebuilt and de-duplicated as dict keys / set elements."""

import collections
import enum


class DictSub(dict):
    pass


class ListSub(list):
    pass


class TupleSub(tuple):
    pass


class SetSub(set):
    pass


class FrozenSub(frozenset):
    pass


class DictSub2(dict):
    """same content as DictSub, another type (likewise below)"""


class ListSub2(list):
    pass


class TupleSub2(tuple):
    pass


class SetSub2(set):
    pass


class FrozenSub2(frozenset):
    pass


Point = collections.namedtuple("Point", "x y")
Pair = collections.namedtuple("Pair", "a b")  # same shape, another type


class Color(enum.IntEnum):
    RED = 1
    GREEN = 2
    ZERO = 0


class Perm(enum.IntFlag):
    X = 1
    W = 2
    R = 4


class _ByDict:
    def __eq__(self, other):
        return type(other) is type(self) and self._state() == other._state()

    def __ne__(self, other):
        return not self == other

    def __hash__(self):
        return hash(type(self).__name__)


class Plain(_ByDict):
    """state = __dict__"""

    def __init__(self, **kw):
        self.__dict__.update(kw)

    def _state(self):
        return self.__dict__


class Plain2(Plain):
    """same content, another type"""


class Slots(_ByDict):
    __slots__ = ("a", "b")

    def __init__(self, a, b):
        self.a, self.b = a, b

    def _state(self):
        return (self.a, self.b)


class Reduced(_ByDict):
    def __init__(self, a, b):
        self.a, self.b = a, b

    def _state(self):
        return (self.a, self.b)

    def __reduce__(self):
        return (Reduced, (self.a, self.b))


class Stateful(_ByDict):
    def __init__(self, payload):
        self.payload = payload
        self.cache = object()  # never part of the state

    def _state(self):
        return self.payload

    def __getstate__(self):
        return {"payload": self.payload}

    def __setstate__(self, st):
        self.payload = st["payload"]
        self.cache = object()


ENUMS = {
    "Color.RED": Color.RED,
    "Color.GREEN": Color.GREEN,
    "Color.ZERO": Color.ZERO,
    "Perm.X": Perm.X,
    "Perm.W": Perm.W,
    "Perm.R": Perm.R,
    "Perm.RW": Perm.R | Perm.W,
    "Perm.0": Perm(0),
}
