"""C15 — n_jobs bounds concurrency; nesting never multiplies worker processes.

Model: lean/JoblibModel/NJobs.lean (+ Config.lean for the nested selection); theorems: lean/JoblibProofs/C15.lean;
driver: Driver/C15.lean.

Implementation side (everything runs in WORKER SUBPROCESSES of /venv/bin/python with PYTHONPATH=VERIF_REPO; the check
process only orchestrates):
* cpu_count():   (a) real: `os.sched_setaffinity` masks set in the subprocess, LOKY_MAX_CPU_COUNT set through the public
                 environment variable, the machine's os.cpu_count()/cgroup files/physical cores read and handed to the model;
                 (b) mock: unittest.mock patches of os.cpu_count, os.sched_getaffinity, the three cgroup files
                 (os.path.exists/open as seen by loky's context module) and loky's platform probe `_count_physical_cores_linux`,
                 to reach the counts, quotas and "not found" cases this machine does not have.
* effective_n_jobs / Parallel._initialize_backend: EXHAUSTIVE over n_jobs in [-2c, 2c] (+ None), c in 1..32, the four
                 backend classes x nesting_level 0..3 (+ None) x main / other thread (a real threading.Thread) x
                 daemon flag (a REAL daemonic multiprocessing.Process) x process_executor._CURRENT_DEPTH in {0, 1}
                 (module attribute set by the worker — stated: patched).  c is imposed through LOKY_MAX_CPU_COUNT when
                 c <= host CPUs and through the os.cpu_count/sched_getaffinity mocks otherwise (both when possible).
                 `_initialize_backend` runs with the three pool constructors (ThreadPool, MemmappingPool,
                 get_memmapping_executor) replaced by recorders, so the size each pool is asked for is observed
                 without starting 10^5 pools; gc.collect of MultiprocessingBackend.configure is stubbed.
* mp is None:    a worker started with JOBLIB_MULTIPROCESSING=0.
* nesting:       get_nested_backend() of every class x level; a real threading-on-top nest of depth 3.
* MEASURED, both tiers (real pools, in subprocesses): SEQUENCES of 2-3 consecutive Parallel calls on one backend (loky with
                 the executor-reuse conditions met — *_NUM_THREADS exported, or inner_max_num_threads given —, threading,
                 multiprocessing) with n_jobs growing and shrinking (4->2, 2->4->1, -1->2, ...), written as plain calls, inside
                 `with parallel_config(...)` and inside `with Parallel(...) as p`; every task records (pid, thread id, start, end);
                 oracle per call: high-water mark of simultaneously running tasks <= resolved n_jobs, distinct workers <= n_jobs,
                 live loky workers after the call <= n_jobs; the live-worker counts are also compared with the model of the
                 reusable executor's resize decision (`resize` request, theorem resize_worker_count_eq).
* MEASURED, both tiers: HISTORIES of calls that name no backend on the ONE ThreadingBackend instance of a context — the instance a
                 `with parallel_config(backend="threading")` block holds (level 0) and the nested instance BatchedCalls installs
                 (level 1) for the tasks of a batch inside a thread, a loky and a multiprocessing worker (history in one task, or
                 split over two tasks of one batch): plain calls and `with Parallel` blocks with growing / shrinking n_jobs,
                 through n_jobs=1 and n_jobs=-1, plus the F55 shape (another Parallel call inside an open block).  Every call is
                 measured with GATES (worker Gauge: tasks hold their worker until n_jobs are busy, then a further task gets the
                 chance to start — waited for when the pool is known to be larger, a short grace otherwise); oracle per call:
                 high-water mark <= resolved n_jobs, distinct worker threads <= n_jobs; the pool size each task saw
                 (`_pool._processes`) and `_pool` after every call are compared with the model (`tpool` request, theorem
                 thread_pool_exact; F55 = foreign_call_in_managed_block_counterexample, a known finding).
* SUPPORTING, thorough tier only (measured, not proved): high-water mark of simultaneously running tasks
                 <= resolved n_jobs on threading and loky; pids / thread ids / backend classes for nests of depth 3 under
                 threading, loky and multiprocessing tops; worker environment (daemon, main thread, loky depth).
"""

import json
import os
import subprocess
import sys

from .. import core
from ..core import Result

REQUIRED_THEOREMS = [
    "C15.resolve_pos",
    "C15.resolve_neg",
    "C15.resolve_zero_rejected",
    "C15.resolve_ge_one",
    "C15.guarded_resolves_one",
    "C15.one_is_sequential",
    "C15.pool_sized_to_n_jobs",
    "C15.cpu_count_ge_one",
    "C15.cpu_count_le_each_limit",
    "C15.cgroup_quota_is_ceiling",
    "C15.default_chain",
    "C15.thread_backend_no_processes",
    "C15.worker_uses_nested",
    "C15.process_backend_in_worker_one",
    "C15.nested_default_no_processes",
    "C15.resize_worker_count_eq",
    "C15.sequence_worker_count_eq",
    "C15.thread_pool_exact",
    "C15.thread_pool_sees_every_task",
    "C15.kept_pool_counterexample",
    "C15.foreign_call_in_managed_block_counterexample",
]
TRUSTED_EXTRA = [
    "PARTIAL (DESIGN C15): that ThreadPool(n) / MemmappingPool(n) / loky's executor(max_workers=n) run at most n tasks at "
    "once, and which thread/process their workers are (model: workerEnv), is measured by the thorough tier, not proved",
    "modelled, not verified: os.cpu_count, os.sched_getaffinity, the cgroup files, lscpu (physical cores <= logical cores "
    "is a hypothesis of cpu_count_le_each_limit); math.ceil(quota/period) is modelled exactly (quota, period < 2^53)",
    "harness mocks (stated in the module docstring): os.cpu_count / os.sched_getaffinity / cgroup files / "
    "_count_physical_cores for machine shapes this host does not have; process_executor._CURRENT_DEPTH set as an "
    "attribute; pool constructors replaced by recorders for the exhaustive grid; gc.collect stubbed",
    "nesting_level is an int when get_nested_backend runs (Parallel.__init__/_check_backend replace None); psutil absent",
    "thread-pool histories (tRun): `ThreadPool(k)` has k worker threads and `_processes == k` (read by the measured tasks, "
    "live threads recorded); one statement at a time per instance (the tasks of a batch run one after the other); "
    "thread_pool_exact assumes `with Parallel` blocks that contain only their own calls - the other case is F55 (known finding)",
]

WORKER_SRC = r'''
import contextlib, io, json, os, sys, threading, time, warnings, builtins
from unittest import mock
warnings.simplefilter("ignore")
sys.modules.setdefault("distributed", None)      # inside_dask_worker(): ImportError at once
sys.modules.setdefault("psutil", None)
import joblib
from joblib import Parallel, delayed, parallel_config
import joblib._parallel_backends as pb
import joblib.parallel as jp
from joblib.externals.loky.backend import context as lctx
from joblib.externals.loky import process_executor
import multiprocessing as mp

CLS = {"S": pb.SequentialBackend, "T": pb.ThreadingBackend, "M": pb.MultiprocessingBackend, "L": pb.LokyBackend}
LET = {v.__name__: k for k, v in CLS.items()}
CG = ("/sys/fs/cgroup/cpu.max", "/sys/fs/cgroup/cpu/cpu.cfs_quota_us", "/sys/fs/cgroup/cpu/cpu.cfs_period_us")

def read_cgroup():
    """(quota, period) as the code would read them, or None for "max"/absent."""
    try:
        if os.path.exists(CG[0]):
            q, p = open(CG[0]).read().strip().split()
        elif os.path.exists(CG[1]) and os.path.exists(CG[2]):
            q = open(CG[1]).read().strip(); p = open(CG[2]).read().strip()
        else:
            return None
        if q == "max":
            return None
        return [int(q), int(p)]
    except Exception as e:
        return "unreadable:" + repr(e)

@contextlib.contextmanager
def machine(os_count, aff, cgroup, loky, physical):
    """Mock the machine: os_count (int|None), aff (int|None=not available), cgroup (None | ["v2", q, p] | ["v1", q, p]),
    loky ("unset" | str), physical ("real" | None=not found | int)."""
    real_exists, real_open = os.path.exists, builtins.open
    files = {}
    if cgroup is not None:
        if cgroup[0] == "v2":
            files[CG[0]] = "%s %s\n" % (cgroup[1], cgroup[2])
        else:
            files[CG[1]] = "%s\n" % cgroup[1]; files[CG[2]] = "%s\n" % cgroup[2]
    def exists(p):
        return (p in files) if p in CG else real_exists(p)
    def fopen(p, *a, **k):
        if p in CG:
            if p in files: return io.StringIO(files[p])
            raise FileNotFoundError(p)
        return real_open(p, *a, **k)
    def getaff(pid):
        if aff is None: raise NotImplementedError
        return set(range(aff))
    old_env = os.environ.get("LOKY_MAX_CPU_COUNT")
    if loky == "unset": os.environ.pop("LOKY_MAX_CPU_COUNT", None)
    else: os.environ["LOKY_MAX_CPU_COUNT"] = loky
    ps = [mock.patch.object(os, "cpu_count", lambda: os_count), mock.patch.object(os, "sched_getaffinity", getaff),
          mock.patch.object(os.path, "exists", exists), mock.patch.object(lctx, "open", fopen, create=True)]
    if physical != "real":
        # the platform probe is replaced, loky's own validation ("< 1 -> not found") and cache stay real
        def probe_linux():
            if physical is None: raise OSError("lscpu: not available (mock)")
            return physical
        ps.append(mock.patch.object(lctx, "_count_physical_cores_linux", probe_linux))
        ps.append(mock.patch.object(lctx, "physical_cores_cache", None))
        ps.append(mock.patch.object(lctx.traceback, "print_tb", lambda *a, **k: None))
    try:
        with contextlib.ExitStack() as st:
            for p in ps: st.enter_context(p)
            yield
    finally:
        if old_env is None: os.environ.pop("LOKY_MAX_CPU_COUNT", None)
        else: os.environ["LOKY_MAX_CPU_COUNT"] = old_env

def call(f, *a, **k):
    try:
        return f(*a, **k)
    except Exception as e:
        return "raises:" + type(e).__name__

# ---------------------------------------------------------------- cpu_count
def job_cpu_real(job):
    if job.get("mask") is not None:
        os.sched_setaffinity(0, set(job["mask"]))
    out = dict(os=os.cpu_count(), aff=len(os.sched_getaffinity(0)), cgroup=read_cgroup(), physical=call(lambda: lctx._count_physical_cores()[0]), rows=[])
    for v in job["loky_values"]:
        if v is None: os.environ.pop("LOKY_MAX_CPU_COUNT", None)
        else: os.environ["LOKY_MAX_CPU_COUNT"] = v
        out["rows"].append([v, call(joblib.cpu_count), call(joblib.cpu_count, only_physical_cores=True), call(lctx.cpu_count)])
    os.environ.pop("LOKY_MAX_CPU_COUNT", None)
    return out

def job_cpu_mock(job):
    rows = []
    for (oc, aff, cg, lk, ph) in job["combos"]:
        with machine(oc, aff, cg, lk, ph):
            rows.append([call(lctx.cpu_count), call(lctx.cpu_count, only_physical_cores=True)])
    return rows

# ---------------------------------------------------------------- effective_n_jobs / _initialize_backend
class Rec:
    def __init__(self): self.size = None
REC = Rec()
class DummyPool:
    def __init__(self, n, *a, **k): REC.size = n
    def close(self): pass
    def terminate(self): pass
def dummy_executor(n, *a, **k):
    REC.size = n
    return DummyPool(n)
class NoGC:
    @staticmethod
    def collect(): return 0

def eval_row(row):
    cls = CLS[row["cls"]]; level = row["level"]; c = row["c"]
    ns = list(range(-2 * c, 2 * c + 1))
    eff, init = [], []
    for n in ns + [None]:
        b = cls(nesting_level=level)
        r = call(b.effective_n_jobs, n)
        eff.append(r if isinstance(r, str) else int(r))
    for n in ns:
        REC.size = None
        try:
            p = Parallel(n_jobs=n, backend=cls(nesting_level=level))
            k = p._initialize_backend()
            b = p._backend
            if isinstance(b, pb.ThreadingBackend):
                b._get_pool()
            init.append([LET[type(b).__name__], int(k), REC.size])
        except Exception as e:
            init.append("raises:" + type(e).__name__)
    return dict(eff=eff, init=init)

def eval_rows(rows):
    """rows share the daemon flag of THIS process; thread and loky depth are arranged here."""
    out = []
    patches = [mock.patch.object(pb, "ThreadPool", DummyPool, create=True), mock.patch.object(pb, "MemmappingPool", DummyPool, create=True),
               mock.patch.object(pb, "get_memmapping_executor", dummy_executor, create=True), mock.patch.object(pb, "gc", NoGC)]
    with contextlib.ExitStack() as st:
        for p in patches: st.enter_context(p)
        for row in rows:
            c = row["c"]
            old_depth = process_executor._CURRENT_DEPTH
            process_executor._CURRENT_DEPTH = row["depth"]
            try:
                if row["mode"] == "env":
                    cm = machine_env(c)
                else:
                    cm = machine(c, c, None, "unset", "real")
                with cm:
                    got_c = call(pb.cpu_count) if hasattr(pb, "cpu_count") else call(jp.cpu_count)
                    box = {}
                    if row["main"]:
                        box["r"] = eval_row(row)
                    else:
                        t = threading.Thread(target=lambda: box.__setitem__("r", eval_row(row)))
                        t.start(); t.join()
                    r = box["r"]
                r["cpus"] = got_c
                r["daemon"] = bool(mp.current_process().daemon)
                r["mp_none"] = pb.mp is None
                out.append(r)
            finally:
                process_executor._CURRENT_DEPTH = old_depth
    return out

@contextlib.contextmanager
def machine_env(c):
    old = os.environ.get("LOKY_MAX_CPU_COUNT")
    os.environ["LOKY_MAX_CPU_COUNT"] = str(c)
    try:
        yield
    finally:
        if old is None: os.environ.pop("LOKY_MAX_CPU_COUNT", None)
        else: os.environ["LOKY_MAX_CPU_COUNT"] = old

def _daemon_child(conn, rows):
    warnings.simplefilter("ignore")
    try:
        conn.send(eval_rows(rows))
    except BaseException as e:
        conn.send("crash:" + repr(e))
    conn.close()

def job_eff(job):
    rows = job["rows"]
    plain = [r for r in rows if not r["daemon"]]
    daem = [r for r in rows if r["daemon"]]
    res = {}
    for r, o in zip(plain, eval_rows(plain)): res[r["id"]] = o
    if daem:
        ctx = mp.get_context("fork")
        a, b = ctx.Pipe()
        pr = ctx.Process(target=_daemon_child, args=(b, daem), daemon=True)
        pr.start()
        got = a.recv()
        pr.join(30)
        if isinstance(got, str):
            raise RuntimeError(got)
        for r, o in zip(daem, got): res[r["id"]] = o
    return [res[r["id"]] for r in rows]

# ---------------------------------------------------------------- nesting
def job_nested(job):
    out = []
    for c in "STML":
        for l in range(0, 4):
            b = CLS[c](nesting_level=l)
            if c == "S":
                for ac in "TL":
                    for al in (0, 2):
                        with parallel_config(backend=CLS[ac](nesting_level=al)):
                            nb, nj = b.get_nested_backend()
                        out.append([c, l, ac, al, LET[type(nb).__name__], nb.nesting_level, repr(nj)])
            else:
                nb, nj = b.get_nested_backend()
                out.append([c, l, "L", 0, LET[type(nb).__name__], nb.nesting_level, repr(nj)])
    # what a worker sees: BatchedCalls installs parallel_config(backend=nested, n_jobs=None)
    seen = []
    for c in "TML":
        for l in range(0, 3):
            nb, nj = CLS[c](nesting_level=l).get_nested_backend()
            with parallel_config(backend=nb, n_jobs=nj):
                for kw in ({}, {"n_jobs": 4}, {"n_jobs": -1, "prefer": "processes"}, {"n_jobs": 2, "require": "sharedmem"}, {"prefer": "threads"}):
                    p = call(lambda: Parallel(**kw))
                    seen.append([c, l, kw, p if isinstance(p, str) else [LET[type(p._backend).__name__], p._backend.nesting_level, p.n_jobs]])
                # a configuration context that names NO backend (backend=None, the documented default of the parameter), entered
                # inside the worker: if the tree accepts it, the nesting rules still decide what a Parallel call there gets
                for ckw in ({"backend": None}, {"backend": None, "n_jobs": 2}):
                    try:
                        with parallel_config(**ckw):
                            p = Parallel(n_jobs=2)
                            seen.append([c, l, dict(context=repr(ckw)), [LET[type(p._backend).__name__], p._backend.nesting_level, p.n_jobs]])
                    except Exception:  # rejected: nothing is started, nothing to judge
                        pass
    return dict(nested=out, seen=seen)

def probe(depth, limit, n_jobs, explicit, sleep):
    """One task of a nest: records where it runs and what a default Parallel would use, then recurses."""
    t0 = time.monotonic()
    kw = {}
    if explicit and depth < len(explicit) and explicit[depth]:
        kw["backend"] = explicit[depth]
    p = Parallel(n_jobs=n_jobs, **kw)
    be = p._backend
    eff = call(be.effective_n_jobs, n_jobs)
    me = dict(depth=depth, pid=os.getpid(), tid=threading.get_ident(), cls=LET.get(type(be).__name__, "?"), level=be.nesting_level,
              eff=eff, daemon=bool(mp.current_process().daemon), main=isinstance(threading.current_thread(), threading._MainThread),
              ldepth=process_executor._CURRENT_DEPTH)
    rec = [me]
    if depth < limit:
        for sub in p(delayed(probe)(depth + 1, limit, n_jobs, explicit, sleep) for _ in range(2)):
            rec.extend(sub)
    if sleep:
        time.sleep(sleep)
    me["t0"] = t0; me["t1"] = time.monotonic()
    return rec

def job_nest(job):
    rec = probe(0, job["limit"], job["n_jobs"], job.get("explicit"), 0)
    return rec

def timed(i, dur):
    t0 = time.monotonic(); time.sleep(dur); t1 = time.monotonic()
    return [os.getpid(), threading.get_ident(), t0, t1]

def job_highwater(job):
    out = []
    for cfg in job["configs"]:
        p = Parallel(n_jobs=cfg["n_jobs"], backend=cfg["backend"], batch_size=cfg.get("batch_size", "auto"), pre_dispatch=cfg.get("pre_dispatch", "2 * n_jobs"))
        resolved = p._backend.effective_n_jobs(cfg["n_jobs"])
        durs = cfg["durations"]
        recs = p(delayed(timed)(i, d) for i, d in enumerate(durs))
        ev = sorted([(r[2], 1) for r in recs] + [(r[3], -1) for r in recs], key=lambda x: (x[0], x[1]))
        cur = hw = 0
        for _, d in ev:
            cur += d; hw = max(hw, cur)
        out.append(dict(cfg=cfg, resolved=int(resolved), highwater=hw, workers=len({(r[0], r[1]) for r in recs}), pids=len({r[0] for r in recs}), mainpid=os.getpid()))
    return out

def loky_state():
    from joblib.externals.loky import reusable_executor as rex
    ex = rex._executor
    if ex is None:
        return None
    return dict(id=ex.executor_id, max=ex._max_workers, alive=len(ex._processes), started=ex._executor_manager_thread is not None)

def measure(p, n_tasks, dur):
    """One real Parallel call: high-water mark of simultaneously running tasks, distinct workers."""
    resolved = call(p._backend.effective_n_jobs, p.n_jobs)
    before = loky_state()
    recs = p(delayed(timed)(i, dur * (1 + (i % 3) * 0.5)) for i in range(n_tasks))
    after = loky_state()
    ev = sorted([(r[2], 1) for r in recs] + [(r[3], -1) for r in recs], key=lambda x: (x[0], x[1]))
    cur = hw = 0
    for _, d in ev:
        cur += d; hw = max(hw, cur)
    return dict(cls=LET.get(type(p._backend).__name__, "?"), n_jobs=p.n_jobs, resolved=resolved, highwater=hw,
                workers=len({(r[0], r[1]) for r in recs}), pids=len({r[0] for r in recs}), before=before, after=after)

def job_sequence(job):
    """Consecutive Parallel calls with growing and shrinking n_jobs, in the forms users write them."""
    out = []
    for sc in job["scripts"]:
        b = sc["backend"]
        extra = {"inner_max_num_threads": 1} if sc.get("imnt") else {}
        calls = []
        outer = parallel_config(backend=b, **extra) if sc.get("outer") else contextlib.nullcontext()
        try:
            with outer:
                for st in sc["steps"]:
                    n, form = st["n_jobs"], st["form"]
                    bk = {} if sc.get("outer") else {"backend": b}
                    if form == "plain":
                        m = [measure(Parallel(n_jobs=n, **bk), job["ntasks"], job["dur"])]
                    elif form == "config":
                        with parallel_config(backend=b, n_jobs=n, **extra):
                            m = [measure(Parallel(), job["ntasks"], job["dur"])]
                    elif form == "managed":
                        with Parallel(n_jobs=n, **bk) as p:
                            m = [measure(p, job["ntasks"], job["dur"]), measure(p, job["ntasks"], job["dur"])]
                    else:
                        raise ValueError(form)
                    for x in m:
                        x["step"] = st
                    calls.extend(m)
            out.append(dict(script=sc, calls=calls))
        except Exception as e:
            out.append(dict(script=sc, calls=calls, error=type(e).__name__ + ": " + str(e)[:200]))
    return out

# ---------------------------------------------------------------- histories of calls on ONE ThreadingBackend instance
class Gauge:
    """One call measured with gates (events), never with sleeps whose outcome depends on the machine's load: a task holds
    its worker until all `r` workers of the call are busy (`full`), then gives a further task the chance to start (`over`):
    for as long as it takes when the pool the call runs on is known to have more threads than `r` (such a task WILL start),
    a short grace otherwise.  Load can only make the measurement miss an excess, never invent one."""
    def __init__(self, r, inst, grace):
        self.lock = threading.Lock(); self.active = 0; self.high = 0; self.tids = set(); self.sizes = set(); self.live = 0
        self.r = r; self.inst = inst; self.grace = grace
        self.full = threading.Event(); self.over = threading.Event(); self.done = threading.Event()
    def task(self, i):
        pool = getattr(self.inst, "_pool", None)
        size = getattr(pool, "_processes", None)
        live = len([t for t in (getattr(pool, "_pool", None) or []) if t.is_alive()])
        with self.lock:
            self.active += 1; self.high = max(self.high, self.active)
            self.tids.add((os.getpid(), threading.get_ident())); self.sizes.add(size); self.live = max(self.live, live)
            if self.active >= self.r: self.full.set()
            if self.active > self.r: self.over.set()
        if not self.done.is_set():
            if size is None or size >= self.r:
                self.full.wait(60)
            self.over.wait(30 if (size is not None and size > self.r) else self.grace)
            self.done.set()
        with self.lock:
            self.active -= 1
        return i

def pool_size(inst):
    return getattr(getattr(inst, "_pool", None), "_processes", None)

def history_slice(stmts, grace):
    """Runs in the context under test (a block of a configuration context at top level, or a task of an outer call):
    every Parallel below names no backend, i.e. goes through the context's backend INSTANCE."""
    inst0 = Parallel()._backend
    obs = []
    def one(p, n_req, foreign, after_foreign=False):
        inst = p._backend
        r = call(inst.effective_n_jobs, p.n_jobs)
        if not isinstance(r, int):
            obs.append(dict(n=r, n_jobs=n_req, foreign=foreign, after_foreign=after_foreign)); return
        g = Gauge(r, inst, grace); tasks = 2 * r + 1
        try:
            p(delayed(g.task)(i) for i in range(tasks))
            err = None
        except Exception as e:
            err = type(e).__name__ + ": " + str(e)[:120]
        obs.append(dict(n=int(r), n_jobs=n_req, foreign=foreign, after_foreign=after_foreign, tasks=tasks, high=g.high, workers=len(g.tids), live=g.live,
                        sizes=sorted("-" if x is None else x for x in g.sizes), after=pool_size(inst0), same=inst is inst0,
                        cls=LET.get(type(inst).__name__, "?"), level=inst.nesting_level, error=err))
    for st in stmts:
        if st["kind"] == "plain":
            one(Parallel(n_jobs=st["n"]), st["n"], False)
        else:
            with Parallel(n_jobs=st["n"]) as p:
                seen_foreign = False
                for it in st["items"]:
                    if "foreign" in it:
                        one(Parallel(n_jobs=it["foreign"]), it["foreign"], True)
                        seen_foreign = True
                    else:
                        one(p, st["n"], False, seen_foreign)
    return dict(pid=os.getpid(), inst=id(inst0), cls=LET.get(type(inst0).__name__, "?"), level=inst0.nesting_level, obs=obs,
                end=pool_size(inst0), main=isinstance(threading.current_thread(), threading._MainThread),
                daemon=bool(mp.current_process().daemon), ldepth=process_executor._CURRENT_DEPTH)

def job_history(job):
    out = []
    for run in job["runs"]:
        stmts, nb = run["stmts"], run["batch"]
        cut = [0, len(stmts)] if nb == 1 else [0, (len(stmts) + 1) // 2, len(stmts)]
        parts = [stmts[a:b] for a, b in zip(cut, cut[1:])]
        try:
            if run["where"] == "context":
                with parallel_config(backend="threading"):
                    slices = [history_slice(pt, job["grace"]) for pt in parts]
            else:
                # ONE batch for the parts: its tasks run one after the other in one worker, under one nested backend
                # instance.  Parallel cuts the LAST tasks of an input into smaller batches (load balancing), a full
                # round of batch_size * n_jobs tasks is cut as asked: pad with empty parts up to a full round.
                pad = [[]] * len(parts) if len(parts) > 1 else []
                slices = Parallel(n_jobs=2, backend=run["where"], batch_size=len(parts))(
                    delayed(history_slice)(pt, job["grace"]) for pt in parts + pad)[:len(parts)]
            out.append(dict(run=run, slices=slices, mainpid=os.getpid()))
        except Exception as e:
            out.append(dict(run=run, slices=[], mainpid=os.getpid(), error=type(e).__name__ + ": " + str(e)[:200]))
    return out

JOBS = dict(history=job_history, sequence=job_sequence, cpu_real=job_cpu_real, cpu_mock=job_cpu_mock, eff=job_eff, nested=job_nested, nest=job_nest, highwater=job_highwater)
if __name__ == "__main__":
    job = json.load(open(sys.argv[1]))
    res = JOBS[job["kind"]](job)
    sys.stdout.write("\n@@RESULT@@" + json.dumps(res) + "\n")
    sys.stdout.flush()
'''


# ----------------------------------------------------------------------------- worker plumbing


class Workers:
    def __init__(self, ctx):
        self.ctx = ctx
        self.script = ctx.scratch / "c15_worker.py"
        self.script.write_text(WORKER_SRC)
        self.n = 0

    def start(self, job, env=None):
        self.n += 1
        jf = self.ctx.scratch / f"job{self.n}.json"
        jf.write_text(json.dumps(job))
        e = dict(os.environ)
        e["PYTHONPATH"] = str(core.REPO)
        e.pop("LOKY_MAX_CPU_COUNT", None)
        e.pop("JOBLIB_MULTIPROCESSING", None)
        e["JOBLIB_TEMP_FOLDER"] = str(self.ctx.scratch)
        if env:
            e.update(env)
        return subprocess.Popen([core.PY, "-W", "ignore", str(self.script), str(jf)], stdout=subprocess.PIPE,
                                stderr=subprocess.PIPE, text=True, env=e, cwd=str(self.ctx.scratch))

    @staticmethod
    def finish(p, timeout=600):
        try:
            out, err = p.communicate(timeout=timeout)
        except subprocess.TimeoutExpired:
            p.kill()
            raise core.InfraError("C15 worker timed out")
        i = out.rfind("@@RESULT@@")
        if p.returncode != 0 or i < 0:
            raise core.InfraError(f"C15 worker failed (rc={p.returncode}): {err[-800:]}")
        return json.loads(out[i + len("@@RESULT@@"):])

    def run(self, job, env=None, timeout=600):
        return self.finish(self.start(job, env), timeout)


def opt(v):
    return "-" if v is None else str(v)


def canon(v):
    return v if not (isinstance(v, str) and v.startswith("raises:")) else "raises " + v[7:]


# ----------------------------------------------------------------------------- cpu_count


def cpu_request(os_count, aff, cgroup, loky, only_physical, physical):
    q, p = ("-", "-") if cgroup is None else (str(cgroup[0]), str(cgroup[1]))
    if loky is None or loky == "unset":
        lk = "-"
    else:
        try:
            lk = str(int(loky))
            if loky.strip() != lk:  # e.g. "+3", " 3", "1_0": Python's int() grammar is wider than the model's
                lk = None
        except ValueError:
            lk = "bad"
    if lk is None:
        return None
    return f"cpu {opt(os_count)} - {opt(aff)} {q} {p} {lk} {1 if only_physical else 0} {opt(physical)}"


def cpu_oracle(res, desc, os_count, aff, cgroup, loky, only_physical, got):
    """The statement itself, no model: >= 1, and not above any limit (each limit read as at least 1)."""
    if not isinstance(got, int):
        try:
            int(loky)
        except (TypeError, ValueError):
            return  # a LOKY_MAX_CPU_COUNT that is not a number is refused with ValueError: fine
        res.fail("cpu_count:raises-" + str(got), desc, got)
        return
    if got < 1:
        res.fail("cpu_count:below-one", desc, got)
    limits = {"os": os_count or 1}
    if aff is not None:
        limits["affinity"] = aff
    if cgroup is not None and cgroup[0] > 0 and cgroup[1] > 0:
        limits["cgroup"] = -(-cgroup[0] // cgroup[1])
    if loky not in (None, "unset"):
        limits["LOKY_MAX_CPU_COUNT"] = int(loky)
    for name, lim in limits.items():
        if got > max(lim, 1):
            res.fail("cpu_count:exceeds-limit:" + name, desc, dict(got=got, limit=lim))
    if not only_physical and got != max(min(limits.values()), 1):
        res.fail("cpu_count:not-the-tightest-limit", desc, dict(got=got, limits=limits))


def check_cpu(ctx, res, W):
    requests, expected, descs = [], [], []
    # (a) real machine, real affinity masks, public environment variable
    host = sorted(os.sched_getaffinity(0))
    masks = [None, host[:1], host[:2], host[:3], host[-5:], host[::2]]
    if ctx.thorough:
        masks += [host[:k] for k in range(4, len(host) + 1)]
    lvals = [None, "0", "-3", "1", "2", "5", str(len(host)), str(len(host) + 7), "abc", "", "3.5"]
    procs = [(m, W.start(dict(kind="cpu_real", mask=m, loky_values=lvals))) for m in masks if m is None or len(m) >= 1]
    for m, p in procs:
        r = W.finish(p)
        if isinstance(r["cgroup"], str):
            raise core.InfraError("cgroup files unreadable: " + r["cgroup"])
        phys = r["physical"] if isinstance(r["physical"], int) else None
        for v, c_pub, c_phys, c_loky in r["rows"]:
            for only, got in ((False, c_pub), (True, c_phys), (False, c_loky)):
                got = canon(got)
                desc = dict(stream="cpu-real", mask=m, os=r["os"], affinity=r["aff"], cgroup=r["cgroup"], loky=v, only_physical=only, physical=phys)
                res.evaluations += 1
                res.count("cpu-real")
                cpu_oracle(res, desc, r["os"], r["aff"], r["cgroup"], v, only, got)
                rq = cpu_request(r["os"], r["aff"], r["cgroup"], v, only, phys)
                if rq is None:
                    continue
                requests.append(rq)
                expected.append(f"ok {got}" if isinstance(got, int) else got)
                descs.append(desc)
                res.nontrivial.add(("cpu", r["os"], r["aff"], json.dumps(r["cgroup"]), v, only, phys))
    # (b) mocked machines
    combos = []
    for oc in [None, 0, 1, 2, 4, 16, 32, 61]:
        for aff in [None, 1, 3, 16, 40]:
            for cg in [None, ["v2", "max", 100000], ["v2", 250000, 100000], ["v2", 100000, 100000], ["v2", -1, 100000],
                       ["v1", 50000, 100000], ["v1", -1, 100000], ["v2", 1650001, 100000], ["v1", 300000, 0]]:
                for lk in ["unset", "0", "-3", "1", "5", "64", "abc"]:
                    for ph in [None, 0, 1, 8, 16]:
                        combos.append((oc, aff, cg, lk, ph))
    rows = W.run(dict(kind="cpu_mock", combos=combos))
    for (oc, aff, cg, lk, ph), (g0, g1) in zip(combos, rows):
        cgm = None if cg is None or cg[1] == "max" else [cg[1], cg[2]]
        for only, got in ((False, g0), (True, g1)):
            got = canon(got)
            desc = dict(stream="cpu-mock", os=oc, affinity=aff, cgroup=cg, loky=lk, only_physical=only, physical=ph)
            res.evaluations += 1
            res.count("cpu-mock")
            if not (only and ph is not None and ph > (oc or 1)):  # physical > logical is not a machine
                cpu_oracle(res, desc, oc, aff, cgm, lk, only, got)
            rq = cpu_request(oc, aff, cgm, lk, only, ph)
            requests.append(rq)
            expected.append(f"ok {got}" if isinstance(got, int) else got)
            descs.append(desc)
            res.nontrivial.add(("cpu", oc, aff, json.dumps(cg), lk, only, ph))
    replies = ctx.driver().run(requests)
    for d, e, g in zip(descs, expected, replies):
        res.traces_validated += 1
        if e != g.strip():
            res.diverge(d["stream"], d, e, g)


# ----------------------------------------------------------------------------- effective_n_jobs grid


def eff_rows(ctx, host_cpus):
    cs = list(range(1, 33))  # the whole grid in both tiers (about 10 s on 12 worker processes)
    rows = []
    for c in cs:
        modes = (["env"] if c <= host_cpus else []) + (["mock"] if (c > host_cpus or c % 4 == 1) else [])
        for mode in modes:
            for cls in "STML":
                for level in [0, 1, 2, 3, None]:
                    for main in (1, 0):
                        for daemon in (0, 1):
                            for depth in (0, 1):
                                rows.append(dict(cls=cls, level=level, main=main, daemon=daemon, depth=depth, c=c, mode=mode))
    for i, r in enumerate(rows):
        r["id"] = i
    return rows


def eff_oracle(res, row, c, ns, eff, init):
    """The statement, no model.  `guard`: the situations in which the code documents a forced single job."""
    desc = dict(stream="eff", row=row)
    process = row["cls"] in "ML"
    nested_thread = (not row["main"]) and row["level"] != 0
    for n, e in zip(ns + [None], eff):
        if isinstance(e, str):
            if n != 0:
                res.fail("effective_n_jobs:raises-for-nonzero", dict(desc, n_jobs=n), e)
            continue
        if e < 1:
            res.fail("effective_n_jobs:below-one", dict(desc, n_jobs=n), e)
        if n is not None and n > 0 and e > n:
            res.fail("effective_n_jobs:exceeds-positive-n_jobs", dict(desc, n_jobs=n), e)
        if n is not None and n < 0 and e > max(c + 1 + n, 1):
            res.fail("effective_n_jobs:exceeds-negative-formula", dict(desc, n_jobs=n), e)
        if process and (row["daemon"] or nested_thread) and e != 1:
            res.fail("nested:process-backend-gets-workers-below-a-worker", dict(desc, n_jobs=n), e)
        top = row["main"] and not row["daemon"] and row["depth"] == 0 and row["cls"] != "S" and not row.get("mp_none")
        if top and n is not None and n > 0 and e != n:
            res.fail("effective_n_jobs:positive-not-honoured-at-top-level", dict(desc, n_jobs=n), e)
        if top and n is not None and n < 0 and e != max(c + 1 + n, 1):
            res.fail("effective_n_jobs:negative-formula-at-top-level", dict(desc, n_jobs=n), e)
    for n, r in zip(ns, init):
        if n == 0:
            if r != "raises ValueError":
                res.fail("n_jobs:zero-accepted", dict(desc, n_jobs=n), r)
            continue
        if isinstance(r, str):
            res.fail("initialize:raises-for-nonzero", dict(desc, n_jobs=n), r)
            continue
        cl, k, pool = r
        if k < 1:
            res.fail("initialize:below-one", dict(desc, n_jobs=n), r)
        if n == 1 and (cl != "S" or pool is not None):
            res.fail("n_jobs:one-not-sequential", dict(desc, n_jobs=n), r)
        if (k == 1) != (cl == "S"):
            res.fail("initialize:one-job-off-the-calling-thread", dict(desc, n_jobs=n), r)
        if cl != "S" and pool != k:
            res.fail("pool:size-differs-from-n_jobs", dict(desc, n_jobs=n), r)
        if n > 0 and k > n:
            res.fail("initialize:exceeds-positive-n_jobs", dict(desc, n_jobs=n), r)
        if n < 0 and k > max(c + 1 + n, 1):
            res.fail("initialize:exceeds-negative-formula", dict(desc, n_jobs=n), r)
        if row["cls"] in "ST" and cl in "ML":
            res.fail("nested:thread-backend-started-processes", dict(desc, n_jobs=n), r)


def check_eff(ctx, res, W, host_cpus):
    rows = eff_rows(ctx, host_cpus)
    nshards = min(12, max(1, (os.cpu_count() or 2) - 2))
    shards = [rows[i::nshards] for i in range(nshards)]
    procs = [W.start(dict(kind="eff", rows=s)) for s in shards if s]
    # multiprocessing disabled: a smaller grid in a worker of its own
    rows_none = []
    for c in ([1, 4, 16] if not ctx.thorough else [1, 2, 4, 8, 16]):
        for cls in "STML":
            for level in [0, 1, None]:
                for main in (1, 0):
                    rows_none.append(dict(cls=cls, level=level, main=main, daemon=0, depth=0, c=c, mode="env", id=len(rows_none), mp_none=True))
    pnone = W.start(dict(kind="eff", rows=rows_none), env={"JOBLIB_MULTIPROCESSING": "0"})
    # other start methods of the multiprocessing pool (JOBLIB_START_METHOD): the resolution of n_jobs and the nesting guards
    # (daemon process, thread other than the main one) do not depend on how worker processes would be started
    rows_sm, psm = {}, {}
    for sm in ("spawn", "forkserver"):
        rows_sm[sm] = []
        for c in ([1, 4] if not ctx.thorough else [1, 2, 4, 16]):
            for cls in "TML":
                for level in [0, 1, 2]:
                    for main in (1, 0):
                        rows_sm[sm].append(dict(cls=cls, level=level, main=main, daemon=0, depth=0, c=c, mode="env",
                                                id=len(rows_sm[sm]), start_method=sm))
        psm[sm] = W.start(dict(kind="eff", rows=rows_sm[sm]), env={"JOBLIB_START_METHOD": sm})
    results = []
    for s, p in zip([s for s in shards if s], procs):
        results.extend(zip(s, W.finish(p, timeout=900)))
    results.extend(zip(rows_none, W.finish(pnone)))
    for sm in rows_sm:
        results.extend(zip(rows_sm[sm], W.finish(psm[sm])))
        res.count("eff:start-method=" + sm, len(rows_sm[sm]))
    requests, expected, descs = [], [], []
    for row, out in results:
        mpn = bool(row.get("mp_none"))
        if out["daemon"] != bool(row["daemon"]) or out["mp_none"] != mpn:
            raise core.InfraError(f"worker did not realise the row {row}: {out['daemon']}, {out['mp_none']}")
        want_c = 1 if mpn else row["c"]
        if out["cpus"] != want_c:
            raise core.InfraError(f"cpu count {out['cpus']} instead of {want_c} for {row}")
        c = row["c"]
        ns = list(range(-2 * c, 2 * c + 1))
        eff = [canon(e) for e in out["eff"]]
        init = [canon(r) for r in out["init"]]
        res.evaluations += len(eff) + len(init)
        res.count(f"eff:cls={row['cls']}")
        res.count(f"eff:mode={row['mode']}")
        res.count("eff:daemon" if row["daemon"] else "eff:non-daemon")
        res.count("eff:main-thread" if row["main"] else "eff:other-thread")
        if mpn:
            res.count("eff:mp-none")
        res.nontrivial.add(("eff", row["cls"], row["level"], row["main"], row["daemon"], row["depth"], c, mpn))
        eff_oracle(res, row, want_c, ns, eff, init)
        lvl = "N" if row["level"] is None else str(row["level"])
        args = f"{row['cls']} {lvl} {1 if mpn else 0} {row['daemon']} {row['main']} {row['depth']} {want_c} {-2 * c} {2 * c}"
        requests.append("eff " + args)
        expected.append("eff " + " ".join("E" if isinstance(e, str) else str(e) for e in eff))
        descs.append(dict(stream="effective_n_jobs", row=row))
        # Parallel.__init__ gives a backend instance without nesting_level the active backend's level (0 here)
        lvl_init = "0" if row["level"] is None else lvl
        args = f"{row['cls']} {lvl_init} {1 if mpn else 0} {row['daemon']} {row['main']} {row['depth']} {want_c} {-2 * c} {2 * c}"
        requests.append("init " + args)
        exp = ["E" if isinstance(r, str) else f"{r[0]}:{r[1]}:{'-' if r[2] is None else r[2]}" for r in init]
        # the model's init row also carries n_jobs=None, which Parallel never passes on (it becomes default_n_jobs): drop it
        expected.append("init " + " ".join(exp))
        descs.append(dict(stream="initialize_backend", row=row))
    if len(res.samples) < 6:
        res.sample(dict(request=requests[0], reply=expected[0]))
    replies = ctx.driver().run(requests)
    for d, e, g in zip(descs, expected, replies):
        res.traces_validated += 1
        g = g.strip()
        if d["stream"] == "initialize_backend":
            g = " ".join(g.split()[:-1])
        if e != g:
            res.diverge(d["stream"], d, e, g)


# ----------------------------------------------------------------------------- nesting


def check_nested(ctx, res, W):
    r = W.run(dict(kind="nested"))
    requests, expected, descs = [], [], []
    for c, l, ac, al, nc, nl, nj in r["nested"]:
        res.evaluations += 1
        res.count("nested:" + c)
        desc = dict(stream="get_nested_backend", cls=c, level=l, active=[ac, al])
        if c != "S":
            want = ("T", 1) if l == 0 else ("S", l + 1)
            if (nc, nl) != want:
                res.fail("nested:default-backend-below-level-%d-is-%s" % (l, nc), desc, [nc, nl])
            if nj != "None":
                res.fail("nested:n_jobs-imposed", desc, nj)
        requests.append(f"nested {c} {l} {ac} {al}")
        expected.append(f"{nc} {nl}")
        descs.append(desc)
        res.nontrivial.add(("nested", c, l, ac, al))
    for c, l, kw, seen in r["seen"]:
        res.evaluations += 1
        desc = dict(stream="worker-context", top=c, level=l, parallel_kwargs=kw)
        want = ("T", 1) if l == 0 else ("S", l + 1)
        if isinstance(seen, str):
            res.fail("nested:construction-in-worker-" + seen, desc, seen)
        elif (seen[0], seen[1]) != want:
            res.fail("nested:worker-default-is-" + seen[0], desc, seen)
    for top in "TML":
        requests.append(f"chain {top} 0 3")
        expected.append(f"{top}:0 T:1 S:2 S:2")
        descs.append(dict(stream="chain", top=top))
    # a real nest under threads (cheap): depth 3, two tasks per level
    rec = W.run(dict(kind="nest", limit=3, n_jobs=2, explicit=["threading"]))
    judge_nest(res, "T", rec, requests, expected, descs)
    replies = ctx.driver().run(requests)
    for d, e, g in zip(descs, expected, replies):
        res.traces_validated += 1
        if e != g.strip():
            res.diverge(d["stream"], d, e, g)


def judge_nest(res, top, rec, requests, expected, descs):
    by_depth = {}
    for m in rec:
        by_depth.setdefault(m["depth"], []).append(m)
    desc = dict(stream="real-nest", top=top, shape="depth 3, 2 tasks per level, n_jobs=2")
    res.evaluations += len(rec)
    res.count("real-nest:" + top)
    pids1 = {m["pid"] for m in by_depth.get(1, [])}
    for d in (2, 3):
        extra = {m["pid"] for m in by_depth.get(d, [])} - pids1
        if extra:
            res.fail("nested:new-worker-processes-at-depth-%d" % d, desc, sorted(extra))
    for d, ms in by_depth.items():
        for m in ms:
            if d == 1 and m["cls"] != "T":
                res.fail("nested:depth-1-default-is-" + m["cls"], desc, m)
            if d >= 2 and m["cls"] != "S":
                res.fail("nested:depth-%d-default-is-%s" % (d, m["cls"]), desc, m)
    seen = " ".join(f"{ms[0]['cls']}:{ms[0]['level']}" for d, ms in sorted(by_depth.items()))
    requests.append(f"chain {top} 0 3")
    expected.append(seen)
    descs.append(dict(desc, observed=seen))
    # the worker environment at depth 1 (model: workerEnv)
    if 1 in by_depth and 0 in by_depth:
        m0, m1 = by_depth[0][0], by_depth[1][0]
        requests.append(f"wenv {top} 0 {int(m0['daemon'])} {int(m0['main'])} {m0['ldepth']}")
        expected.append(f"{int(m1['daemon'])} {int(m1['main'])} {m1['ldepth']}")
        descs.append(dict(desc, stream="worker-env"))


NUM_THREADS_VARS = ["OMP_NUM_THREADS", "OPENBLAS_NUM_THREADS", "MKL_NUM_THREADS", "BLIS_NUM_THREADS",
                    "VECLIB_MAXIMUM_THREADS", "NUMBA_NUM_THREADS", "NUMEXPR_NUM_THREADS"]
SEQUENCES = [[4, 2], [2, 4, 1], [-1, 2], [3, 2, 3], [2, 3], [4, 3, 2]]
SEQ_CPUS = 6  # LOKY_MAX_CPU_COUNT of the measuring subprocesses: n_jobs=-1 means 6 there


def sequence_scripts(ctx, backend, imnt, outer_choices, nseq):
    rng = ctx.rng(f"seq/{backend}/{imnt}")
    scripts = []
    seqs = SEQUENCES[:nseq]
    if nseq > 3:  # one seed-dependent sequence on top of the fixed ones
        seqs = seqs + [[rng.choice([2, 3, 4, 5, -1, -2]) for _ in range(rng.choice([2, 3]))]]
    forms = ["plain", "config", "managed"]
    for i, seq in enumerate(seqs):
        outer = outer_choices[i % len(outer_choices)]
        steps = []
        for j, n in enumerate(seq):
            form = forms[(i + j) % 3] if i < 3 else rng.choice(forms)
            if outer and form == "config":
                form = "plain"
            steps.append(dict(n_jobs=n, form=form))
        scripts.append(dict(backend=backend, imnt=imnt, outer=outer, steps=steps))
    return scripts


def judge_sequences(res, out, requests, expected, descs):
    reused = 0
    for o in out:
        sc = o["script"]
        if "error" in o:
            res.fail("measured:sequence-raises", dict(stream="sequence", script=sc), o["error"])
        for k, m in enumerate(o["calls"]):
            res.evaluations += 1
            res.count("sequence:" + sc["backend"] + ":" + m["step"]["form"])
            desc = dict(stream="sequence", script=sc, call_index=k, measured={x: m[x] for x in ("cls", "n_jobs", "resolved", "highwater", "workers", "pids", "before", "after")},
                        env=dict(LOKY_MAX_CPU_COUNT=SEQ_CPUS, exported_num_threads=not sc.get("imnt") and sc["backend"] == "loky"))
            res.nontrivial.add(("sequence", json.dumps(sc, sort_keys=True), k))
            r = m["resolved"]
            if not isinstance(r, int):
                res.fail("measured:effective_n_jobs-raises", desc, r)
                continue
            if m["highwater"] > r:
                res.fail("measured:more-tasks-at-once-than-n_jobs", desc, dict(highwater=m["highwater"], n_jobs=r))
            if m["workers"] > r:
                res.fail("measured:more-workers-than-n_jobs", desc, dict(workers=m["workers"], n_jobs=r))
            if m["cls"] == "L" and r > 1 and m["after"] is not None:
                if m["after"]["alive"] > r:
                    res.fail("measured:executor-keeps-more-workers-than-n_jobs", desc, dict(alive=m["after"]["alive"], n_jobs=r))
                b = m["before"]
                # inside `with Parallel(...)` the executor was resized by __enter__, i.e. before `before` was read
                same = b is not None and b["id"] == m["after"]["id"]
                if same:
                    reused += 1
                    res.count("sequence:loky-executor-reused")
                    if b["max"] > r:
                        res.count("sequence:loky-executor-shrunk")
                    requests.append(f"resize {b['max']} {b['alive']} {int(b['started'])} 1 {r}")
                else:
                    requests.append(f"resize - 0 0 0 {r}")
                expected.append(f"{m['after']['alive']} {m['after']['max']}")
                descs.append(dict(desc, stream="reusable-executor"))
    return reused


def check_sequences(ctx, res, W, replay_script=None):
    """MEASURED runs on the real backends (quick tier too): consecutive calls with growing / shrinking n_jobs."""
    nseq = 6 if ctx.thorough else 4
    dur, ntasks = (0.05, 16) if ctx.thorough else (0.04, 12)
    base = {"LOKY_MAX_CPU_COUNT": str(SEQ_CPUS)}
    exported = dict(base, **{v: "1" for v in NUM_THREADS_VARS})
    if replay_script is not None:
        sc = replay_script
        env = exported if (sc["backend"] == "loky" and not sc.get("imnt")) else base
        jobs = [(dict(kind="sequence", scripts=[sc], dur=dur, ntasks=ntasks), env)]
    else:
        jobs = [
            # loky reuses its executor only when the worker environment is unchanged: exported *_NUM_THREADS …
            (dict(kind="sequence", scripts=sequence_scripts(ctx, "loky", False, [False, False, True], nseq), dur=dur, ntasks=ntasks), exported),
            # … or inner_max_num_threads given
            (dict(kind="sequence", scripts=sequence_scripts(ctx, "loky", True, [True, False], min(nseq, 3)), dur=dur, ntasks=ntasks), base),
            (dict(kind="sequence", scripts=sequence_scripts(ctx, "threading", False, [False, True], nseq), dur=dur, ntasks=ntasks), base),
            (dict(kind="sequence", scripts=sequence_scripts(ctx, "multiprocessing", False, [False, True], nseq), dur=dur, ntasks=ntasks), base),
        ]
    procs = [W.start(j, env=e) for j, e in jobs]
    return lambda: finish_sequences(ctx, res, W, procs, replay_script)


def finish_sequences(ctx, res, W, procs, replay_script):
    requests, expected, descs = [], [], []
    reused = 0
    for p in procs:
        reused += judge_sequences(res, W.finish(p, timeout=300), requests, expected, descs)
    if replay_script is None and (reused == 0 or not res.dist.get("sequence:loky-executor-shrunk")):
        raise core.InfraError("the loky sequences never reused and shrank the executor: the reuse conditions are not met on this host")
    replies = ctx.driver().run(requests)
    for d, e, g in zip(descs, expected, replies):
        res.traces_validated += 1
        if e != g.strip():
            res.diverge(d["stream"], d, e, g)


# ----------------------------------------------------------------------------- histories on one ThreadingBackend instance

F55_SIG = "measured:more-tasks-at-once-than-n_jobs:foreign-call-inside-managed-block-sharing-the-context-backend"
HIST_WHERE = ["context", "threading", "loky", "multiprocessing"]
HIST_GRACE = 0.15
# corpus: shrinking, growing, through n_jobs=1 (sequential fallback), managed blocks, n_jobs=-1 (= SEQ_CPUS), and the
# interleaved shape of F55 (another Parallel call inside an open `with Parallel` block of the same instance)
HIST_CORPUS = [
    [dict(kind="plain", n=4), dict(kind="plain", n=2)],
    [dict(kind="plain", n=2), dict(kind="plain", n=4), dict(kind="plain", n=1), dict(kind="plain", n=3)],
    [dict(kind="managed", n=3, items=[{"own": 1}, {"own": 1}]), dict(kind="plain", n=2), dict(kind="plain", n=-1), dict(kind="plain", n=2)],
    [dict(kind="managed", n=4, items=[{"own": 1}, {"foreign": 2}, {"own": 1}]), dict(kind="plain", n=3)],
]


def history_runs(ctx):
    runs = []
    nrand = 4 if ctx.thorough else 1
    for w, where in enumerate(HIST_WHERE):
        rng = ctx.rng("history/" + where)
        hs = [list(h) for h in HIST_CORPUS]
        for _ in range(nrand):
            h = []
            for _ in range(rng.choice([2, 3, 4])):
                n = rng.choice([1, 2, 2, 3, 3, 4, 5, -1, -2, -4])
                if rng.random() < 0.3:
                    items = [{"own": 1} for _ in range(rng.choice([1, 2]))]
                    if rng.random() < 0.25:
                        items.insert(rng.randrange(len(items) + 1), {"foreign": rng.choice([2, 3, 5])})
                    h.append(dict(kind="managed", n=n, items=items))
                else:
                    h.append(dict(kind="plain", n=n))
            hs.append(h)
        for i, h in enumerate(hs):
            runs.append(dict(where=where, batch=1 + (i + w) % 2, stmts=h))
    return runs


def history_request(stmts, obs):
    """The `tpool` request for the history, with the RESOLVED n_jobs and task counts the implementation reported."""
    it = iter(obs)
    toks = []
    for st in stmts:
        if st["kind"] == "plain":
            o = next(it)
            toks.append(f"P{o['n']}:{o['tasks']}")
        else:
            items, n = [], None
            for x in st["items"]:
                o = next(it)
                if "foreign" in x:
                    items.append(f"f{o['n']}x{o['tasks']}")
                else:
                    items.append(f"o{o['tasks']}")
                    n = o["n"]
            if n is None:
                return None
            toks.append(f"M{n}:" + ",".join(items))
    return "tpool " + " ".join(toks)


def judge_histories(res, out, requests, expected, descs):
    for o in out:
        run = o["run"]
        base = dict(stream="nested-history", where=run["where"], batch=run["batch"], stmts=run["stmts"],
                    env=dict(LOKY_MAX_CPU_COUNT=SEQ_CPUS))
        if "error" in o:
            res.fail("measured:history-raises", base, o["error"])
            continue
        obs = [x for sl in o["slices"] for x in sl["obs"]]
        nested = run["where"] != "context"
        for sl in o["slices"]:
            want = ("T", 1) if nested else ("T", 0)
            if (sl["cls"], sl["level"]) != want:
                res.fail("nested:worker-default-is-" + sl["cls"], dict(base, observed=[sl["cls"], sl["level"]]), sl["cls"])
            if run["where"] in ("loky", "multiprocessing") and sl["pid"] == o["mainpid"]:
                raise core.InfraError("the outer %s call ran its task in the calling process" % run["where"])
        res.nontrivial.add(("history", run["where"], run["batch"], json.dumps(run["stmts"], sort_keys=True)))
        ok_model = len({(sl["pid"], sl["inst"]) for sl in o["slices"]}) == 1
        for k, m in enumerate(obs):
            res.evaluations += 1
            res.count("history:" + run["where"] + (":foreign" if m["foreign"] else ":after-foreign" if m.get("after_foreign") else ""))
            desc = dict(base, call_index=k, measured=m)
            r = m["n"]
            if not isinstance(r, int):
                res.fail("measured:effective_n_jobs-raises", desc, r)
                ok_model = False
                continue
            if m.get("error"):
                res.fail("measured:history-call-raises", desc, m["error"])
                ok_model = False
            if m["n_jobs"] > 0 and r > m["n_jobs"]:
                res.fail("effective_n_jobs:exceeds-positive-n_jobs", desc, r)
            over = []
            if m["high"] > r:
                over.append("more-tasks-at-once-than-n_jobs")
            if m["workers"] > r:
                over.append("more-workers-than-n_jobs")
            if over:
                # F55 (known finding) is exactly: an open `with Parallel` block of the shared instance with a foreign call in
                # it (the model's `TCall.clean` fails) - the foreign call runs on the block's pool, and the block's own later
                # calls run on a pool rebuilt with the FOREIGN call's n_jobs; nothing outlives the block (its exit terminates)
                sig = F55_SIG if (m["foreign"] or m.get("after_foreign")) else "measured:" + over[0]
                res.fail(sig, desc, dict(n_jobs=r, highwater=m["high"], distinct_worker_threads=m["workers"], pool_sizes_seen=m["sizes"], evidence=over))
            if r > 1 and m["high"] < min(r, 2):
                res.count("history:call-never-ran-two-tasks-at-once")
            if not m["same"]:
                ok_model = False
        if not ok_model:
            res.count("history:not-one-instance(model comparison skipped)")
            continue
        rq = history_request(run["stmts"], obs)
        if rq is None:
            continue
        requests.append(rq)
        exp = " ".join("%d/%s/%s" % (m["n"], ",".join(str(x) for x in m["sizes"]) if m["sizes"] != ["-"] else ".", opt(m["after"])) for m in obs)
        expected.append(exp + " end:" + opt(o["slices"][-1]["end"]))
        descs.append(dict(base, stream="thread-pool-history", request=rq))


def canon_tpool(reply):
    """The model lists the pool size every task saw, the implementation side reports the SET of sizes per call."""
    toks = []
    for t in reply.strip().split():
        parts = t.split("/")
        if len(parts) == 3 and parts[1] != ".":
            parts[1] = ",".join(str(x) for x in sorted({int(x) for x in parts[1].split(",")}))
        toks.append("/".join(parts))
    return " ".join(toks)


def check_histories(ctx, res, W, replay_run=None):
    """MEASURED, both tiers: histories of calls (plain, `with Parallel`, through n_jobs=1, growing / shrinking) on the ONE
    ThreadingBackend instance of a context, at top level and at nesting level 1 inside thread / loky / multiprocessing workers."""
    runs = [replay_run] if replay_run is not None else history_runs(ctx)
    env = {"LOKY_MAX_CPU_COUNT": str(SEQ_CPUS)}
    procs = []
    for where in HIST_WHERE:
        mine = [r for r in runs if r["where"] == where]
        if mine:
            procs.append(W.start(dict(kind="history", runs=mine, grace=HIST_GRACE), env=env))

    def finish():
        requests, expected, descs = [], [], []
        for p in procs:
            judge_histories(res, W.finish(p, timeout=600), requests, expected, descs)
        replies = ctx.driver().run(requests) if requests else []
        for d, e, g in zip(descs, expected, replies):
            res.traces_validated += 1
            if e != canon_tpool(g):
                res.diverge(d["stream"], d, e, canon_tpool(g))
    return finish


def supporting(ctx, res, W):
    """Measured, not proved (thorough tier)."""
    notes = []
    requests, expected, descs = [], [], []
    for top, name in (("L", "loky"), ("M", "multiprocessing"), ("T", "threading")):
        rec = W.run(dict(kind="nest", limit=3, n_jobs=2, explicit=[name]), timeout=300)
        judge_nest(res, top, rec, requests, expected, descs)
        notes.append(dict(supporting="nest", top=name, pids_per_depth={d: len({m["pid"] for m in rec if m["depth"] == d}) for d in range(4)},
                          threads_per_depth={d: len({(m["pid"], m["tid"]) for m in rec if m["depth"] == d}) for d in range(4)}))
    # explicit backend combinations two levels deep: what the inner call resolves to, against the model under workerEnv
    for top, tname in (("T", "threading"), ("M", "multiprocessing"), ("L", "loky")):
        for inner, iname in (("L", "loky"), ("M", "multiprocessing"), ("T", "threading")):
            rec = W.run(dict(kind="nest", limit=1, n_jobs=2, explicit=[tname, iname]), timeout=300)
            m0 = [m for m in rec if m["depth"] == 0][0]
            for m in [m for m in rec if m["depth"] == 1]:
                res.evaluations += 1
                desc = dict(stream="explicit-nest", top=tname, inner=iname, observed=m)
                requests.append(f"eff {inner} {m['level']} 0 {int(m['daemon'])} {int(m['main'])} {m['ldepth']} 16 2 2")
                expected.append(f"eff {canon(m['eff'])} 1")
                descs.append(desc)
                if inner in "ML" and top in "TM" and m["eff"] != 1:
                    res.fail("nested:process-backend-gets-workers-below-a-worker", desc, m["eff"])
            notes.append(dict(supporting="explicit-nest", top=tname, inner=iname, inner_effective=[m["eff"] for m in rec if m["depth"] == 1],
                              top_pid_is_worker_pid=m0["pid"] in {m["pid"] for m in rec if m["depth"] == 1}))
    cfgs = []
    for backend in ("threading", "loky"):
        for n in (2, 3, -15):
            for pat in ("equal", "ramp", "one-long"):
                d = {"equal": [0.03] * 18, "ramp": [0.005 * (i % 6 + 1) for i in range(18)], "one-long": [0.15] + [0.01] * 17}[pat]
                cfgs.append(dict(backend=backend, n_jobs=n, durations=d, pattern=pat))
        cfgs.append(dict(backend=backend, n_jobs=2, durations=[0.01] * 24, pattern="batch3", batch_size=3))
        cfgs.append(dict(backend=backend, n_jobs=3, durations=[0.02] * 12, pattern="all", pre_dispatch="all"))
    out = W.run(dict(kind="highwater", configs=cfgs), timeout=600)
    for o in out:
        res.evaluations += 1
        res.count("highwater:" + o["cfg"]["backend"])
        desc = dict(stream="high-water", cfg={k: v for k, v in o["cfg"].items() if k != "durations"}, measured=dict(resolved=o["resolved"], highwater=o["highwater"], workers=o["workers"]))
        if o["highwater"] > o["resolved"]:
            res.fail("measured:more-tasks-at-once-than-n_jobs", desc, o)
        notes.append(dict(supporting="high-water", **desc))
    replies = ctx.driver().run(requests)
    for d, e, g in zip(descs, expected, replies):
        res.traces_validated += 1
        if e != g.strip():
            res.diverge(d["stream"], d, e, g)
    res.extra["supporting_measured_runs"] = notes


# ----------------------------------------------------------------------------- entry points


def _per_signature_cap(res, cap=5):
    """core.Result keeps the first 200 failures: keep at most `cap` per signature so that a flood from the exhaustive
    grid cannot crowd out the (later) measured runs. Every failure is still counted."""
    orig, seen = res.fail, {}

    def fail(signature, case, detail):
        seen[signature] = seen.get(signature, 0) + 1
        if seen[signature] <= cap:
            orig(signature, case, detail)
        else:
            res.count("oracle_failures")

    res.fail = fail


def run(ctx):
    core.use_repo()
    res = Result()
    _per_signature_cap(res)
    res.rule = ("one evaluation = one (situation, n_jobs) pair answered by the real effective_n_jobs / _initialize_backend, or one "
                "cpu_count() call; non-trivial and distinct = distinct situation rows (class, nesting level, thread, daemon, loky depth, "
                "cpu count, mp available) resp. distinct machine shapes (os count, affinity, cgroup, LOKY_MAX_CPU_COUNT, physical)")
    res.assumptions = ["pool constructors replaced by recorders in the exhaustive grid", "quota/period < 2^53",
                       "physical cores <= logical cores (only_physical_cores bound)"]
    W = Workers(ctx)
    host_cpus = len(os.sched_getaffinity(0))
    if ctx.replay:
        case = ctx.replay.get("case", {})
        if case.get("stream") in ("sequence", "reusable-executor") and "script" in case:
            check_sequences(ctx, res, W, replay_script=case["script"])()
            return res
        if case.get("stream") in ("nested-history", "thread-pool-history") and "stmts" in case:
            check_histories(ctx, res, W, replay_run=dict(where=case["where"], batch=case["batch"], stmts=case["stmts"]))()
            return res
        row = case.get("row")
        if row is None:
            raise core.InfraError("replay of this stream is not supported: rerun the check with the same VERIF_SEED")
        row = dict(row, id=0)
        out = W.run(dict(kind="eff", rows=[row]), env={"JOBLIB_MULTIPROCESSING": "0"} if row.get("mp_none") else None)[0]
        c = row["c"]
        eff_oracle(res, row, 1 if row.get("mp_none") else c, list(range(-2 * c, 2 * c + 1)), [canon(e) for e in out["eff"]], [canon(r) for r in out["init"]])
        res.evaluations += 1
        return res
    finish_seq = check_sequences(ctx, res, W)  # started first: runs alongside the exhaustive grid
    finish_hist = check_histories(ctx, res, W)
    check_cpu(ctx, res, W)
    check_eff(ctx, res, W, host_cpus)
    check_nested(ctx, res, W)
    finish_seq()
    finish_hist()
    if ctx.thorough:
        supporting(ctx, res, W)
    else:
        res.notes.append("supporting measured runs (high-water marks, pids of real nests) are part of the thorough tier only")
    return res


def search(ctx, res):
    """Same oracle on the full grid (every c in 1..32, every mocked machine) plus the measured runs."""
    big = core.Ctx(prop=ctx.prop, tier="thorough", seed=ctx.seed, scratch=ctx.scratch)
    return run(big)
