"""C14 — truncated or over-long files make load fail cleanly: never hang or lie.

Model: lean/JoblibModel/ZlibFile.lean (raw 8192-byte blocks + zlib.decompressobj with eof/unused_data,
`_fill_buffer`, `load` as BufferedReader(1 MiB) + unpickler contract, `_cached_call`'s try/except);
theorems: lean/JoblibProofs/C14.lean; driver: lean/Driver/C14.lean.

Implementation side: every damaged file is loaded by the REAL joblib (from VERIF_REPO) inside worker
SUBPROCESSES — never in this process — through four routes:
  path    : joblib.load(<file name>)
  fileobj : joblib.load(io.BytesIO(bytes))
  memory  : a Memory cache entry whose output.pkl is replaced by the damaged bytes, then the cached call
  zread   : BinaryZlibFile/BinaryGzipFile(io.BytesIO(bytes)).read()   (zlib/gzip files only)
Each worker runs under an address-space cap (RLIMIT_AS) and the parent keeps a per-case watchdog far above the
normal latency (a load takes ~1 ms; watchdog 20 s quick / 60 s thorough).  Outcome classes:
  raises | returns-original | returns-other | hang
`hang` = the watchdog expired (worker killed) OR the case exhausted the memory cap / grew the process by more
than BLOWUP_KB (on the pinned tree the trailing-bytes loop doubles `unused_data` each iteration: it does not
spin at constant memory, it eats all memory; under the cap it surfaces as MemoryError after < 1 s, and inside
Memory that MemoryError is even swallowed by `except Exception`).  Both are "does not terminate within
resources far above normal" and are classified `hang`, with the detail saying which.
"""

import gzip
import json
import os
import queue
import random
import select
import subprocess
import threading
import time
import zlib
from pathlib import Path

from .. import core
from ..core import Result

REQUIRED_THEOREMS = [
    "C14.fill_terminates",
    "C14.wf_reachable",
    "C14.damaged_file_is_a_stream",
    "C14.truncation_never_lies",
    "C14.trailing_bytes_ignored",
    "C14.load_error_or_original",
    "C14.load_class",
    "C14.read_bytes_terminates_exact",
    "C14.damaged_entry_recomputes",
    "C14.old_fill_diverges",
    "C14.old_read_diverges",
]
TRUSTED_EXTRA = [
    "modelled, not verified: CPython's zlib (hypothesis ValidFile/StreamLaw of the theorems; in the correspondence the model "
    "is fed the cumulative output lengths and the end-of-stream offset observed from zlib.decompressobj on the damaged file; "
    "the post-eof behaviour — decompress(x) returns b'' and appends x to unused_data — is modelled in Lean and was probed)",
    "modelled, not verified: pickle.Unpickler (hypothesis UnpicklerContract: stops at STOP, raises on a strict prefix); "
    "io.BufferedReader(BinaryZlibFile, 1 MiB) modelled as readinto(1 MiB) until the unpickler has its bytes",
    "bz2/lzma/xz are CPython's own file objects: the model predicts only the contract {raises, returns-original} for them; "
    "termination there is established by the watchdog runs only",
    "hang is observed as watchdog expiry or exhaustion of a 192 MiB address-space cap in a subprocess (normal peak < 60 MiB)",
]

COMPRESSORS = ["zlib", "gzip", "bz2", "lzma", "xz", "none"]
CAP_MB = 192
BLOWUP_KB = 60_000
F7_SIGNATURE = "hang:zlib-family:trailing-bytes"

# ----------------------------------------------------------------------------- worker (runs in a subprocess)

WORKER_SRC = r'''
import sys, os, io, json, resource, gc, warnings, logging, zlib
repo, scratch, cap_mb, blowup_kb = sys.argv[1], sys.argv[2], int(sys.argv[3]), int(sys.argv[4])
sys.path.insert(0, repo)
sys.dont_write_bytecode = True
warnings.simplefilter("ignore")
logging.disable(logging.CRITICAL)
import joblib
from joblib.compressor import BinaryZlibFile, BinaryGzipFile
assert os.path.realpath(os.path.dirname(os.path.dirname(joblib.__file__))) == os.path.realpath(repo), joblib.__file__

def make_obj(spec):
    kind = spec[0]
    if kind == "dict":
        return {"a": [1, 2, 3], "b": "x" * 50, "c": list(range(40)), "d": (None, True, b"\x00\xff")}
    if kind == "int":
        return 7
    if kind == "rand":          # incompressible bytes
        import random
        return {"blob": random.Random(spec[2]).randbytes(spec[1]), "n": spec[1]}
    if kind == "rep":           # highly compressible
        return ["line %d\n" % (i % 7) for i in range(spec[1])]
    if kind == "str":
        return "ab" * spec[1]
    if kind == "utf8":          # large non-ASCII str: >= 64 KiB once encoded, so pickle writes it outside its frames
        import random
        if spec[1] == "mixed":
            r = random.Random(spec[3])
            text = "".join(r.choice("ab \u00e9\u00fc\u20ac\u6f22\U0001d11e") for _ in range(spec[2]))
        else:
            text = spec[1] * spec[2]
        return {"id": 14, "text": text, "tail": [1, 2, 3]}
    if kind == "np":            # needs numpy: only in the python3-vt workers
        import numpy as np
        a = (np.arange(spec[2], dtype=spec[1]) * 3 + spec[3]).reshape(-1, 1 if spec[2] % 2 else 2) if spec[2] else np.zeros(0, dtype=spec[1])
        return {"arr": a, "tail": ["after", "the", "array"], "second": a[:2].copy()}
    raise ValueError(spec)

def same(a, b):
    if type(a) is not type(b):
        return False
    if isinstance(a, dict):
        return list(a) == list(b) and all(same(a[k], b[k]) for k in a)
    if isinstance(a, (list, tuple)):
        return len(a) == len(b) and all(same(x, y) for x, y in zip(a, b))
    if type(a).__module__ == "numpy":
        return a.dtype == b.dtype and a.shape == b.shape and a.tobytes() == b.tobytes()
    return a == b

if any(a.startswith("np") for a in sys.argv[5:6]):
    import numpy  # noqa: load it before the cap is computed
_vm = int(open("/proc/self/status").read().split("VmSize:")[1].split()[0]) >> 10
resource.setrlimit(resource.RLIMIT_AS, ((_vm + cap_mb) << 20, (_vm + cap_mb) << 20))

EXEC = []
def producer(spec, tag=None):
    EXEC.append(1)
    return make_obj(spec)

# a second argument of the cached call (ignored by the function, part of the cache key and of every message about the call):
# values whose repr holds braces / format fields
TAGS = [None, {"alpha": 1}, "{0} {x} {}", {"{k}", 2}, [{"a": {"b": "}{"}}]]

MEMS = {}
def mem_entry(spec, comp, level, tag=0):
    key = json.dumps([spec, comp, level, tag])
    if key not in MEMS:
        d = os.path.join(scratch, "mem%d" % len(MEMS))
        mem = joblib.Memory(d, verbose=0, compress=((comp, level) if comp != "none" else False))
        f = mem.cache(producer)
        call = (lambda: f(tuple(spec))) if not tag else (lambda: f(tuple(spec), TAGS[tag]))
        call()
        items = mem.store_backend.get_items()
        assert len(items) == 1, items
        out = os.path.join(items[0].path, "output.pkl")
        md = os.path.join(items[0].path, "metadata.json")
        MEMS[key] = (call, out, open(out, "rb").read(), md, open(md, "rb").read())
    return MEMS[key]

def damaged(item):
    data = open(item["valid"], "rb").read()
    dmg = item["damage"]
    if dmg[0] == "cut":
        return data[:dmg[1]]
    return data + bytes.fromhex(dmg[2])

def run(item):
    if item.get("cmd") == "build":
        comp, level = item["comp"], item["level"]
        joblib.dump(make_obj(item["spec"]), item["path"], compress=((comp, level) if comp != "none" else 0))
        return dict(cls="built")
    spec, route = item["spec"], item["route"]
    want = make_obj(spec)
    if route == "memory":
        f, out, orig, md, md_orig = mem_entry(spec, item["comp"], item["level"], item.get("tag", 0))
        valid = open(item["valid"], "rb").read()
        if orig != valid:
            return dict(cls="infra", detail="output.pkl differs from joblib.dump of the same object: %r vs %r" % (orig[:40], valid[:40]))
        data = damaged(item)
        with open(out, "wb") as fh:
            fh.write(data)
        # the entry's metadata.json: as stored / missing (writer killed between the two files) / a strict prefix / empty
        how = item.get("meta", "keep")
        if how == "missing":
            if os.path.exists(md):
                os.unlink(md)
        else:
            with open(md, "wb") as fh:
                fh.write(md_orig if how == "keep" else b"" if how == "empty" else md_orig[:max(1, len(md_orig) // 2)])
        del EXEC[:]
        try:
            v = f()
        except MemoryError:
            return dict(cls="hang", detail="memory-cap")
        except Exception as e:
            return dict(cls="raises", exc=type(e).__name__)
        return dict(cls="returns-original" if same(v, want) else "returns-other", executed=bool(EXEC))
    data = damaged(item)
    if route == "zread":
        cls = BinaryGzipFile if data[:2] == b"\x1f\x8b" else BinaryZlibFile
        try:
            got = cls(io.BytesIO(data), "rb").read()
        except MemoryError:
            return dict(cls="hang", detail="memory-cap")
        except Exception as e:
            return dict(cls="raises", exc=type(e).__name__)
        return dict(cls="stream", n=len(got), adler=zlib.adler32(got))
    try:
        if route == "path":
            p = os.path.join(scratch, "f.pkl")
            with open(p, "wb") as fh:
                fh.write(data)
            v = joblib.load(p)
        else:
            v = joblib.load(io.BytesIO(data))
    except MemoryError:
        return dict(cls="hang", detail="memory-cap")
    except Exception as e:
        return dict(cls="raises", exc=type(e).__name__)
    return dict(cls="returns-original" if same(v, want) else "returns-other")

out = sys.stdout
for line in sys.stdin:
    item = json.loads(line)
    before = resource.getrusage(resource.RUSAGE_SELF).ru_maxrss
    try:
        rep = run(item)
    except MemoryError:
        rep = dict(cls="hang", detail="memory-cap")
    except BaseException as e:
        rep = dict(cls="infra", detail="%s: %s" % (type(e).__name__, e))
    grew = resource.getrusage(resource.RUSAGE_SELF).ru_maxrss - before
    die = False
    if rep.get("cls") == "hang" or grew > blowup_kb:
        if rep.get("cls") != "hang":
            rep = dict(cls="hang", detail="memory-blowup (+%d MB) swallowed by the implementation; it then answered %s"
                       % (grew // 1024, rep.get("cls")))
        die = True
    rep["id"] = item["id"]
    out.write(json.dumps(rep) + "\n")
    out.flush()
    if die:
        os._exit(0)
    gc.collect()
'''


class Worker:
    def __init__(self, ctx, idx, pool_dir, py):
        self.py = py
        self.dir = pool_dir / f"w{idx}"
        self.gen = 0
        self.script = ctx.scratch / "c14_worker.py"
        self.proc = None
        self.buf = b""

    def start(self):
        self.gen += 1
        d = self.dir / f"g{self.gen}"
        d.mkdir(parents=True, exist_ok=True)
        env = dict(os.environ, PYTHONDONTWRITEBYTECODE="1", OPENBLAS_NUM_THREADS="1", OMP_NUM_THREADS="1")
        env.pop("PYTHONPATH", None)
        self.proc = subprocess.Popen(
            [self.py, str(self.script), str(core.REPO), str(d), str(CAP_MB), str(BLOWUP_KB),
             "np" if self.py == core.PY_NUMPY else "plain"],
            stdin=subprocess.PIPE, stdout=subprocess.PIPE, stderr=open(d / "stderr.log", "wb"), bufsize=0, env=env, cwd=str(d))
        self.errlog = d / "stderr.log"
        self.buf = b""

    def stop(self):
        if self.proc is not None:
            try:
                self.proc.kill()
            except OSError:
                pass
            self.proc.wait()
            self.proc = None

    def ask(self, item, watchdog):
        """Returns (reply dict, seconds). A worker that exits on its own (rc >= 0) without answering is an
        infrastructure problem, not an outcome: the case is retried once on a fresh worker."""
        rep, secs = self._ask(item, watchdog)
        if rep.get("cls") == "infra" and rep.get("died"):
            rep2, secs2 = self._ask(item, watchdog)
            if rep2.get("cls") == "infra":
                rep2["detail"] = "%s | first attempt: %s" % (rep2.get("detail"), rep.get("detail"))
            return rep2, secs + secs2
        return rep, secs

    def _ask(self, item, watchdog):
        if self.proc is None or self.proc.poll() is not None:
            self.stop()
            self.start()
        t0 = time.time()
        try:
            self.proc.stdin.write((json.dumps(item) + "\n").encode())
        except OSError:
            self.stop()
            self.start()
            self.proc.stdin.write((json.dumps(item) + "\n").encode())
        fd = self.proc.stdout.fileno()
        deadline = t0 + watchdog
        while b"\n" not in self.buf:
            left = deadline - time.time()
            if left <= 0:
                self.stop()
                return dict(id=item["id"], cls="hang", detail=f"watchdog {watchdog}s"), time.time() - t0
            r, _, _ = select.select([fd], [], [], left)
            if not r:
                continue
            chunk = os.read(fd, 65536)
            if not chunk:
                rc = self.proc.wait()
                self.proc = None
                # killed by the kernel (OOM / SIGKILL / SIGSEGV under the cap) while handling this case
                tail = ""
                try:
                    tail = self.errlog.read_bytes()[-400:].decode("utf-8", "replace")
                except OSError:
                    pass
                return dict(id=item["id"], cls="hang" if rc < 0 else "infra", died=True,
                            detail=f"worker died rc={rc} while handling the case; stderr: {tail!r}"), time.time() - t0
            self.buf += chunk
        line, self.buf = self.buf.split(b"\n", 1)
        rep = json.loads(line)
        if rep.get("id") != item["id"]:
            raise core.InfraError(f"worker answered case {rep.get('id')} for {item['id']}")
        if rep.get("cls") == "hang":
            self.stop()  # the worker exits after a blow-up (its high-water mark is spoiled): start afresh
        return rep, time.time() - t0


def run_items(ctx, items, watchdog, n_workers=14, py=None):
    """Run the cases in watched worker subprocesses. After two WATCHDOG expiries for the same
    (compressor, damage kind, route) the remaining cases of that group are skipped (reply `skipped`): a
    constant-memory endless loop costs a full watchdog period per case."""
    py = py or core.PY
    (ctx.scratch / "c14_worker.py").write_text(WORKER_SRC)
    import tempfile

    pool_dir = Path(tempfile.mkdtemp(prefix="pool", dir=ctx.scratch))  # run() and search() never share directories
    q = queue.Queue()
    for it in items:
        q.put(it)
    replies = {}
    errors = []
    expiries = {}

    def loop(idx):
        w = Worker(ctx, idx, pool_dir, py)
        try:
            while True:
                try:
                    it = q.get_nowait()
                except queue.Empty:
                    return
                group = (it.get("comp"), (it.get("damage") or ["-"])[0], it.get("route"))
                if expiries.get(group, 0) >= 2:
                    replies[it["id"]] = dict(id=it["id"], cls="skipped", secs=0.0)
                    continue
                rep, secs = w.ask(it, watchdog)
                rep["secs"] = round(secs, 3)
                if rep["cls"] == "hang" and str(rep.get("detail", "")).startswith("watchdog"):
                    expiries[group] = expiries.get(group, 0) + 1
                replies[it["id"]] = rep
        except Exception as e:  # noqa: BLE001
            errors.append(repr(e))
        finally:
            w.stop()

    threads = [threading.Thread(target=loop, args=(i,)) for i in range(min(n_workers, max(1, len(items))))]
    for t in threads:
        t.start()
    for t in threads:
        t.join()
    if errors:
        raise core.InfraError("worker pool: " + "; ".join(errors[:3]))
    return replies


# ----------------------------------------------------------------------------- files and damage


def _decode(comp, data):
    import bz2
    import lzma

    if comp == "zlib":
        return zlib.decompress(data)
    if comp == "gzip":
        return gzip.decompress(data)
    if comp == "bz2":
        return bz2.decompress(data)
    if comp in ("lzma", "xz"):
        return lzma.decompress(data)
    return data


def _make_obj(spec):
    # same construction as in the worker (kept in sync by test: the parent only needs it to dump)
    ns = {}
    src = WORKER_SRC.split("def make_obj(spec):")[1].split("def same(a, b):")[0]
    exec("def make_obj(spec):" + src, ns)
    return ns["make_obj"](spec)


def build_file(ctx, joblib, spec, comp, level):
    import io

    obj = _make_obj(spec)
    b = io.BytesIO()
    joblib.dump(obj, b, compress=((comp, level) if comp != "none" else 0))
    valid = b.getvalue()
    payload = _decode(comp, valid)
    name = "valid-%s-%s-%d.pkl" % ("_".join(str(x) for x in spec), comp, level)
    p = ctx.scratch / name
    p.write_bytes(valid)
    return dict(spec=list(spec), comp=comp, level=level, valid=str(p), R=len(valid), L=len(payload), bytes=valid, payload=payload)


def build_files_np(ctx, triples):
    """Files holding numpy arrays are written (and later loaded) by python3-vt workers: /venv has no numpy."""
    items, out = [], []
    for i, (spec, comp, level) in enumerate(triples):
        p = ctx.scratch / ("valid-%s-%s-%d.pkl" % ("_".join(str(x) for x in spec), comp, level))
        items.append(dict(id=i, cmd="build", spec=list(spec), comp=comp, level=level, path=str(p)))
    reps = run_items(ctx, items, 120, n_workers=4, py=core.PY_NUMPY)
    for it in items:
        if reps[it["id"]].get("cls") != "built":
            raise core.InfraError(f"could not build {it}: {reps[it['id']]}")
        valid = Path(it["path"]).read_bytes()
        payload = _decode(it["comp"], valid)
        out.append(dict(spec=it["spec"], comp=it["comp"], level=it["level"], valid=it["path"], R=len(valid), L=len(payload),
                        bytes=valid, payload=payload))
    return out


def _decoded_len(f, k):
    """Length of the pickle stream a reader gets out of the first k bytes of the file (None: CPython codec)."""
    if f["comp"] == "none":
        return k
    if f["comp"] in ("zlib", "gzip"):
        d = zlib.decompressobj(zlib.MAX_WBITS if f["comp"] == "zlib" else 31)
        try:
            return len(d.decompress(f["bytes"][:k]))
        except zlib.error:
            return None
    return None


def utf8_cuts(rng, f, thorough):
    """Truncation points whose decoded stream ends INSIDE the big string, at every alignment: in the middle of
    a multi-byte character (tag mid-char) and on a character boundary (tag char-boundary)."""
    text = _make_obj(tuple(f["spec"]))["text"].encode("utf-8")
    start = f["payload"].find(text)
    if start < 0:
        raise core.InfraError("utf8 object: encoded string not found in the pickle stream")
    end = start + len(text)
    R, want = f["R"], (24 if thorough else 10)
    cand = []
    if f["comp"] == "none":
        for _ in range(3):  # runs of consecutive offsets: every alignment of 1..4-byte characters
            a = rng.randrange(start + 1, end - 16)
            cand += list(range(a, a + 12))
        cand += [start, start + 1, start + 2, end - 1, end - 2, end - 3]
    cand += [rng.randrange(1, R) for _ in range(400)]
    mid, bnd = [], []
    for k in cand:
        d = _decoded_len(f, k)
        if d is None:
            if len(bnd) < want:
                bnd.append(["cut", k, "in-codec"])
            continue
        if start < d < end:
            if f["payload"][d] & 0xC0 == 0x80:
                if len(mid) < want * 2:
                    mid.append(["cut", k, "mid-char"])
            elif len(bnd) < want:
                bnd.append(["cut", k, "char-boundary"])
        if len(mid) >= want * 2 and len(bnd) >= want:
            break
    return mid + bnd


def find_aligned(ctx, joblib, comp, level, residue, blocks, seed):
    """A file of incompressible data whose length is blocks*8192 + residue (mod 8192 = residue)."""
    import io

    target = blocks * 8192 + residue
    n = max(16, target - 120)
    seen = set()
    for _ in range(40):
        if n in seen:
            n += 1
            continue
        seen.add(n)
        b = io.BytesIO()
        joblib.dump(_make_obj(("rand", n, seed)), b, compress=(comp, level))
        R = len(b.getvalue())
        if R == target:
            f = build_file(ctx, joblib, ("rand", n, seed), comp, level)
            f["family"], f["residue"] = "aligned", residue
            return f
        n = max(16, n + (target - R))
    raise core.InfraError(f"no payload length gives a {comp} file of {target} bytes")


def damages_for(rng, f, thorough, exhaustive_limit):
    R = f["R"]
    out = []
    fam = f.get("family")
    if fam == "aligned":
        # the compressed stream ends `residue` bytes after a raw-block boundary: the last 8192-byte block holds
        # (part of) the checksum trailer only, i.e. a decompress() call that returns no data
        cand = {0, 1, R // 2, rng.randrange(R), rng.randrange(R)} | {R - i for i in range(1, 14)}
        for k in range(1, R // 8192 + 2):
            cand |= {8192 * k - 2, 8192 * k - 1, 8192 * k, 8192 * k + 1, 8192 * k + 2}
        cuts = sorted(c for c in cand if 0 <= c < R)
    elif R <= exhaustive_limit:
        cuts = list(range(R))
    else:
        cand = {0, 1, 2, 3, 4, 5, 6, 9, 10, 11, R - 1, R - 2, R - 3, R - 4, R - 5, R - 8, R - 9, R - 12, R // 2, R // 3}
        for k in range(1, R // 8192 + 2):
            cand |= {8192 * k - 1, 8192 * k, 8192 * k + 1}
        for _ in range(40 if thorough else 8):
            cand.add(rng.randrange(R))
        cuts = sorted(c for c in cand if 0 <= c < R)
    out += [["cut", k] for k in cuts]
    if fam == "utf8":
        out += utf8_cuts(rng, f, thorough)
    sufs = [("X", b"X"), ("zero1", b"\0"), ("zero5", b"\0" * 5), ("rand3", rng.randbytes(3)), ("rand16", rng.randbytes(16)),
            ("second-stream", f["bytes"])]
    to_block = (-R) % 8192
    for d in ((to_block - 1, to_block, to_block + 1) if thorough else (to_block + 1,)):
        if d > 0:
            sufs.append((f"cross-block+{d}", rng.randbytes(d)))
    if thorough:
        sufs += [("rand%d" % n, rng.randbytes(n)) for n in (1, 2, 7, 8, 9, 64, 8193)]
        sufs.append(("newline", b"\n"))
        sufs.append(("stop-opcode", b"."))
    out += [["ext", name, s.hex()] for name, s in sufs]
    return out


def damaged_bytes(f, dmg):
    return f["bytes"][: dmg[1]] if dmg[0] == "cut" else f["bytes"] + bytes.fromhex(dmg[2])


def zlib_table(data):
    """What CPython's zlib does on `data` fed in 8192-byte blocks: (table 'fed:out' list, E or None, ok)."""
    if data[:1] == b"\x78":
        wbits = zlib.MAX_WBITS
    elif data[:2] == b"\x1f\x8b":
        wbits = 31
    else:
        return None
    d = zlib.decompressobj(wbits)
    total, fed, E = 0, 0, None
    table = ["0:0"]
    K = len(data)
    try:
        while fed < K:
            block = data[fed:fed + 8192]
            if not d.eof:
                total += len(d.decompress(block))
                if d.eof:
                    E = fed + len(block) - len(d.unused_data)
            fed += len(block)
            table.append(f"{fed}:{total}")
    except zlib.error:
        return "zlib-error"
    return table, E


def driver_line(f, dmg, variant="new"):
    data = damaged_bytes(f, dmg)
    K = len(data)
    first = data[:8].hex() or "-"
    t = zlib_table(data)
    if t == "zlib-error":
        return None
    table, E = t if t else ([], None)
    return " ".join(["load", variant, first, f["comp"], str(K), str(f["R"]), str(f["L"]), "-" if E is None else str(E)] + table)


# ----------------------------------------------------------------------------- the exploration


def file_plan(ctx, salt):
    """(spec, comp, level) triples. Quick: small objects for every compressor (exhaustive truncation) + two
    multi-block ones."""
    rng = ctx.rng(salt + "/plan")
    plan = []
    small = [("dict",), ("int",)]
    for spec in small:
        for comp in COMPRESSORS:
            lv = 3 if comp != "none" else 0
            plan.append((spec, comp, lv))
    for comp in ("zlib", "gzip"):
        plan.append((("dict",), comp, rng.choice([1, 2, 4, 5, 6, 7, 8, 9])))
    big = [("rand", 20000, rng.randrange(1000)), ("rep", 20000)]
    if ctx.thorough:
        big += [("rand", 70000, rng.randrange(1000)), ("str", 600000), ("rand", 300000, 5)]
    for spec in big:
        for comp in COMPRESSORS:
            lv = (rng.choice([1, 3, 6, 9]) if comp in ("zlib", "gzip", "bz2") else 3) if comp != "none" else 0
            plan.append((spec, comp, lv))
    # large non-ASCII strings (written outside the pickle frames): a cut can split a multi-byte character
    u8 = [("utf8", "mixed", 40000, rng.randrange(1000)), ("utf8", "\u00e9", 40000, 0)]
    if ctx.thorough:
        u8 += [("utf8", "\u6f22", 30000, 0), ("utf8", "\U0001d11e", 20000, 0), ("utf8", "mixed", 120000, 7)]
    for spec in u8:
        for comp in (COMPRESSORS if ctx.thorough else ("none", "zlib", "gzip")):
            if spec[1] != "mixed" and comp != "none" and not ctx.thorough:
                continue  # a repeated character compresses to a few hundred bytes: nothing to cut inside
            plan.append((spec, comp, 3 if comp != "none" else 0))
    # block-boundary-aligned zlib/gzip files: the stream ends 0..9 bytes after (or 1 byte before) a raw-block boundary
    for comp in ("zlib", "gzip"):
        for residue in (0, 1, 2, 3, 4, 5, 6, 7, 8, 9, 8191):
            blocks = (rng.choice([1, 1, 2]) if not ctx.thorough else rng.choice([1, 2, 3, 5])) - (1 if residue == 8191 else 0)
            plan.append((("align", residue, max(blocks, 0 if residue == 8191 else 1), rng.randrange(1000)), comp, rng.choice([1, 3, 6, 9])))
    # numpy arrays: the array bytes sit inside the stream and are fetched with `_read_bytes`
    nps = [("np", "int64", 9, 1), ("np", "float64", 3000, 2)]
    if ctx.thorough:
        nps += [("np", "uint8", 0, 0), ("np", "int16", 20001, 3)]
    for spec in nps:
        for comp in COMPRESSORS:
            plan.append((spec, comp, 3 if comp != "none" else 0))
    return plan


def _kind(dmg):
    return "truncated" if dmg[0] == "cut" else "trailing-bytes"


def _case(f, dmg, route):
    return dict(spec=f["spec"], comp=f["comp"], level=f["level"], damage=dmg if dmg[0] == "cut" else [dmg[0], dmg[1], dmg[2][:64] + ("…" if len(dmg[2]) > 64 else "")],
                damage_full=dmg if len(str(dmg)) < 50000 else None, route=route, valid_len=f["R"], payload_len=f["L"])


def _explore(ctx, salt, plan=None, only=None, budget_scale=1):
    joblib = core.use_repo()
    res = Result()
    res.rule = ("one evaluation = one damaged file loaded through one route in a watched subprocess; files: every compressor "
                "(zlib gzip bz2 lzma xz none) x small objects (every truncation length) and multi-block objects (boundary-biased "
                "lengths), zlib/gzip files whose length is 0..9 or 8191 mod 8192 (the last raw block holds only checksum-trailer bytes), large non-ASCII strings cut in the middle of a multi-byte character, numpy arrays, garbage/zero/second-stream suffixes; non-trivial = the damaged file differs from the valid one and is "
                "non-empty; distinct by (object, compressor, level, damage, route)")
    rng = ctx.rng(salt)
    watchdog = 60 if ctx.thorough else 20
    files, items, meta = [], [], {}
    plan = plan if plan is not None else file_plan(ctx, salt)
    (ctx.scratch / "c14_worker.py").write_text(WORKER_SRC)
    for spec, comp, level in plan:
        if spec[0] == "align":
            files.append(find_aligned(ctx, joblib, comp, level, spec[1], spec[2], spec[3]))
        elif spec[0] != "np":
            files.append(build_file(ctx, joblib, tuple(spec), comp, level))
            if spec[0] == "utf8":
                files[-1]["family"] = "utf8"
    files += build_files_np(ctx, [t for t in plan if t[0][0] == "np"])
    for f in files:
        if f.get("family") == "aligned":
            res.count("aligned: file length mod 8192 = %d" % f["residue"])
    # smallest, most telling cases first: they become the replay of a finding
    order = []
    for f in files:
        dmgs = only[1] if only else damages_for(rng, f, ctx.thorough, 400 * budget_scale)
        for dmg in dmgs:
            routes = only[2] if only else ["fileobj", "path", "memory"] + (["zread"] if f["comp"] in ("zlib", "gzip") else [])
            if f["R"] > 400 and dmg[0] == "cut" and not only:
                # big files: every route on the boundary cuts, but keep the slow Memory route for a third of them
                if rng.random() < 0.6 and "memory" in routes:
                    routes = [r for r in routes if r != "memory"]
            for route in routes:
                if route == "zread" and zlib_table(damaged_bytes(f, dmg)) is None:
                    continue  # no longer detected as zlib/gzip: joblib would not open it with BinaryZlibFile
                order.append((f, dmg, route))
    order.sort(key=lambda t: (t[1][0] == "cut", t[0]["R"], len(str(t[1])), t[2] != "fileobj"))
    for i, (f, dmg, route) in enumerate(order):
        items.append(dict(id=i, spec=f["spec"], comp=f["comp"], level=f["level"], valid=f["valid"], damage=dmg, route=route))
        if route == "memory":
            # the damaged entry as a whole: an argument whose repr holds braces, metadata.json missing / torn as well
            rr = random.Random(f"{ctx.seed}/memvar/{i}")
            items[-1]["tag"] = only[3] if only and len(only) > 3 else rr.choice([0, 0, 1, 2, 3, 4])
            items[-1]["meta"] = only[4] if only and len(only) > 4 else rr.choice(["keep", "keep", "missing", "prefix", "empty"])
            res.count("memory-route:arg=%s:metadata=%s" % ("plain" if not items[-1]["tag"] else "braces", items[-1]["meta"]))
        meta[i] = (f, dmg, route)
    t0 = time.time()
    plain = [it for it in items if it["spec"][0] != "np"]
    withnp = [it for it in items if it["spec"][0] == "np"]
    replies = {}
    both = [None, None]

    def pool(k, its, py, nw):
        try:
            both[k] = run_items(ctx, its, watchdog, n_workers=nw, py=py) if its else {}
        except Exception as e:  # noqa: BLE001
            both[k] = e

    ths = [threading.Thread(target=pool, args=(0, plain, core.PY, 8)), threading.Thread(target=pool, args=(1, withnp, core.PY_NUMPY, 8))]
    for t in ths:
        t.start()
    for t in ths:
        t.join()
    for b in both:
        if isinstance(b, Exception):
            raise b if isinstance(b, core.InfraError) else core.InfraError(repr(b))
        replies.update(b)

    # model: one request per distinct damaged file
    lines, keys = [], {}
    for i, (f, dmg, route) in meta.items():
        key = (f["valid"], json.dumps(dmg))
        if key not in keys:
            ln = driver_line(f, dmg)
            keys[key] = None if ln is None else len(lines)
            if ln is not None:
                lines.append(ln)
    t1 = time.time()
    model = _drive(ctx, lines)
    res.extra["model_wall_s"] = round(time.time() - t1, 2)

    # what the model of the UNCHANGED `_fill_buffer` (rawSourceOld, theorem C14.old_read_diverges) says about the hangs
    hang_keys = sorted({(meta[i][0]["valid"], json.dumps(meta[i][1])) for i, r in replies.items()
                        if r["cls"] == "hang" and keys.get((meta[i][0]["valid"], json.dumps(meta[i][1]))) is not None})[:300]
    by_valid = {f["valid"]: f for f in files}
    old_lines = [driver_line(by_valid[v], json.loads(d), "old") for v, d in hang_keys]
    old_model = dict(zip(hang_keys, _drive(ctx, old_lines))) if old_lines else {}

    slow = 0.0
    for i, (f, dmg, route) in meta.items():
        rep = replies.get(i)
        if rep is None:
            raise core.InfraError(f"no reply for case {i}")
        if rep["cls"] == "skipped":
            res.count("skipped-after-repeated-watchdog-expiry")
            continue
        if rep["cls"] == "infra":
            raise core.InfraError(f"worker: {rep.get('detail')} on {_case(f, dmg, route)}")
        case = _case(f, dmg, route)
        if route == "memory":
            case["tag"], case["meta"] = items[i].get("tag", 0), items[i].get("meta", "keep")
        kind = _kind(dmg)
        res.evaluations += 1
        res.count(f"comp={f['comp']}")
        res.count(f"route={route}")
        res.count(f"damage={kind}")
        if dmg[0] == "cut" and len(dmg) > 2:
            res.count("utf8-cut=" + dmg[2])
        res.count("size=" + ("small" if f["R"] <= 400 else "multi-block" if f["R"] > 8192 else "one-block"))
        res.count(f"impl={rep['cls']}" + (":" + rep.get("exc", "") if rep["cls"] == "raises" else ""))
        if rep["cls"] != "hang":
            slow = max(slow, rep["secs"])
        data_len = dmg[1] if dmg[0] == "cut" else f["R"] + len(dmg[2]) // 2
        if data_len > 0:
            res.nontrivial.add((tuple(f["spec"]), f["comp"], f["level"], json.dumps(dmg), route))
        res.sample(dict(case=case, impl=rep["cls"]))
        mi = keys[(f["valid"], json.dumps(dmg))]
        mrep = None if mi is None else model[mi].split()
        if mrep is not None and mrep[0] == "bad-op":
            raise core.InfraError(f"driver rejected {lines[mi][:200]}")
        if mrep is None or mrep[0] == "unmodelled":
            res.count("model=unmodelled")
        # ---------------- oracle on the implementation (does not use the model)
        impl = rep["cls"]
        if impl == "hang":
            om = old_model.get((f["valid"], json.dumps(dmg)))
            rep["detail"] = "%s; model of the unchanged _fill_buffer predicts: %s" % (rep.get("detail"), om or "n/a")
            if om and om.split()[0] == "hang":
                res.count("hang-predicted-by-old-code-model")
        if route == "zread":
            if impl == "hang":
                res.fail(F7_SIGNATURE if kind == "trailing-bytes" else f"hang:{f['comp']}:{kind}", case, rep.get("detail"))
            elif impl == "stream":
                n = rep["n"]
                if n > f["L"] or zlib.adler32(f["payload"][:n]) != rep["adler"]:
                    res.fail(f"zfile-lies:{f['comp']}:{kind}", case, f"read() returned {n} bytes that are not a prefix of the payload")
            model_stream = None if mrep is None else " ".join(mrep[2:])
            impl_stream = ("stream %d" % rep["n"]) if impl == "stream" else ("stream hang" if impl == "hang" else "stream exc " + rep.get("exc", ""))
            if model_stream is not None and mrep[0] != "unmodelled":
                res.traces_validated += 1
                if model_stream != impl_stream:
                    res.diverge("zread", case, impl_stream, model_stream)
            continue
        if impl == "hang":
            res.fail(F7_SIGNATURE if (kind == "trailing-bytes" and f["comp"] in ("zlib", "gzip")) else f"hang:{f['comp']}:{kind}",
                     case, rep.get("detail"))
        elif impl == "returns-other":
            res.fail(f"lies:{f['comp']}:{kind}:{route}", case, "a different object was returned")
        elif route == "memory" and impl == "raises":
            res.fail(f"cached-call-raises:{f['comp']}:{kind}", case, rep.get("exc"))
        # ---------------- correspondence with the model
        if mrep is None or mrep[0] == "unmodelled":
            continue
        res.traces_validated += 1
        if route == "memory":
            impl_call = "hang" if impl == "hang" else ("raises" if impl == "raises" else ("recomputed" if rep.get("executed") else "served"))
            if impl == "returns-other":
                impl_call = "wrong-value"
            if impl_call not in mrep[1].split("|"):
                res.diverge("cached-call", case, impl_call, mrep[1])
        else:
            if impl not in mrep[0].split("|"):
                res.diverge("load-class", case, impl + (":" + rep.get("exc", "") if impl == "raises" else ""), mrep[0])
    res.extra["slowest_terminating_case_s"] = slow
    res.assumptions = [
        "files are written by the same joblib (dump is not under test here); plain Python objects run under /venv/bin/python, objects holding numpy arrays under python3-vt (numpy) with PYTHONPATH-free sys.path insertion of VERIF_REPO",
        f"watchdog {watchdog}s per case, address-space cap {CAP_MB} MiB per worker; slowest terminating case {slow}s",
        "payloads are < 1 MiB except the thorough tier's 1.2 MB compressible string (two BufferedReader fills); the model (lists) is quadratic in the raw size, so incompressible files stop at 300 KB",
    ]
    return res


def _drive(ctx, lines, shards=8):
    if not lines:
        return []
    n = max(1, min(shards, len(lines) // 50 + 1))
    parts = [lines[i::n] for i in range(n)]
    outs = [None] * n
    errs = []

    def go(i):
        try:
            outs[i] = ctx.driver().run(parts[i], timeout=1500)
        except Exception as e:  # noqa: BLE001
            errs.append(e)

    ts = [threading.Thread(target=go, args=(i,)) for i in range(n)]
    for t in ts:
        t.start()
    for t in ts:
        t.join()
    if errs:
        raise errs[0] if isinstance(errs[0], core.InfraError) else core.InfraError(repr(errs[0]))
    out = [None] * len(lines)
    for i in range(n):
        out[i::n] = outs[i]
    return out


def run(ctx):
    if ctx.replay:
        case = ctx.replay.get("case", {})
        dmg = case.get("damage_full") or case.get("damage")
        if not dmg or any(isinstance(x, str) and x.endswith("…") for x in dmg):
            raise core.InfraError("replay file does not carry the full damage description")
        plan = [(tuple(case["spec"]), case["comp"], case["level"])]
        return _explore(ctx, "replay", plan=plan, only=(None, [dmg], [case["route"]], case.get("tag", 0), case.get("meta", "keep")))
    return _explore(ctx, "main")


def search(ctx, res):
    return _explore(ctx, "search", budget_scale=4)
