"""C14 — truncated or over-long files make load fail cleanly: never hang or lie.

Round 5 additions: (1) the LEGACY formats `joblib.load` still accepts — ZF z-files (model lean/JoblibModel/ZFileLegacy.lean,
driver request `zfile`, route `zfread` = numpy_pickle_compat.read_zfile directly), multi-file pickles with .npy / .npy.z
companions (samples of joblib/test/data, main file or a companion damaged); (2) TWO callers of one damaged cache entry under
every <= 3-switch interleaving of the store-backend operations, for the Memory options that change the read path.

Model: lean/JoblibModel/ZlibFile.lean (raw 8192-byte blocks + zlib.decompressobj with eof/unused_data,
`_fill_buffer`, `load` as BufferedReader(1 MiB) + unpickler contract, `_cached_call`'s try/except);
theorems: lean/JoblibProofs/C14.lean; driver: lean/Driver/C14.lean.

Implementation side: every damaged file is loaded by the REAL joblib (from VERIF_REPO) inside worker
SUBPROCESSES — never in this process — through four routes:
  path    : joblib.load(<file name>)
  fileobj : joblib.load(io.BytesIO(bytes))
  memory  : a Memory cache entry whose output.pkl is replaced by the damaged bytes, then the cached call
  zread   : BinaryZlibFile/BinaryGzipFile(io.BytesIO(bytes)).read()   (zlib/gzip files only)
Each worker runs under an address-space cap (RLIMIT_AS) and the parent keeps a per-case watchdog far above the
normal latency (a load takes ~1 ms; watchdog 20 s quick / 60 s thorough).  Outcome classes:
  raises | returns-original | returns-other | hang
`hang` = the watchdog expired (worker killed) OR the case exhausted the memory cap / grew the process by more
than BLOWUP_KB (on the pinned tree the trailing-bytes loop doubles `unused_data` each iteration: it does not
spin at constant memory, it eats all memory; under the cap it surfaces as MemoryError after < 1 s, and inside
Memory that MemoryError is even swallowed by `except Exception`).  Both are "does not terminate within
resources far above normal" and are classified `hang`, with the detail saying which.
"""

import gzip
import json
import os
import queue
import random
import select
import subprocess
import threading
import time
import zlib
from pathlib import Path

from .. import core
from ..core import Result

REQUIRED_THEOREMS = [
    "C14.fill_terminates",
    "C14.wf_reachable",
    "C14.damaged_file_is_a_stream",
    "C14.truncation_never_lies",
    "C14.trailing_bytes_ignored",
    "C14.load_error_or_original",
    "C14.load_class",
    "C14.read_bytes_terminates_exact",
    "C14.damaged_entry_recomputes",
    "C14.old_fill_diverges",
    "C14.old_read_diverges",
    "C14.legacy_truncation_never_lies",
    "C14.legacy_trailing_bytes_ignored",
    "C14.legacy_load_class",
]
TRUSTED_EXTRA = [
    "modelled, not verified: CPython's zlib (hypothesis ValidFile/StreamLaw of the theorems; in the correspondence the model "
    "is fed the cumulative output lengths and the end-of-stream offset observed from zlib.decompressobj on the damaged file; "
    "the post-eof behaviour — decompress(x) returns b'' and appends x to unused_data — is modelled in Lean and was probed)",
    "modelled, not verified: pickle.Unpickler (hypothesis UnpicklerContract: stops at STOP, raises on a strict prefix); "
    "io.BufferedReader(BinaryZlibFile, 1 MiB) modelled as readinto(1 MiB) until the unpickler has its bytes",
    "bz2/lzma/xz are CPython's own file objects: the model predicts only the contract {raises, returns-original} for them; "
    "termination there is established by the watchdog runs only",
    "hang is observed as watchdog expiry or exhaustion of a 192 MiB address-space cap in a subprocess (normal peak < 60 MiB)",
    "legacy z-files (lean/JoblibModel/ZFileLegacy.lean): zlib.decompress is a parameter of the model (hypothesis ZValid of the "
    "theorems; in the correspondence the model is fed what CPython's zlib.decompress does on file[21:] and file[22:]); int(bytes, 16) "
    "is modelled (pyIntHex) and tied to CPython's int on the cut length fields and on random malformed fields; old multi-file "
    "pickles (.npy companions read by numpy.load) are covered by the watchdog runs only",
    "two concurrent callers of one damaged cache entry: not modelled in Lean; forced interleavings of two threads at store-backend "
    "method granularity with an oracle on the returned values only",
]

COMPRESSORS = ["zlib", "gzip", "bz2", "lzma", "xz", "none"]
CAP_MB = 192
BLOWUP_KB = 60_000
F7_SIGNATURE = "hang:zlib-family:trailing-bytes"

# ----------------------------------------------------------------------------- worker (runs in a subprocess)

WORKER_SRC = r'''
import sys, os, io, json, resource, gc, warnings, logging, zlib
repo, scratch, cap_mb, blowup_kb = sys.argv[1], sys.argv[2], int(sys.argv[3]), int(sys.argv[4])
sys.path.insert(0, repo)
sys.dont_write_bytecode = True
warnings.simplefilter("ignore")
logging.disable(logging.CRITICAL)
import joblib
from joblib.compressor import BinaryZlibFile, BinaryGzipFile
assert os.path.realpath(os.path.dirname(os.path.dirname(joblib.__file__))) == os.path.realpath(repo), joblib.__file__

def make_obj(spec):
    kind = spec[0]
    if kind == "dict":
        return {"a": [1, 2, 3], "b": "x" * 50, "c": list(range(40)), "d": (None, True, b"\x00\xff")}
    if kind == "int":
        return 7
    if kind == "rand":          # incompressible bytes
        import random
        return {"blob": random.Random(spec[2]).randbytes(spec[1]), "n": spec[1]}
    if kind == "rep":           # highly compressible
        return ["line %d\n" % (i % 7) for i in range(spec[1])]
    if kind == "str":
        return "ab" * spec[1]
    if kind == "utf8":          # large non-ASCII str: >= 64 KiB once encoded, so pickle writes it outside its frames
        import random
        if spec[1] == "mixed":
            r = random.Random(spec[3])
            text = "".join(r.choice("ab \u00e9\u00fc\u20ac\u6f22\U0001d11e") for _ in range(spec[2]))
        else:
            text = spec[1] * spec[2]
        return {"id": 14, "text": text, "tail": [1, 2, 3]}
    if kind == "np":            # needs numpy: only in the python3-vt workers
        import numpy as np
        a = (np.arange(spec[2], dtype=spec[1]) * 3 + spec[3]).reshape(-1, 1 if spec[2] % 2 else 2) if spec[2] else np.zeros(0, dtype=spec[1])
        return {"arr": a, "tail": ["after", "the", "array"], "second": a[:2].copy()}
    raise ValueError(spec)

def same(a, b):
    if type(a) is not type(b):
        return False
    if isinstance(a, dict):
        return list(a) == list(b) and all(same(a[k], b[k]) for k in a)
    if isinstance(a, (list, tuple)):
        return len(a) == len(b) and all(same(x, y) for x, y in zip(a, b))
    if type(a).__module__ == "numpy":
        if getattr(a, "dtype", None) is not None and a.dtype.hasobject:
            return a.dtype == b.dtype and a.shape == b.shape and same(a.tolist(), b.tolist())
        return a.dtype == b.dtype and a.shape == b.shape and a.tobytes() == b.tobytes()
    return a == b

if any(a.startswith("np") for a in sys.argv[5:6]):
    import numpy  # noqa: load it before the cap is computed
_vm = int(open("/proc/self/status").read().split("VmSize:")[1].split()[0]) >> 10
resource.setrlimit(resource.RLIMIT_AS, ((_vm + cap_mb) << 20, (_vm + cap_mb) << 20))

EXEC = []
def producer(spec, tag=None):
    EXEC.append(1)
    return make_obj(spec)

# a second argument of the cached call (ignored by the function, part of the cache key and of every message about the call):
# values whose repr holds braces / format fields
TAGS = [None, {"alpha": 1}, "{0} {x} {}", {"{k}", 2}, [{"a": {"b": "}{"}}]]

MEMS = {}
def mem_entry(spec, comp, level, tag=0):
    key = json.dumps([spec, comp, level, tag])
    if key not in MEMS:
        d = os.path.join(scratch, "mem%d" % len(MEMS))
        mem = joblib.Memory(d, verbose=0, compress=((comp, level) if comp != "none" else False))
        f = mem.cache(producer)
        call = (lambda: f(tuple(spec))) if not tag else (lambda: f(tuple(spec), TAGS[tag]))
        call()
        items = mem.store_backend.get_items()
        assert len(items) == 1, items
        out = os.path.join(items[0].path, "output.pkl")
        md = os.path.join(items[0].path, "metadata.json")
        MEMS[key] = (call, out, open(out, "rb").read(), md, open(md, "rb").read())
    return MEMS[key]

def damaged(item):
    data = open(item["valid"], "rb").read()
    dmg = item["damage"]
    if dmg[0] == "cut":
        return data[:dmg[1]]
    return data + bytes.fromhex(dmg[2])

def run(item):
    if item.get("cmd") == "build":
        comp, level = item["comp"], item["level"]
        joblib.dump(make_obj(item["spec"]), item["path"], compress=((comp, level) if comp != "none" else 0))
        return dict(cls="built")
    if item.get("cmd") == "legacy":
        return run_legacy(item)
    if item.get("cmd") == "race":
        return run_race(item)
    spec, route = item["spec"], item["route"]
    want = make_obj(spec)
    if route == "memory":
        f, out, orig, md, md_orig = mem_entry(spec, item["comp"], item["level"], item.get("tag", 0))
        valid = open(item["valid"], "rb").read()
        if orig != valid and not item.get("legacy"):
            return dict(cls="infra", detail="output.pkl differs from joblib.dump of the same object: %r vs %r" % (orig[:40], valid[:40]))
        data = damaged(item)
        with open(out, "wb") as fh:
            fh.write(data)
        # the entry's metadata.json: as stored / missing (writer killed between the two files) / a strict prefix / empty
        how = item.get("meta", "keep")
        if how == "missing":
            if os.path.exists(md):
                os.unlink(md)
        else:
            with open(md, "wb") as fh:
                fh.write(md_orig if how == "keep" else b"" if how == "empty" else md_orig[:max(1, len(md_orig) // 2)])
        del EXEC[:]
        try:
            v = f()
        except MemoryError:
            return dict(cls="hang", detail="memory-cap")
        except Exception as e:
            return dict(cls="raises", exc=type(e).__name__)
        return dict(cls="returns-original" if same(v, want) else "returns-other", executed=bool(EXEC))
    data = damaged(item)
    if route == "zread":
        cls = BinaryGzipFile if data[:2] == b"\x1f\x8b" else BinaryZlibFile
        try:
            got = cls(io.BytesIO(data), "rb").read()
        except MemoryError:
            return dict(cls="hang", detail="memory-cap")
        except Exception as e:
            return dict(cls="raises", exc=type(e).__name__)
        return dict(cls="stream", n=len(got), adler=zlib.adler32(got))
    try:
        if route == "path":
            p = os.path.join(scratch, "f.pkl")
            with open(p, "wb") as fh:
                fh.write(data)
            v = joblib.load(p)
        else:
            v = joblib.load(io.BytesIO(data))
    except MemoryError:
        return dict(cls="hang", detail="memory-cap")
    except Exception as e:
        return dict(cls="raises", exc=type(e).__name__)
    return dict(cls="returns-original" if same(v, want) else "returns-other")

# ---- legacy formats (joblib < 0.10): ZF z-files, multi-file pickles with companion files
LEG = {}
def run_legacy(item):
    import shutil
    from joblib import numpy_pickle_compat as npc
    key = json.dumps(item["files"], sort_keys=True) + item["main"]
    if key not in LEG:
        d = os.path.join(scratch, "leg%d" % len(LEG))
        os.makedirs(d)
        for rel, src in item["files"].items():
            shutil.copyfile(src, os.path.join(d, rel))
        try:
            want = joblib.load(os.path.join(d, item["main"]))
        except Exception as e:
            LEG[key] = (d, None, type(e).__name__)
        else:
            if item.get("spec") is not None and not same(want, make_obj(item["spec"])):
                return dict(cls="infra", detail="the intact legacy file does not load to the object it was written from")
            LEG[key] = (d, want, None)
    d, want, intact_exc = LEG[key]
    if intact_exc is not None:
        return dict(cls="intact-raises", exc=intact_exc)
    valid = open(item["files"][item["target"]], "rb").read()
    dmg = item["damage"]
    data = valid[:dmg[1]] if dmg[0] == "cut" else valid + bytes.fromhex(dmg[2])
    tpath = os.path.join(d, item["target"])
    route = item["route"]
    try:
        if route == "zfread":
            try:
                got = npc.read_zfile(io.BytesIO(data))
            except MemoryError:
                return dict(cls="hang", detail="memory-cap")
            except Exception as e:
                return dict(cls="raises", exc=type(e).__name__)
            return dict(cls="zdata", n=len(got), adler=zlib.adler32(got))
        with open(tpath, "wb") as fh:
            fh.write(data)
        try:
            if route == "path":
                v = joblib.load(os.path.join(d, item["main"]))
            else:
                v = joblib.load(io.BytesIO(open(os.path.join(d, item["main"]), "rb").read()))
        except MemoryError:
            return dict(cls="hang", detail="memory-cap")
        except Exception as e:
            return dict(cls="raises", exc=type(e).__name__)
        return dict(cls="returns-original" if same(v, want) else "returns-other")
    finally:
        with open(tpath, "wb") as fh:
            fh.write(valid)

# ---- two callers of one damaged cache entry under forced interleavings
import threading
class SchedTimeout(Exception):
    pass

class Sched:
    """Segments [(thread, n), ...]: `thread` runs until it has passed its n-th point (cumulative), then the next
    segment's thread runs; when the segments are used up (or their thread has finished) A runs to its end, then B."""
    def __init__(self, segs):
        self.cv = threading.Condition()
        self.segs = [tuple(x) for x in segs]
        self.si = 0
        self.count = {"A": 0, "B": 0}
        self.done = set()
        self.trace = []
    def _owner(self):
        while self.si < len(self.segs) and (self.segs[self.si][0] in self.done
                                            or self.count[self.segs[self.si][0]] >= self.segs[self.si][1]):
            self.si += 1
        if self.si < len(self.segs):
            return self.segs[self.si][0]
        for n in ("A", "B"):
            if n not in self.done:
                return n
        return None
    def wait_turn(self, me):
        with self.cv:
            if not self.cv.wait_for(lambda: self._owner() == me, timeout=15):
                raise SchedTimeout(me)
    def point(self, me, label):
        with self.cv:
            self.count[me] += 1
            self.trace.append(me + ":" + label)
            self.cv.notify_all()
        self.wait_turn(me)
    def finish(self, me):
        with self.cv:
            self.done.add(me)
            self.cv.notify_all()

HOOKED = ["contains_item", "get_metadata", "load_item", "clear_item", "dump_item", "store_metadata"]
RACE = {}
def race_entry(item):
    opts = item["opts"]
    key = json.dumps([item["spec"], item["comp"], item["level"], opts], sort_keys=True)
    if key not in RACE:
        d = os.path.join(scratch, "race%d" % len(RACE))
        comp, level = item["comp"], item["level"]
        mem = joblib.Memory(d, verbose=0, mmap_mode=opts.get("mmap_mode"),
                            compress=((comp, level) if comp != "none" else False))
        kw = {}
        if opts.get("validation"):
            kw["cache_validation_callback"] = lambda metadata: isinstance(metadata, dict)
        f = mem.cache(producer, **kw)
        spec = tuple(item["spec"])
        f(spec)
        items = mem.store_backend.get_items()
        assert len(items) == 1, items
        out = os.path.join(items[0].path, "output.pkl")
        md = os.path.join(items[0].path, "metadata.json")
        RACE[key] = (f, out, open(out, "rb").read(), md, open(md, "rb").read())
    return RACE[key]

def race_once(item, f, out, data, md, md_orig, segs, want):
    os.makedirs(os.path.dirname(out), exist_ok=True)
    with open(out, "wb") as fh:
        fh.write(data)
    how = item.get("meta", "keep")
    if how == "missing":
        if os.path.exists(md):
            os.unlink(md)
    else:
        with open(md, "wb") as fh:
            fh.write(md_orig if how == "keep" else b"" if how == "empty" else md_orig[:max(1, len(md_orig) // 2)])
    sched = Sched(segs)
    backend = f.store_backend
    real = {}
    def wrap(name):
        fn = getattr(backend, name)
        real[name] = fn
        def hooked(*a, **k):
            me = threading.current_thread().name
            if me not in ("A", "B"):
                return fn(*a, **k)
            lab = name
            try:
                return fn(*a, **k)
            except BaseException:
                lab = name + "!"
                raise
            finally:
                sched.point(me, lab)
        return hooked
    for name in HOOKED:
        setattr(backend, name, wrap(name))
    outcome = {}
    spec = tuple(item["spec"])
    opts = item["opts"]
    def body(me):
        try:
            sched.wait_turn(me)
            if opts.get("precheck"):
                f.check_call_in_cache(spec)
            if opts.get("entry") == "shelve":
                v = f.call_and_shelve(spec).get()
            else:
                v = f(spec)
            outcome[me] = "ok" if same(v, want) else "wrong-value"
        except SchedTimeout:
            outcome[me] = "sched-timeout"
        except MemoryError:
            outcome[me] = "hang"
        except BaseException as e:
            outcome[me] = "raises:" + type(e).__name__
        finally:
            sched.finish(me)
    ths = [threading.Thread(target=body, args=(n,), name=n) for n in ("A", "B")]
    try:
        for t in ths:
            t.start()
        for t in ths:
            t.join(40)
        alive = [t.name for t in ths if t.is_alive()]
    finally:
        for name in HOOKED:
            try:
                delattr(backend, name)
            except AttributeError:
                pass
    for n in alive:
        outcome[n] = "hang"
    return outcome, dict(sched.count), sched.trace

def run_race(item):
    f, out, orig, md, md_orig = race_entry(item)
    valid = open(item["valid"], "rb").read()
    if orig != valid:
        return dict(cls="infra", detail="output.pkl differs from joblib.dump of the same object")
    data = damaged(item)
    want = make_obj(item["spec"])
    if item.get("schedule") is not None:
        scheds = [item["schedule"]]
    else:
        # counts of points when the callers run one after the other, then every schedule with at most 3 switches:
        # B up to its i-th store operation, A up to its j-th, B up to its k-th, A to the end, B to the end
        o, cnt, tr = race_once(item, f, out, data, md, md_orig, [], want)
        scheds = [[]]
        nA, nB = cnt["A"], cnt["B"]
        top = max(nA, nB)      # a caller that recomputes performs more operations than one that is served
        for i in range(1, top):
            for j in range(1, top + 1):
                scheds.append([["B", i], ["A", j]])
                for k in range(i + 1, top + 1):
                    scheds.append([["B", i], ["A", j], ["B", k]])
        lim = item.get("max_schedules")
        if lim and len(scheds) > lim:
            import random
            scheds = [scheds[0]] + random.Random(item["id"]).sample(scheds[1:], lim - 1)
    runs, bad, bad_shelve = 0, None, None
    seen = set()
    for segs in scheds:
        o, cnt, tr = race_once(item, f, out, data, md, md_orig, segs, want)
        runs += 1
        seen.add(" ".join(tr))
        if any(v != "ok" for v in o.values()):
            bad = dict(schedule=segs, outcome=o, trace=tr)
            strict = not (item["opts"].get("entry") == "shelve" and not item.get("shelve_strict"))
            if strict or any(not v.startswith("raises") for v in o.values()):
                break
            bad_shelve, bad = bad_shelve or bad, None
    rep = dict(cls="race", runs=runs, distinct=len(seen), bad=bad, bad_shelve=bad_shelve)
    return rep

out = sys.stdout
for line in sys.stdin:
    item = json.loads(line)
    before = resource.getrusage(resource.RUSAGE_SELF).ru_maxrss
    try:
        rep = run(item)
    except MemoryError:
        rep = dict(cls="hang", detail="memory-cap")
    except BaseException as e:
        rep = dict(cls="infra", detail="%s: %s" % (type(e).__name__, e))
    grew = resource.getrusage(resource.RUSAGE_SELF).ru_maxrss - before
    die = False
    if rep.get("cls") == "hang" or grew > blowup_kb:
        if rep.get("cls") != "hang":
            rep = dict(cls="hang", detail="memory-blowup (+%d MB) swallowed by the implementation; it then answered %s"
                       % (grew // 1024, rep.get("cls")))
        die = True
    rep["id"] = item["id"]
    out.write(json.dumps(rep) + "\n")
    out.flush()
    if die:
        os._exit(0)
    gc.collect()
'''


class Worker:
    def __init__(self, ctx, idx, pool_dir, py):
        self.py = py
        self.dir = pool_dir / f"w{idx}"
        self.gen = 0
        self.script = ctx.scratch / "c14_worker.py"
        self.proc = None
        self.buf = b""

    def start(self):
        self.gen += 1
        d = self.dir / f"g{self.gen}"
        d.mkdir(parents=True, exist_ok=True)
        env = dict(os.environ, PYTHONDONTWRITEBYTECODE="1", OPENBLAS_NUM_THREADS="1", OMP_NUM_THREADS="1")
        env.pop("PYTHONPATH", None)
        self.proc = subprocess.Popen(
            [self.py, str(self.script), str(core.REPO), str(d), str(CAP_MB), str(BLOWUP_KB),
             "np" if self.py == core.PY_NUMPY else "plain"],
            stdin=subprocess.PIPE, stdout=subprocess.PIPE, stderr=open(d / "stderr.log", "wb"), bufsize=0, env=env, cwd=str(d))
        self.errlog = d / "stderr.log"
        self.buf = b""

    def stop(self):
        if self.proc is not None:
            try:
                self.proc.kill()
            except OSError:
                pass
            self.proc.wait()
            self.proc = None

    def ask(self, item, watchdog):
        """Returns (reply dict, seconds). A worker that exits on its own (rc >= 0) without answering is an
        infrastructure problem, not an outcome: the case is retried once on a fresh worker."""
        rep, secs = self._ask(item, watchdog)
        if rep.get("cls") == "infra" and rep.get("died"):
            rep2, secs2 = self._ask(item, watchdog)
            if rep2.get("cls") == "infra":
                rep2["detail"] = "%s | first attempt: %s" % (rep2.get("detail"), rep.get("detail"))
            return rep2, secs + secs2
        return rep, secs

    def _ask(self, item, watchdog):
        if self.proc is None or self.proc.poll() is not None:
            self.stop()
            self.start()
        t0 = time.time()
        try:
            self.proc.stdin.write((json.dumps(item) + "\n").encode())
        except OSError:
            self.stop()
            self.start()
            self.proc.stdin.write((json.dumps(item) + "\n").encode())
        fd = self.proc.stdout.fileno()
        deadline = t0 + watchdog
        while b"\n" not in self.buf:
            left = deadline - time.time()
            if left <= 0:
                self.stop()
                return dict(id=item["id"], cls="hang", detail=f"watchdog {watchdog}s"), time.time() - t0
            r, _, _ = select.select([fd], [], [], left)
            if not r:
                continue
            chunk = os.read(fd, 65536)
            if not chunk:
                rc = self.proc.wait()
                self.proc = None
                # killed by the kernel (OOM / SIGKILL / SIGSEGV under the cap) while handling this case
                tail = ""
                try:
                    tail = self.errlog.read_bytes()[-400:].decode("utf-8", "replace")
                except OSError:
                    pass
                return dict(id=item["id"], cls="hang" if rc < 0 else "infra", died=True,
                            detail=f"worker died rc={rc} while handling the case; stderr: {tail!r}"), time.time() - t0
            self.buf += chunk
        line, self.buf = self.buf.split(b"\n", 1)
        rep = json.loads(line)
        if rep.get("id") != item["id"]:
            raise core.InfraError(f"worker answered case {rep.get('id')} for {item['id']}")
        if rep.get("cls") == "hang":
            self.stop()  # the worker exits after a blow-up (its high-water mark is spoiled): start afresh
        return rep, time.time() - t0


def run_items(ctx, items, watchdog, n_workers=14, py=None):
    """Run the cases in watched worker subprocesses. After two WATCHDOG expiries for the same
    (compressor, damage kind, route) the remaining cases of that group are skipped (reply `skipped`): a
    constant-memory endless loop costs a full watchdog period per case."""
    py = py or core.PY
    (ctx.scratch / "c14_worker.py").write_text(WORKER_SRC)
    import tempfile

    pool_dir = Path(tempfile.mkdtemp(prefix="pool", dir=ctx.scratch))  # run() and search() never share directories
    q = queue.Queue()
    for it in items:
        q.put(it)
    replies = {}
    errors = []
    expiries = {}

    def loop(idx):
        w = Worker(ctx, idx, pool_dir, py)
        try:
            while True:
                try:
                    it = q.get_nowait()
                except queue.Empty:
                    return
                group = (it.get("comp"), (it.get("damage") or ["-"])[0], it.get("route"))
                if expiries.get(group, 0) >= 2:
                    replies[it["id"]] = dict(id=it["id"], cls="skipped", secs=0.0)
                    continue
                rep, secs = w.ask(it, watchdog)
                rep["secs"] = round(secs, 3)
                if rep["cls"] == "hang" and str(rep.get("detail", "")).startswith("watchdog"):
                    expiries[group] = expiries.get(group, 0) + 1
                replies[it["id"]] = rep
        except Exception as e:  # noqa: BLE001
            errors.append(repr(e))
        finally:
            w.stop()

    threads = [threading.Thread(target=loop, args=(i,)) for i in range(min(n_workers, max(1, len(items))))]
    for t in threads:
        t.start()
    for t in threads:
        t.join()
    if errors:
        raise core.InfraError("worker pool: " + "; ".join(errors[:3]))
    return replies


# ----------------------------------------------------------------------------- files and damage


def _decode(comp, data):
    import bz2
    import lzma

    if comp == "zlib":
        return zlib.decompress(data)
    if comp == "gzip":
        return gzip.decompress(data)
    if comp == "bz2":
        return bz2.decompress(data)
    if comp in ("lzma", "xz"):
        return lzma.decompress(data)
    return data


def _make_obj(spec):
    # same construction as in the worker (kept in sync by test: the parent only needs it to dump)
    ns = {}
    src = WORKER_SRC.split("def make_obj(spec):")[1].split("def same(a, b):")[0]
    exec("def make_obj(spec):" + src, ns)
    return ns["make_obj"](spec)


def build_file(ctx, joblib, spec, comp, level):
    import io

    obj = _make_obj(spec)
    b = io.BytesIO()
    joblib.dump(obj, b, compress=((comp, level) if comp != "none" else 0))
    valid = b.getvalue()
    payload = _decode(comp, valid)
    name = "valid-%s-%s-%d.pkl" % ("_".join(str(x) for x in spec), comp, level)
    p = ctx.scratch / name
    p.write_bytes(valid)
    return dict(spec=list(spec), comp=comp, level=level, valid=str(p), R=len(valid), L=len(payload), bytes=valid, payload=payload)


def build_files_np(ctx, triples):
    """Files holding numpy arrays are written (and later loaded) by python3-vt workers: /venv has no numpy."""
    items, out = [], []
    for i, (spec, comp, level) in enumerate(triples):
        p = ctx.scratch / ("valid-%s-%s-%d.pkl" % ("_".join(str(x) for x in spec), comp, level))
        items.append(dict(id=i, cmd="build", spec=list(spec), comp=comp, level=level, path=str(p)))
    reps = run_items(ctx, items, 120, n_workers=4, py=core.PY_NUMPY)
    for it in items:
        if reps[it["id"]].get("cls") != "built":
            raise core.InfraError(f"could not build {it}: {reps[it['id']]}")
        valid = Path(it["path"]).read_bytes()
        payload = _decode(it["comp"], valid)
        out.append(dict(spec=it["spec"], comp=it["comp"], level=it["level"], valid=it["path"], R=len(valid), L=len(payload),
                        bytes=valid, payload=payload))
    return out


def _decoded_len(f, k):
    """Length of the pickle stream a reader gets out of the first k bytes of the file (None: CPython codec)."""
    if f["comp"] == "none":
        return k
    if f["comp"] in ("zlib", "gzip"):
        d = zlib.decompressobj(zlib.MAX_WBITS if f["comp"] == "zlib" else 31)
        try:
            return len(d.decompress(f["bytes"][:k]))
        except zlib.error:
            return None
    return None


def utf8_cuts(rng, f, thorough):
    """Truncation points whose decoded stream ends INSIDE the big string, at every alignment: in the middle of
    a multi-byte character (tag mid-char) and on a character boundary (tag char-boundary)."""
    text = _make_obj(tuple(f["spec"]))["text"].encode("utf-8")
    start = f["payload"].find(text)
    if start < 0:
        raise core.InfraError("utf8 object: encoded string not found in the pickle stream")
    end = start + len(text)
    R, want = f["R"], (24 if thorough else 10)
    cand = []
    if f["comp"] == "none":
        for _ in range(3):  # runs of consecutive offsets: every alignment of 1..4-byte characters
            a = rng.randrange(start + 1, end - 16)
            cand += list(range(a, a + 12))
        cand += [start, start + 1, start + 2, end - 1, end - 2, end - 3]
    cand += [rng.randrange(1, R) for _ in range(400)]
    mid, bnd = [], []
    for k in cand:
        d = _decoded_len(f, k)
        if d is None:
            if len(bnd) < want:
                bnd.append(["cut", k, "in-codec"])
            continue
        if start < d < end:
            if f["payload"][d] & 0xC0 == 0x80:
                if len(mid) < want * 2:
                    mid.append(["cut", k, "mid-char"])
            elif len(bnd) < want:
                bnd.append(["cut", k, "char-boundary"])
        if len(mid) >= want * 2 and len(bnd) >= want:
            break
    return mid + bnd


def find_aligned(ctx, joblib, comp, level, residue, blocks, seed):
    """A file of incompressible data whose length is blocks*8192 + residue (mod 8192 = residue)."""
    import io

    target = blocks * 8192 + residue
    n = max(16, target - 120)
    seen = set()
    for _ in range(40):
        if n in seen:
            n += 1
            continue
        seen.add(n)
        b = io.BytesIO()
        joblib.dump(_make_obj(("rand", n, seed)), b, compress=(comp, level))
        R = len(b.getvalue())
        if R == target:
            f = build_file(ctx, joblib, ("rand", n, seed), comp, level)
            f["family"], f["residue"] = "aligned", residue
            return f
        n = max(16, n + (target - R))
    raise core.InfraError(f"no payload length gives a {comp} file of {target} bytes")


def damages_for(rng, f, thorough, exhaustive_limit):
    R = f["R"]
    out = []
    fam = f.get("family")
    if fam == "aligned":
        # the compressed stream ends `residue` bytes after a raw-block boundary: the last 8192-byte block holds
        # (part of) the checksum trailer only, i.e. a decompress() call that returns no data
        cand = {0, 1, R // 2, rng.randrange(R), rng.randrange(R)} | {R - i for i in range(1, 14)}
        for k in range(1, R // 8192 + 2):
            cand |= {8192 * k - 2, 8192 * k - 1, 8192 * k, 8192 * k + 1, 8192 * k + 2}
        cuts = sorted(c for c in cand if 0 <= c < R)
    elif R <= exhaustive_limit:
        cuts = list(range(R))
    else:
        cand = {0, 1, 2, 3, 4, 5, 6, 9, 10, 11, R - 1, R - 2, R - 3, R - 4, R - 5, R - 8, R - 9, R - 12, R // 2, R // 3}
        for k in range(1, R // 8192 + 2):
            cand |= {8192 * k - 1, 8192 * k, 8192 * k + 1}
        for _ in range(40 if thorough else 8):
            cand.add(rng.randrange(R))
        cuts = sorted(c for c in cand if 0 <= c < R)
    out += [["cut", k] for k in cuts]
    if fam == "utf8":
        out += utf8_cuts(rng, f, thorough)
    sufs = [("X", b"X"), ("zero1", b"\0"), ("zero5", b"\0" * 5), ("rand3", rng.randbytes(3)), ("rand16", rng.randbytes(16)),
            ("second-stream", f["bytes"])]
    to_block = (-R) % 8192
    for d in ((to_block - 1, to_block, to_block + 1) if thorough else (to_block + 1,)):
        if d > 0:
            sufs.append((f"cross-block+{d}", rng.randbytes(d)))
    if thorough:
        sufs += [("rand%d" % n, rng.randbytes(n)) for n in (1, 2, 7, 8, 9, 64, 8193)]
        sufs.append(("newline", b"\n"))
        sufs.append(("stop-opcode", b"."))
    out += [["ext", name, s.hex()] for name, s in sufs]
    return out


def damaged_bytes(f, dmg):
    return f["bytes"][: dmg[1]] if dmg[0] == "cut" else f["bytes"] + bytes.fromhex(dmg[2])


def zlib_table(data):
    """What CPython's zlib does on `data` fed in 8192-byte blocks: (table 'fed:out' list, E or None, ok)."""
    if data[:1] == b"\x78":
        wbits = zlib.MAX_WBITS
    elif data[:2] == b"\x1f\x8b":
        wbits = 31
    else:
        return None
    d = zlib.decompressobj(wbits)
    total, fed, E = 0, 0, None
    table = ["0:0"]
    K = len(data)
    try:
        while fed < K:
            block = data[fed:fed + 8192]
            if not d.eof:
                total += len(d.decompress(block))
                if d.eof:
                    E = fed + len(block) - len(d.unused_data)
            fed += len(block)
            table.append(f"{fed}:{total}")
    except zlib.error:
        return "zlib-error"
    return table, E


def driver_line(f, dmg, variant="new"):
    data = damaged_bytes(f, dmg)
    K = len(data)
    first = data[:8].hex() or "-"
    t = zlib_table(data)
    if t == "zlib-error":
        return None
    table, E = t if t else ([], None)
    return " ".join(["load", variant, first, f["comp"], str(K), str(f["R"]), str(f["L"]), "-" if E is None else str(E)] + table)


# ----------------------------------------------------------------------------- the exploration


def file_plan(ctx, salt):
    """(spec, comp, level) triples. Quick: small objects for every compressor (exhaustive truncation) + two
    multi-block ones."""
    rng = ctx.rng(salt + "/plan")
    plan = []
    small = [("dict",), ("int",)]
    for spec in small:
        for comp in COMPRESSORS:
            lv = 3 if comp != "none" else 0
            plan.append((spec, comp, lv))
    for comp in ("zlib", "gzip"):
        plan.append((("dict",), comp, rng.choice([1, 2, 4, 5, 6, 7, 8, 9])))
    big = [("rand", 20000, rng.randrange(1000)), ("rep", 20000)]
    if ctx.thorough:
        big += [("rand", 70000, rng.randrange(1000)), ("str", 600000), ("rand", 300000, 5)]
    for spec in big:
        for comp in COMPRESSORS:
            lv = (rng.choice([1, 3, 6, 9]) if comp in ("zlib", "gzip", "bz2") else 3) if comp != "none" else 0
            plan.append((spec, comp, lv))
    # large non-ASCII strings (written outside the pickle frames): a cut can split a multi-byte character
    u8 = [("utf8", "mixed", 40000, rng.randrange(1000)), ("utf8", "\u00e9", 40000, 0)]
    if ctx.thorough:
        u8 += [("utf8", "\u6f22", 30000, 0), ("utf8", "\U0001d11e", 20000, 0), ("utf8", "mixed", 120000, 7)]
    for spec in u8:
        for comp in (COMPRESSORS if ctx.thorough else ("none", "zlib", "gzip")):
            if spec[1] != "mixed" and comp != "none" and not ctx.thorough:
                continue  # a repeated character compresses to a few hundred bytes: nothing to cut inside
            plan.append((spec, comp, 3 if comp != "none" else 0))
    # block-boundary-aligned zlib/gzip files: the stream ends 0..9 bytes after (or 1 byte before) a raw-block boundary
    for comp in ("zlib", "gzip"):
        for residue in (0, 1, 2, 3, 4, 5, 6, 7, 8, 9, 8191):
            blocks = (rng.choice([1, 1, 2]) if not ctx.thorough else rng.choice([1, 2, 3, 5])) - (1 if residue == 8191 else 0)
            plan.append((("align", residue, max(blocks, 0 if residue == 8191 else 1), rng.randrange(1000)), comp, rng.choice([1, 3, 6, 9])))
    # numpy arrays: the array bytes sit inside the stream and are fetched with `_read_bytes`
    nps = [("np", "int64", 9, 1), ("np", "float64", 3000, 2)]
    if ctx.thorough:
        nps += [("np", "uint8", 0, 0), ("np", "int16", 20001, 3)]
    for spec in nps:
        for comp in COMPRESSORS:
            plan.append((spec, comp, 3 if comp != "none" else 0))
    return plan


def _kind(dmg):
    return "truncated" if dmg[0] == "cut" else "trailing-bytes"


def _case(f, dmg, route):
    return dict(spec=f["spec"], comp=f["comp"], level=f["level"], damage=dmg if dmg[0] == "cut" else [dmg[0], dmg[1], dmg[2][:64] + ("…" if len(dmg[2]) > 64 else "")],
                damage_full=dmg if len(str(dmg)) < 50000 else None, route=route, valid_len=f["R"], payload_len=f["L"])


def _explore(ctx, salt, plan=None, only=None, budget_scale=1):
    joblib = core.use_repo()
    res = Result()
    res.rule = ("one evaluation = one damaged file loaded through one route in a watched subprocess; files: every compressor "
                "(zlib gzip bz2 lzma xz none) x small objects (every truncation length) and multi-block objects (boundary-biased "
                "lengths), zlib/gzip files whose length is 0..9 or 8191 mod 8192 (the last raw block holds only checksum-trailer bytes), large non-ASCII strings cut in the middle of a multi-byte character, numpy arrays, garbage/zero/second-stream suffixes; legacy formats (ZF z-files with narrow and wide header at every truncation length, multi-file sample pickles with a damaged main file or companion); one evaluation = also one forced interleaving of two callers of one damaged cache entry, and one int(bytes, 16) comparison; non-trivial = the damaged file differs from the valid one and is "
                "non-empty; distinct by (object, compressor, level, damage, route)")
    rng = ctx.rng(salt)
    watchdog = 60 if ctx.thorough else 20
    files, items, meta = [], [], {}
    plan = plan if plan is not None else file_plan(ctx, salt)
    (ctx.scratch / "c14_worker.py").write_text(WORKER_SRC)
    for spec, comp, level in plan:
        if spec[0] == "align":
            files.append(find_aligned(ctx, joblib, comp, level, spec[1], spec[2], spec[3]))
        elif spec[0] != "np":
            files.append(build_file(ctx, joblib, tuple(spec), comp, level))
            if spec[0] == "utf8":
                files[-1]["family"] = "utf8"
    files += build_files_np(ctx, [t for t in plan if t[0][0] == "np"])
    for f in files:
        if f.get("family") == "aligned":
            res.count("aligned: file length mod 8192 = %d" % f["residue"])
    # smallest, most telling cases first: they become the replay of a finding
    order = []
    for f in files:
        dmgs = only[1] if only else damages_for(rng, f, ctx.thorough, 400 * budget_scale)
        for dmg in dmgs:
            routes = only[2] if only else ["fileobj", "path", "memory"] + (["zread"] if f["comp"] in ("zlib", "gzip") else [])
            if f["R"] > 400 and dmg[0] == "cut" and not only:
                # big files: every route on the boundary cuts, but keep the slow Memory route for a third of them
                if rng.random() < 0.6 and "memory" in routes:
                    routes = [r for r in routes if r != "memory"]
            for route in routes:
                if route == "zread" and zlib_table(damaged_bytes(f, dmg)) is None:
                    continue  # no longer detected as zlib/gzip: joblib would not open it with BinaryZlibFile
                order.append((f, dmg, route))
    order.sort(key=lambda t: (t[1][0] == "cut", t[0]["R"], len(str(t[1])), t[2] != "fileobj"))
    for i, (f, dmg, route) in enumerate(order):
        items.append(dict(id=i, spec=f["spec"], comp=f["comp"], level=f["level"], valid=f["valid"], damage=dmg, route=route))
        if route == "memory":
            # the damaged entry as a whole: an argument whose repr holds braces, metadata.json missing / torn as well
            rr = random.Random(f"{ctx.seed}/memvar/{i}")
            items[-1]["tag"] = only[3] if only and len(only) > 3 else rr.choice([0, 0, 1, 2, 3, 4])
            items[-1]["meta"] = only[4] if only and len(only) > 4 else rr.choice(["keep", "keep", "missing", "prefix", "empty"])
            res.count("memory-route:arg=%s:metadata=%s" % ("plain" if not items[-1]["tag"] else "braces", items[-1]["meta"]))
        meta[i] = (f, dmg, route)
    t0 = time.time()
    plain = [it for it in items if it["spec"][0] != "np"]
    withnp = [it for it in items if it["spec"][0] == "np"]
    replies = {}
    both = [None, None]

    def pool(k, its, py, nw):
        try:
            both[k] = run_items(ctx, its, watchdog, n_workers=nw, py=py) if its else {}
        except Exception as e:  # noqa: BLE001
            both[k] = e

    ths = [threading.Thread(target=pool, args=(0, plain, core.PY, 8)), threading.Thread(target=pool, args=(1, withnp, core.PY_NUMPY, 8))]
    for t in ths:
        t.start()
    for t in ths:
        t.join()
    for b in both:
        if isinstance(b, Exception):
            raise b if isinstance(b, core.InfraError) else core.InfraError(repr(b))
        replies.update(b)

    # model: one request per distinct damaged file
    lines, keys = [], {}
    for i, (f, dmg, route) in meta.items():
        key = (f["valid"], json.dumps(dmg))
        if key not in keys:
            ln = driver_line(f, dmg)
            keys[key] = None if ln is None else len(lines)
            if ln is not None:
                lines.append(ln)
    t1 = time.time()
    model = _drive(ctx, lines)
    res.extra["model_wall_s"] = round(time.time() - t1, 2)

    # what the model of the UNCHANGED `_fill_buffer` (rawSourceOld, theorem C14.old_read_diverges) says about the hangs
    hang_keys = sorted({(meta[i][0]["valid"], json.dumps(meta[i][1])) for i, r in replies.items()
                        if r["cls"] == "hang" and keys.get((meta[i][0]["valid"], json.dumps(meta[i][1]))) is not None})[:300]
    by_valid = {f["valid"]: f for f in files}
    old_lines = [driver_line(by_valid[v], json.loads(d), "old") for v, d in hang_keys]
    old_model = dict(zip(hang_keys, _drive(ctx, old_lines))) if old_lines else {}

    slow = 0.0
    for i, (f, dmg, route) in meta.items():
        rep = replies.get(i)
        if rep is None:
            raise core.InfraError(f"no reply for case {i}")
        if rep["cls"] == "skipped":
            res.count("skipped-after-repeated-watchdog-expiry")
            continue
        if rep["cls"] == "infra":
            raise core.InfraError(f"worker: {rep.get('detail')} on {_case(f, dmg, route)}")
        case = _case(f, dmg, route)
        if route == "memory":
            case["tag"], case["meta"] = items[i].get("tag", 0), items[i].get("meta", "keep")
        kind = _kind(dmg)
        res.evaluations += 1
        res.count(f"comp={f['comp']}")
        res.count(f"route={route}")
        res.count(f"damage={kind}")
        if dmg[0] == "cut" and len(dmg) > 2:
            res.count("utf8-cut=" + dmg[2])
        res.count("size=" + ("small" if f["R"] <= 400 else "multi-block" if f["R"] > 8192 else "one-block"))
        res.count(f"impl={rep['cls']}" + (":" + rep.get("exc", "") if rep["cls"] == "raises" else ""))
        if rep["cls"] != "hang":
            slow = max(slow, rep["secs"])
        data_len = dmg[1] if dmg[0] == "cut" else f["R"] + len(dmg[2]) // 2
        if data_len > 0:
            res.nontrivial.add((tuple(f["spec"]), f["comp"], f["level"], json.dumps(dmg), route))
        res.sample(dict(case=case, impl=rep["cls"]))
        mi = keys[(f["valid"], json.dumps(dmg))]
        mrep = None if mi is None else model[mi].split()
        if mrep is not None and mrep[0] == "bad-op":
            raise core.InfraError(f"driver rejected {lines[mi][:200]}")
        if mrep is None or mrep[0] == "unmodelled":
            res.count("model=unmodelled")
        # ---------------- oracle on the implementation (does not use the model)
        impl = rep["cls"]
        if impl == "hang":
            om = old_model.get((f["valid"], json.dumps(dmg)))
            rep["detail"] = "%s; model of the unchanged _fill_buffer predicts: %s" % (rep.get("detail"), om or "n/a")
            if om and om.split()[0] == "hang":
                res.count("hang-predicted-by-old-code-model")
        if route == "zread":
            if impl == "hang":
                res.fail(F7_SIGNATURE if kind == "trailing-bytes" else f"hang:{f['comp']}:{kind}", case, rep.get("detail"))
            elif impl == "stream":
                n = rep["n"]
                if n > f["L"] or zlib.adler32(f["payload"][:n]) != rep["adler"]:
                    res.fail(f"zfile-lies:{f['comp']}:{kind}", case, f"read() returned {n} bytes that are not a prefix of the payload")
            model_stream = None if mrep is None else " ".join(mrep[2:])
            impl_stream = ("stream %d" % rep["n"]) if impl == "stream" else ("stream hang" if impl == "hang" else "stream exc " + rep.get("exc", ""))
            if model_stream is not None and mrep[0] != "unmodelled":
                res.traces_validated += 1
                if model_stream != impl_stream:
                    res.diverge("zread", case, impl_stream, model_stream)
            continue
        if impl == "hang":
            res.fail(F7_SIGNATURE if (kind == "trailing-bytes" and f["comp"] in ("zlib", "gzip")) else f"hang:{f['comp']}:{kind}",
                     case, rep.get("detail"))
        elif impl == "returns-other":
            res.fail(f"lies:{f['comp']}:{kind}:{route}", case, "a different object was returned")
        elif route == "memory" and impl == "raises":
            res.fail(f"cached-call-raises:{f['comp']}:{kind}", case, rep.get("exc"))
        # ---------------- correspondence with the model
        if mrep is None or mrep[0] == "unmodelled":
            continue
        res.traces_validated += 1
        if route == "memory":
            impl_call = "hang" if impl == "hang" else ("raises" if impl == "raises" else ("recomputed" if rep.get("executed") else "served"))
            if impl == "returns-other":
                impl_call = "wrong-value"
            if impl_call not in mrep[1].split("|"):
                res.diverge("cached-call", case, impl_call, mrep[1])
        else:
            if impl not in mrep[0].split("|"):
                res.diverge("load-class", case, impl + (":" + rep.get("exc", "") if impl == "raises" else ""), mrep[0])
    res.extra["slowest_terminating_case_s"] = slow
    res.assumptions = [
        "files are written by the same joblib (dump is not under test here); plain Python objects run under /venv/bin/python, objects holding numpy arrays under python3-vt (numpy) with PYTHONPATH-free sys.path insertion of VERIF_REPO",
        f"watchdog {watchdog}s per case, address-space cap {CAP_MB} MiB per worker; slowest terminating case {slow}s",
        "payloads are < 1 MiB except the thorough tier's 1.2 MB compressible string (two BufferedReader fills); the model (lists) is quadratic in the raw size, so incompressible files stop at 300 KB",
        "legacy formats: z-files are written by numpy_pickle_compat.write_zfile of the tree under test (pickle protocol 2), the wide header of joblib <= 0.8.4 is made by inserting the extra space; multi-file pickles are the samples of joblib/test/data loaded under python3-vt",
        "two callers: threads, interleaved at the granularity of the store-backend methods (whole operations are atomic), at most three switches; call_and_shelve(...).get() on a damaged entry raises on the unchanged tree: reported under the single signature shelved-reference:get-raises-on-damaged-entry (known finding F59); a lying or hanging shelved path keeps its own signature",
    ]
    if only is None:
        _explore_legacy(ctx, salt, res)
        _explore_race(ctx, salt, res)
    return res


# ----------------------------------------------------------------------------- legacy formats (joblib < 0.10)

LEGACY_SAMPLES = [
    # (main file, companions) in joblib/test/data of the tree under test: old multi-file pickles with .npy companions,
    # ZF-compressed pickles, ZF-compressed pickle with .npy.z companions
    ("joblib_0.9.2_pickle_py35_np19.pkl", ["_01.npy", "_02.npy", "_03.npy", "_04.npy"]),
    ("joblib_0.9.2_compressed_pickle_py35_np19.gz", []),
    ("joblib_0.9.4.dev0_compressed_cache_size_pickle_py35_np19.gz", ["_01.npy.z", "_02.npy.z", "_03.npy.z"]),
    ("joblib_0.9.2_pickle_py34_np19.pkl", ["_01.npy", "_02.npy", "_03.npy", "_04.npy"]),
    ("joblib_0.9.2_compressed_pickle_py34_np19.gz", []),
]


def _legacy_cuts(rng, R, thorough, exhaustive_limit=200):
    if R <= exhaustive_limit:
        cuts = list(range(R))
    else:
        cand = {0, 1, 2, 3, 4, 11, 20, 21, 22, 23, 24, 30, R - 1, R - 2, R - 3, R - 4, R - 5, R - 9, R // 2, R // 3}
        for k in range(1, R // 65536 + 2):
            cand |= {21 + 65536 * k - 1, 21 + 65536 * k, 21 + 65536 * k + 1, 65536 * k}
        for _ in range(30 if thorough else 6):
            cand.add(rng.randrange(R))
        cuts = sorted(c for c in cand if 0 <= c < R)
    return [["cut", k] for k in cuts]


def _zdec(b):
    try:
        return "ok:%d" % len(zlib.decompress(b))
    except zlib.error:
        return "err"


def zfile_line(data, L):
    return "zfile %s %d %s %s %d" % (data[:22].hex() or "-", len(data), _zdec(data[21:]), _zdec(data[22:]), L)


def _explore_legacy(ctx, salt, res, only=None):
    """Every on-disk format `joblib.load` still accepts: ZF z-files written by `numpy_pickle_compat.write_zfile`
    (narrow header and the wide one of joblib <= 0.8.4), and the sample files of joblib/test/data (multi-file pickles
    with .npy / .npy.z companions) — the main file or one companion cut at every / boundary-biased length or extended."""
    import io
    import pickle

    joblib = core.use_repo()
    from joblib import numpy_pickle_compat as npc

    rng = ctx.rng(salt + "/legacy")
    watchdog = 60 if ctx.thorough else 20
    sets = []  # dict(kind, files{rel: path}, main, spec, level, wide, zf_targets{rel: L})
    if only is None or only.get("kind") == "zf":
        if only is not None:
            zplan = [(tuple(only["spec"]), only["level"], only["wide"])]
        else:
            zplan = [(("dict",), 3, False), (("dict",), rng.choice([1, 6, 9]), True), (("int",), 3, False),
                     (("rep", 20000), rng.choice([1, 3, 9]), rng.random() < 0.5), (("rand", 20000, rng.randrange(1000)), 3, False)]
            if ctx.thorough:
                zplan += [(("rand", 70000, rng.randrange(1000)), 1, False), (("rand", 200000, 3), 6, True), (("str", 600000), 9, False)]
        for spec, level, wide in zplan:
            pk = pickle.dumps(_make_obj(spec), protocol=2)
            b = io.BytesIO()
            npc.write_zfile(b, pk, compress=level)
            data = b.getvalue()
            if wide:
                data = data[:21] + b" " + data[21:]
            name = "legacy-%s-%d-%s.pkl" % ("_".join(str(x) for x in spec), level, "wide" if wide else "narrow")
            (ctx.scratch / name).write_bytes(data)
            sets.append(dict(kind="zf", files={"main.pkl": str(ctx.scratch / name)}, main="main.pkl", spec=list(spec), level=level,
                             wide=wide, zf={"main.pkl": len(pk)}, np=False))
    if only is None or only.get("kind") == "sample":
        ddir = core.REPO / "joblib" / "test" / "data"
        for main, comps in LEGACY_SAMPLES:
            if only is not None and only.get("sample") != main:
                continue
            if only is None and not ctx.thorough and main.endswith("py34_np19.pkl"):
                continue
            files = {main: str(ddir / main)}
            for c in comps:
                files[main + c] = str(ddir / (main + c))
            if not all(Path(p).exists() for p in files.values()):
                res.count("legacy-sample-missing")
                continue
            zf = {}
            for rel, pth in files.items():
                raw = Path(pth).read_bytes()
                if raw[:2] == b"ZF":
                    try:
                        zf[rel] = len(zlib.decompress(raw[22:] if raw[21:22] == b" " else raw[21:]))
                    except zlib.error:
                        pass
            sets.append(dict(kind="sample", sample=main, files=files, main=main, spec=None, level=None, wide=None, zf=zf, np=True))
    items, meta = [], {}
    for st in sets:
        for rel, pth in st["files"].items():
            raw = Path(pth).read_bytes()
            R = len(raw)
            if only is not None:
                if rel != only["target"]:
                    continue
                dmgs = [only["damage_full"]]
            else:
                dmgs = _legacy_cuts(rng, R, ctx.thorough, 200 if st["kind"] == "zf" and (ctx.thorough or not st["wide"]) else 0)
                sufs = [("X", b"X"), ("zero5", b"\0" * 5), ("rand16", rng.randbytes(16)), ("second-stream", raw)]
                if ctx.thorough:
                    sufs += [("space", b" "), ("rand64", rng.randbytes(64)), ("newline", b"\n")]
                dmgs += [["ext", n, x.hex()] for n, x in sufs]
            for n, dmg in enumerate(dmgs):
                if only is not None:
                    routes = [only["route"]]
                else:
                    routes = ["path"] + (["zfread"] if rel in st["zf"] else [])
                    if len(routes) == 2 and dmg[0] == "cut" and dmg[1] > 24 and R <= 200 and not ctx.thorough:
                        routes = [routes[n % 2]]     # past the header: the two routes alternate
                    if st["kind"] == "zf" and n % 6 == 0:
                        routes.append("fileobj")
                    if st["kind"] == "zf" and n % 9 == 0:
                        routes.append("memory")
                for route in routes:
                    i = len(items)
                    comp = "legacy-" + st["kind"]
                    if route == "memory":
                        # a cache entry whose output.pkl is the damaged legacy file of the value
                        items.append(dict(id=i, spec=st["spec"], comp="none", level=0, valid=pth, damage=dmg, route="memory", legacy=True,
                                          tag=0, meta="keep"))
                    else:
                        items.append(dict(id=i, cmd="legacy", comp=comp, files=st["files"], main=st["main"], target=rel, spec=st["spec"],
                                          damage=dmg, route=route))
                    meta[i] = (st, rel, raw, dmg, route)
    plain = [it for it in items if not meta[it["id"]][0]["np"]]
    withnp = [it for it in items if meta[it["id"]][0]["np"]]
    replies = {}
    if plain:
        replies.update(run_items(ctx, plain, watchdog, n_workers=4, py=core.PY))
    if withnp:
        replies.update(run_items(ctx, withnp, watchdog, n_workers=3, py=core.PY_NUMPY))
    # model: read_zfile / load_compatibility on every damaged ZF file
    lines, lidx = [], {}
    for i, (st, rel, raw, dmg, route) in meta.items():
        if rel in st["zf"]:
            data = raw[: dmg[1]] if dmg[0] == "cut" else raw + bytes.fromhex(dmg[2])
            ln = zfile_line(data, st["zf"][rel])
            if ln not in lidx:
                lidx[ln] = len(lines)
                lines.append(ln)
            meta[i] = (st, rel, raw, dmg, route, lidx[ln])
    # `int(field, 16)`: the cut / padded length fields that occur, and malformed ones
    hexcases = set()
    for st in sets:
        for rel in st["zf"]:
            fld = Path(st["files"][rel]).read_bytes()[2:21]
            hexcases |= {fld[:j] for j in range(20)} | {fld[j:] for j in range(1, 6)}
    alphabet = b"0123456789abcdefABCDEFxX_+- \t\n\x0b\x0c\rgG\x00."
    for _ in range(120 if not ctx.thorough else 1500):
        hexcases.add(bytes(rng.choice(alphabet) for _ in range(rng.choice([0, 1, 2, 3, 4, 5, 8, 19]))))
    hexcases = sorted(hexcases)
    model = _drive(ctx, lines + ["hexint " + (h.hex() or "-") for h in hexcases])
    for h, m in zip(hexcases, model[len(lines):]):
        try:
            py = "int %d" % int(h, 16)
        except ValueError:
            py = "ValueError"
        res.evaluations += 1
        res.traces_validated += 1
        res.count("hexint=" + py.split()[0])
        if py != m:
            res.diverge("hexint", dict(family="hexint", bytes=h.hex()), py, m)
    for i, t in meta.items():
        st, rel, raw, dmg, route = t[:5]
        rep = replies.get(i)
        if rep is None:
            raise core.InfraError(f"no reply for legacy case {i}")
        if rep["cls"] == "skipped":
            res.count("skipped-after-repeated-watchdog-expiry")
            continue
        if rep["cls"] == "intact-raises":
            res.count("legacy-sample-intact-file-does-not-load:" + rep.get("exc", ""))
            continue
        if rep["cls"] == "infra":
            raise core.InfraError(f"worker: {rep.get('detail')} on legacy {st.get('sample') or st['spec']} {rel} {dmg[:2]} {route}")
        kind = _kind(dmg)
        fam = "legacy-" + st["kind"]
        case = dict(family="legacy", kind=st["kind"], sample=st.get("sample"), spec=st["spec"], level=st["level"], wide=st["wide"],
                    target=rel, route=route, valid_len=len(raw), damage=dmg if dmg[0] == "cut" else [dmg[0], dmg[1], dmg[2][:64]],
                    damage_full=dmg if len(str(dmg)) < 50000 else None)
        res.evaluations += 1
        res.count("comp=" + fam)
        res.count("legacy-route=" + route)
        res.count("legacy-target=" + ("main" if rel == st["main"] else "companion"))
        res.count(f"damage={kind}")
        res.count(f"impl={rep['cls']}" + (":" + rep.get("exc", "") if rep["cls"] == "raises" else ""))
        if (dmg[1] if dmg[0] == "cut" else 1) > 0:
            res.nontrivial.add((fam, st.get("sample") or tuple(st["spec"]), st["level"], st["wide"], rel, json.dumps(dmg), route))
        res.sample(dict(case=case, impl=rep["cls"]))
        impl = rep["cls"]
        mrep = model[t[5]].split() if len(t) > 5 else None
        if mrep is not None and mrep[0] == "bad-op":
            raise core.InfraError(f"driver rejected {lines[t[5]][:200]}")
        # ---------------- oracle (does not use the model)
        if impl == "hang":
            res.fail(f"hang:{fam}:{kind}", case, rep.get("detail"))
        elif impl == "returns-other":
            res.fail(f"lies:{fam}:{kind}:{route}", case, "a different object was returned")
        elif route == "memory" and impl == "raises":
            res.fail(f"cached-call-raises:{fam}:{kind}", case, rep.get("exc"))
        elif route == "zfread" and impl == "zdata":
            full = zlib.decompress(raw[22:] if raw[21:22] == b" " else raw[21:])
            if rep["n"] != len(full) or rep["adler"] != zlib.adler32(full):
                res.fail(f"zfile-lies:{fam}:{kind}", case, f"read_zfile returned {rep['n']} bytes that are not the stored data")
        # ---------------- correspondence
        if mrep is None or route in ("memory", "fileobj"):
            res.count("model=unmodelled")   # load(<file object>) never reaches read_zfile; companions that are not z-files
            continue
        res.traces_validated += 1
        if route == "zfread":
            impl_z = ("zdata %d" % rep["n"]) if impl == "zdata" else "hang" if impl == "hang" else "exc " + rep.get("exc", "")
            if impl_z != " ".join(mrep[2:]):
                res.diverge("read_zfile", case, impl_z, " ".join(mrep[2:]))
        elif rel == st["main"] and st["kind"] == "zf":
            if impl != mrep[0]:
                res.diverge("legacy-load-class", case, impl + (":" + rep.get("exc", "") if impl == "raises" else ""), mrep[0])
        elif impl == "returns-original" and mrep[0] == "raises":
            # a sample: what is inside the z-file is not known to the model beyond its length — only "read_zfile raises
            # => load raises" is compared
            res.diverge("legacy-load-class", case, impl, mrep[0])
    return res


# ----------------------------------------------------------------------------- two callers of one damaged entry

RACE_SHELVE_STRICT = bool(os.environ.get("VERIF_C14_SHELVE_STRICT"))


def _explore_race(ctx, salt, res, only=None):
    """Two threads call the cached function on ONE damaged entry; every interleaving with at most three switches at
    the granularity of the store-backend operations (contains_item, get_metadata, load_item, clear_item, dump_item,
    store_metadata; hooks set as instance attributes) is forced. Oracle: both calls return the value."""
    joblib = core.use_repo()
    rng = ctx.rng(salt + "/race")
    # backstop only: a caller that never comes back is reported from inside the worker (scheduler wait 15 s, join 40 s);
    # one item runs up to ~200 schedules (normally 2-8 s in all)
    watchdog = 900
    if only is not None:
        plan = [(tuple(only["spec"]), only["comp"], only["level"], only["opts"], only["damage_full"], only["meta"], only.get("schedule"))]
    else:
        def opts(**kw):
            d = dict(mmap_mode=None, validation=False, precheck=False, entry="call")
            d.update(kw)
            return d
        configs = [(("dict",), "none", 0, opts(mmap_mode="r")), (("dict",), "zlib", 3, opts())]
        extra = [(("dict",), "none", 0, opts(mmap_mode="r", validation=True)), (("int",), "none", 0, opts(mmap_mode="c", precheck=True)),
                 (("dict",), "gzip", 3, opts(validation=True, precheck=True)), (("dict",), "none", 0, opts(entry="shelve")),
                 (("dict",), "bz2", 3, opts(mmap_mode="r")), (("rep", 20000), "none", 0, opts(mmap_mode="r+")),
                 (("dict",), "none", 0, opts()), (("dict",), "lzma", 3, opts(precheck=True))]
        configs += extra if ctx.thorough else [extra[rng.randrange(len(extra))]]
        plan = []
        for spec, comp, level, o in configs:
            for dk in (["cut-half"] if not ctx.thorough else ["cut-half", "cut-1", "cut-last", "ext"]):
                plan.append((spec, comp, level, o, dk, rng.choice(["keep", "keep", "missing", "prefix", "empty"]), None))
    files = {}
    items, meta = [], {}
    for spec, comp, level, o, dk, md, schedule in plan:
        key = (spec, comp, level)
        if key not in files:
            files[key] = build_file(ctx, joblib, spec, comp, level)
        f = files[key]
        R = f["R"]
        dmg = dk if isinstance(dk, list) else {"cut-half": ["cut", R // 2], "cut-1": ["cut", 1], "cut-last": ["cut", R - 1],
                                                "ext": ["ext", "X", b"X".hex()]}[dk]
        i = len(items)
        items.append(dict(id=i, cmd="race", spec=list(spec), comp=comp, level=level, valid=f["valid"], damage=dmg, meta=md, opts=o,
                          schedule=schedule, shelve_strict=RACE_SHELVE_STRICT, route="race",
                          max_schedules=None if ctx.thorough else 220))
        meta[i] = (f, dmg, o, md)
    replies = run_items(ctx, items, watchdog, n_workers=3 if not ctx.thorough else 8, py=core.PY)
    for i, (f, dmg, o, md) in meta.items():
        rep = replies[i]
        if rep["cls"] == "infra":
            raise core.InfraError(f"worker: {rep.get('detail')} on race case {items[i]}")
        okey = "mmap=%s,validation=%d,precheck=%d,entry=%s" % (o.get("mmap_mode"), o.get("validation", False), o.get("precheck", False), o.get("entry"))
        case = dict(family="race", spec=f["spec"], comp=f["comp"], level=f["level"], opts=o, damage=dmg, damage_full=dmg, meta=md,
                    valid_len=f["R"], schedule=None)
        if rep["cls"] in ("hang", "skipped"):
            if rep["cls"] == "hang":
                res.fail(f"two-callers:hang:{f['comp']}:{okey}", case, rep.get("detail"))
            continue
        res.evaluations += rep["runs"]
        res.count("two-callers:" + okey, rep["runs"])
        res.count("two-callers:distinct-operation-orders", rep["distinct"])
        res.nontrivial.add(("race", tuple(f["spec"]), f["comp"], okey, json.dumps(dmg), md))
        res.sample(dict(case=case, runs=rep["runs"], distinct_orders=rep["distinct"]))
        bad = rep.get("bad")
        if bad:
            case["schedule"] = bad["schedule"]
            worst = sorted(v for v in bad["outcome"].values() if v != "ok")
            cls = "hang" if any(v in ("hang", "sched-timeout") for v in worst) else "wrong-value" if "wrong-value" in worst else "raises"
            res.fail(f"two-callers:{cls}:{f['comp']}:{_kind(dmg)}:mmap={o.get('mmap_mode')},entry={o.get('entry')}", case,
                     dict(outcome=bad["outcome"], operations=bad["trace"]))
        bs = rep.get("bad_shelve")
        if bs and not bad:
            # F59: a reference obtained with call_and_shelve() on a damaged entry cannot recompute: .get() raises the load error
            # (one stable signature: whatever the compressor, the damage and the schedule - also with a single caller)
            case["schedule"] = bs["schedule"]
            res.fail("shelved-reference:get-raises-on-damaged-entry", case, dict(outcome=bs["outcome"], operations=bs["trace"]))
    return res


def _drive(ctx, lines, shards=8):
    if not lines:
        return []
    n = max(1, min(shards, len(lines) // 50 + 1))
    parts = [lines[i::n] for i in range(n)]
    outs = [None] * n
    errs = []

    def go(i):
        try:
            outs[i] = ctx.driver().run(parts[i], timeout=1500)
        except Exception as e:  # noqa: BLE001
            errs.append(e)

    ts = [threading.Thread(target=go, args=(i,)) for i in range(n)]
    for t in ts:
        t.start()
    for t in ts:
        t.join()
    if errs:
        raise errs[0] if isinstance(errs[0], core.InfraError) else core.InfraError(repr(errs[0]))
    out = [None] * len(lines)
    for i in range(n):
        out[i::n] = outs[i]
    return out


def run(ctx):
    if ctx.replay:
        case = ctx.replay.get("case", {})
        if case.get("family") in ("legacy", "race"):
            res = Result()
            res.rule = "replay of one %s case" % case["family"]
            if not case.get("damage_full"):
                raise core.InfraError("replay file does not carry the full damage description")
            return (_explore_legacy if case["family"] == "legacy" else _explore_race)(ctx, "replay", res, only=case)
        dmg = case.get("damage_full") or case.get("damage")
        if not dmg or any(isinstance(x, str) and x.endswith("…") for x in dmg):
            raise core.InfraError("replay file does not carry the full damage description")
        plan = [(tuple(case["spec"]), case["comp"], case["level"])]
        return _explore(ctx, "replay", plan=plan, only=(None, [dmg], [case["route"]], case.get("tag", 0), case.get("meta", "keep")))
    return _explore(ctx, "main")


def search(ctx, res):
    return _explore(ctx, "search", budget_scale=4)
