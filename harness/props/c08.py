"""C08 — joblib.hash is a deterministic, order-insensitive, type-discriminating digest.

Model: lean/JoblibModel/HashStream.lean (`encodeV H ver v`: the exact protocol-3 byte stream `Hasher` feeds
to the digest); theorems: lean/JoblibProofs/C08.lean; driver: lean/Driver/C08.lean.

Implementation side: the real `joblib.hashing.Hasher` / `joblib.hash` from VERIF_REPO.
* correspondence: `Hasher().hash(v); .stream.getvalue()` byte for byte against the model, and
  `joblib.hash(v, name) == hashlib.new(name, stream)` for md5 and sha1;
* oracle (uses no model): every value is re-hashed (a) after rebuilding all its dict/set/frozenset parts in
  reversed and shuffled insertion order, (b) from equal-but-distinct vs shared string objects, (c) in fresh
  interpreters with PYTHONHASHSEED in {0, 1, 2, random}; all digests of one value must agree; and over the whole
  generated universe two values have the same digest iff they are the same value (all pairs, by grouping).

* values with SHARED sub-objects (`["@", label, desc]` / `["r", label]`, see `aliased_family`): oracle only — the same
  determinism demands, and two values of different CONTENT (`content`: references unfolded) never have the same digest,
  whatever their sharing; plus the memo numbering of the real `Hasher` (`memo_trace`) against `HashMemo.run`.

Values are described by JSON-able `desc`s (see `build`), so that a case replays exactly, in any interpreter.
"""

import hashlib
import json
import os
import struct
import subprocess
import sys
import time

if __name__ == "__main__":  # worker mode: `python -m harness.props.c08` (fresh interpreter, given PYTHONHASHSEED)
    from harness import core
    from harness.props import c08_types as T
else:
    from .. import core
    from . import c08_types as T
import collections
import decimal
import fractions
Result = core.Result

REQUIRED_THEOREMS = [
    "C08.encode_perm_invariant",
    "C08.encode_seed_free",
    "C08.encode_set_order",
    "C08.encode_frozenset_order",
    "C08.encode_dict_order",
    "C08.encode_injective_partial",
    "C08.encode_injective_ordered_partial",
    "C08.type_discriminating_partial",
    "C08.discriminates_list_tuple",
    "C08.discriminates_set_frozenset",
    "C08.discriminates_1_1f_True",
    "C08.discriminates_str_bytes",
    "C08.old_frozenset_order_dependent_counterexample",
    "C08.fixed_frozenset_witness",
    "C08.fallback_collision_counterexample",
    "C08.fallback_collision_dict_counterexample",
    "C08.regressed_ordereddict_collision_counterexample",
    "C08.repaired_ordereddict_witness",
    "C08.pinned_ordereddict_fallback_counterexample",
    "C08.memo_indices_are_positions",
    "C08.memo_indices_distinct",
    "C08.binget_unambiguous_partial",
    "C08.reissued_index_is_ambiguous",
    "C08.pop_reissues_index_counterexample",
]
TRUSTED_EXTRA = [
    "modelled, not verified: md5/sha1 (the theorems are about the byte stream handed to the digest; 'different stream => "
    "different digest' is the collision-resistance assumption); the digest function is the parameter H of the model, and the "
    "driver is given H as a table computed by the real joblib.hash on the keys of the case",
    "modelled, not verified: CPython's pure-Python pickle._Pickler (protocol 3) is transcribed for the opcodes reached on "
    "the universe; str is modelled as its utf-8/surrogatepass bytes (code-point order = byte order of that encoding)",
    "Python's sorted() is modelled as: TypeError iff two of the keys are not comparable, else the unique sorted order "
    "(holds for hashable, NaN-free keys; validated by the correspondence on mixed-type keys)",
    "extended universe (OrderedDict, dict/list/tuple/set/frozenset subclasses, defaultdict, Counter, deque, namedtuple, enum members, "
    "Decimal, Fraction, complex, range, slice, bytearray, instances with __dict__/__slots__/__reduce__/__getstate__): oracle only, no Lean "
    "model (except the top-level OrderedDict stream, `encodeOD`); for OrderedDict the code sorts the items like a dict's, so two orders of "
    "the same items hash alike: only determinism and content discrimination are demanded of it",
    "values with SHARED sub-objects (the same tuple / list / dict / set object occurring twice, a list or dict holding itself): oracle "
    "only — digests stable under insertion order / PYTHONHASHSEED, and different CONTENT => different digest whatever the sharing; "
    "whether two values of the same content that differ in their sharing only hash alike is not demanded (on the code as it is a shared "
    "tuple changes the digest, a shared set does not).  Modelled of them: the memo numbering only (HashMemo, compared with the real "
    "Hasher.memo); the byte stream of aliased values (BINGET) is not modelled",
    "outside the universe (property statement / DESIGN C08): NaN as dict key or set element, recursive tuples, numpy arrays, "
    "arbitrary user classes",
]

RULE = ("recursive universe over None/bool/int/float/str/bytes/list/tuple/set/frozenset/dict built from a table of "
        "near-colliding leaves (1, 1.0, True, 'a', b'a', ints around 2^8/2^16/2^31/2^63/2^2040, strings around 255/256 bytes, "
        "non-ASCII, lone surrogates), containers of 0..5 parts plus lists/dicts/sets around 1000/1001/2000 items and > 256 "
        "memoised objects, mixed-type (unorderable) keys, and 'digest twins' (keys replaced by their own joblib.hash); "
        "non-trivial = the value has a container holding at least one part; distinct by canonical value (set/dict parts sorted). "
        "EXTENDED universe (oracle only, counted separately as 'oracle-only-values'): the same generator with, at every nesting position, "
        "OrderedDict / dict subclass / defaultdict / Counter / deque / list, tuple, set, frozenset subclasses / namedtuples / IntEnum, IntFlag "
        "members / Decimal / Fraction / complex / range / slice / bytearray / instances with __dict__, __slots__, __reduce__, __getstate__ "
        "(classes of harness/props/c08_types.py): values pickled through reduce, dictitems, listitems and setstate. "
        "SHARED REFERENCES (oracle only, 'oracle-only-values (shared references)'): families of one skeleton — 0..2 memoised objects, a "
        "set / frozenset / dict / subclass / OrderedDict of 1..3 memoisable elements (tuples, nested tuples, namedtuples, frozensets; orderable "
        "and digest-fallback), 0..7 more memoised objects — whose last part ranges over a reference to every object of the value (the value "
        "itself included: cyclic lists / dicts), unshared copies and changed leaves; small scope exhaustively (corpus_aliased)")

# ----------------------------------------------------------------------------- descs <-> Python values
# desc := ["N"] | ["b", bool] | ["i", "<decimal>"] | ["f", "<16 hex digits of pack('>d')>"] | ["s", "<hex utf-8 surrogatepass>"]
#       | ["y", "<hex>"] | ["l", [desc…]] | ["t", [desc…]] | ["e", [desc…]] (set) | ["z", [desc…]] (frozenset)
#       | ["d", [[kdesc, vdesc]…]]          children of e/z/d are in INSERTION order
#       | ["@", label, desc]  the object `desc`, labelled   | ["r", label]  that very object again (a reference comes after the
#         definition of its label in listed order; a labelled list / dict may hold a reference to itself)


def build(d, order=None, strings=None):
    """desc -> fresh Python value.  order: None (insertion order as listed) | "rev" | random.Random (shuffle);
    strings: None (every str/bytes a new object) | dict (equal strings share one object).
    A desc with labelled objects (`["@", name, desc]`) and references to them (`["r", name]`) denotes a value with SHARED
    sub-objects (see `aliased`); every call builds a fresh copy of the whole object graph."""
    return _build(d, order, strings, {} if aliased(d) else None)


def aliased(d):
    """Does the desc hold a labelled object or a reference?"""
    if d[0] in ("@", "r"):
        return True
    return any(aliased(c) for c in children(d))


def _inserted(items, order, env, bf):
    """The built parts of a hash container in the order in which they are to be inserted.  Without labels: permute, then
    build (as ever).  With labels every part is built in LISTED order first (a reference must come after the definition
    of its label), and the built parts are then permuted (the same permutation: it depends on the length only)."""
    if env is None:
        return [bf(x) for x in _order(items, order)]
    return _order([bf(x) for x in items], order)


def _build(d, order, strings, env):
    t = d[0]
    if t == "@":
        # a labelled object.  list / dict are registered BEFORE their parts are built: they may hold themselves
        name, inner = d[1], d[2]
        if inner[0] == "l":
            out = env[name] = []
            for x in inner[1]:
                out.append(_build(x, order, strings, env))
            return out
        if inner[0] == "d":
            out = env[name] = {}
            for k, v in _inserted(inner[1], order, env, lambda kv: (_build(kv[0], order, strings, env), _build(kv[1], order, strings, env))):
                out[k] = v
            return out
        v = env[name] = _build(inner, order, strings, env)
        return v
    if t == "r":
        if env is None or d[1] not in env:
            raise core.InfraError(f"reference to an undefined label {d[1]!r}")
        return env[d[1]]
    if t == "N":
        return None
    if t == "b":
        return bool(d[1])
    if t == "i":
        return int(d[1])
    if t == "f":
        return struct.unpack(">d", bytes.fromhex(d[1]))[0]
    if t == "s":
        if strings is not None and ("s", d[1]) in strings:
            return strings[("s", d[1])]
        v = bytes.fromhex(d[1]).decode("utf-8", "surrogatepass")
        if strings is not None:
            strings[("s", d[1])] = v
        return v
    if t == "y":
        if strings is not None and ("y", d[1]) in strings:
            return strings[("y", d[1])]
        v = bytes(bytearray.fromhex(d[1]))
        if strings is not None:
            strings[("y", d[1])] = v
        return v
    b = lambda x: _build(x, order, strings, env)  # noqa: E731
    if t == "l":
        return [b(x) for x in d[1]]
    if t == "t":
        return tuple([b(x) for x in d[1]])
    if t == "x":
        return build_x(d[1], d[2], order, strings, env)
    if t == "e":
        out = set()
        for x in _inserted(d[1], order, env, b):
            out.add(x)
        return out
    if t == "z":
        return frozenset(_inserted(d[1], order, env, b))
    if t == "d":
        out = {}
        for k, v in _inserted(d[1], order, env, lambda kv: (b(kv[0]), b(kv[1]))):
            out[k] = v
        return out
    raise core.InfraError(f"bad desc {d!r}")


# Extended universe (oracle-only, outside the Lean model's PyVal): ["x", kind, payload].  Shapes of the payload:
X_SEQ = {"dq", "lsub", "tsub", "lsub2", "tsub2", "nt_point", "nt_pair", "sl", "slots", "red", "gs"}   # [desc…], order is part of the value
X_USET = {"ssub", "zsub", "ssub2", "zsub2"}                                                        # [desc…], a hash container: order is NOT
X_PAIRS_ORD = {"od"}                                                               # [[k, v]…] OrderedDict (see `canon`)
X_PAIRS = {"dsub", "dsub2", "ddi", "ddl", "ctr"}                                          # [[k, v]…] hash containers
X_ATTRS = {"obj", "obj2"}                                                          # [[name, vdesc]…] instance __dict__
X_RAW = {"enum", "dec", "frac", "cx", "rg", "ba"}                                  # JSON scalars
X_HASHABLE = {"tsub", "tsub2", "zsub2", "nt_point", "nt_pair", "zsub", "enum", "dec", "frac", "cx", "rg", "obj", "obj2", "slots", "red", "gs"}


def _order(parts, order):
    parts = list(parts)
    if order == "rev":
        parts.reverse()
    elif order is not None:
        order.shuffle(parts)
    return parts


def build_x(kind, p, order, strings, env=None):
    b = lambda x: _build(x, order, strings, env)  # noqa: E731
    if kind in X_SEQ:
        xs = [b(x) for x in p]
        if kind == "dq":
            return collections.deque(xs)
        if kind in ("lsub", "lsub2"):
            return (T.ListSub if kind == "lsub" else T.ListSub2)(xs)
        if kind in ("tsub", "tsub2"):
            return (T.TupleSub if kind == "tsub" else T.TupleSub2)(xs)
        if kind == "nt_point":
            return T.Point(*xs)
        if kind == "nt_pair":
            return T.Pair(*xs)
        if kind == "sl":
            return slice(*xs)
        if kind == "slots":
            return T.Slots(*xs)
        if kind == "red":
            return T.Reduced(*xs)
        if kind == "gs":
            return T.Stateful(xs[0])
    if kind in X_USET:
        xs = _inserted(p, order, env, b)
        return dict(ssub=T.SetSub, ssub2=T.SetSub2, zsub=T.FrozenSub, zsub2=T.FrozenSub2)[kind](xs)
    if kind == "od":
        return collections.OrderedDict([(b(k), b(v)) for k, v in p])
    if kind in X_PAIRS:
        out = {"dsub": T.DictSub, "dsub2": T.DictSub2, "ddi": lambda: collections.defaultdict(int), "ddl": lambda: collections.defaultdict(list),
               "ctr": collections.Counter}[kind]()
        for k, v in _inserted(p, order, env, lambda kv: (b(kv[0]), b(kv[1]))):
            out[k] = v
        return out
    if kind in X_ATTRS:
        cls = T.Plain if kind == "obj" else T.Plain2
        return cls(**dict(_inserted(p, order, env, lambda nv: (nv[0], b(nv[1])))))
    if kind == "enum":
        return T.ENUMS[p]
    if kind == "dec":
        return decimal.Decimal(p)
    if kind == "frac":
        return fractions.Fraction(int(p[0]), int(p[1]))
    if kind == "cx":
        return complex(struct.unpack(">d", bytes.fromhex(p[0]))[0], struct.unpack(">d", bytes.fromhex(p[1]))[0])
    if kind == "rg":
        return range(*[int(x) for x in p])
    if kind == "ba":
        return bytearray(bytes.fromhex(p))
    raise core.InfraError(f"bad extended desc kind {kind!r}")


def children(d):
    """Child descs of a node (values and keys alike)."""
    t = d[0]
    if t in ("l", "t", "e", "z"):
        return list(d[1])
    if t == "d":
        return [x for kv in d[1] for x in kv]
    if t == "@":
        return [d[2]]
    if t == "x":
        k, p = d[1], d[2]
        if k in X_SEQ or k in X_USET:
            return list(p)
        if k in X_PAIRS or k in X_PAIRS_ORD:
            return [x for kv in p for x in kv]
        if k in X_ATTRS:
            return [v for _, v in p]
    return []


def canon(d):
    """Identity of the VALUE a desc denotes: insertion order of set/frozenset/dict parts forgotten.  For a desc with labels
    and references it is the identity of the OBJECT GRAPH (content and sharing; label names forgotten): two descs with the
    same `canon` must hash alike, and on the unchanged code sharing may legitimately change the digest."""
    return _gcanon(d) if aliased(d) else _tcanon(d)


def content(d):
    """Identity of the CONTENT of the value (what `==`, made type-strict, sees): every reference replaced by the content
    of its target.  Two values whose `content` differs must get different digests whatever their sharing; a cyclic value
    is unfolded to depth CYCLE_DEPTH (two truncated unfoldings that differ are unfoldings of different infinite trees)."""
    if not aliased(d):
        return _tcanon(d)
    env = labels(d)
    return _walk(d, env, None, CYCLE_DEPTH if _cyclic(d, env) else None)


CYCLE_DEPTH = 14


def labels(d, acc=None):
    """label -> desc of the labelled object"""
    acc = {} if acc is None else acc
    if d[0] == "@":
        acc[d[1]] = d[2]
    for c in children(d):
        labels(c, acc)
    return acc


def _refcount(d, acc):
    if d[0] == "r":
        acc[d[1]] = acc.get(d[1], 0) + 1
    for c in children(d):
        _refcount(c, acc)
    return acc


def _cyclic(d, env, inside=()):
    if d[0] == "r":
        return d[1] in inside or _cyclic(env[d[1]], env, inside + (d[1],))
    if d[0] == "@":
        inside = inside + (d[1],)
    return any(_cyclic(c, env, inside) for c in children(d))


def _gcanon(d):
    env = labels(d)
    return _walk(d, env, dict(num={}, refs=_refcount(d, {})), None)


def _walk(d, env, st, fuel):
    """st None: content (tree unfolding, cut when `fuel` nesting levels are used up); st given: the object graph, shared
    objects numbered in order of first visit.  Parts of hash containers are visited in the order of their keys' content
    (keys and elements are acyclic and pairwise different in content)."""
    if fuel is not None and fuel <= 0:
        return "…"
    nf = None if fuel is None else fuel - 1
    w = lambda x: _walk(x, env, st, nf)  # noqa: E731
    key = lambda x: _walk(x, env, None, None)  # noqa: E731
    t = d[0]
    if t in ("@", "r"):
        name = d[1]
        target = d[2] if t == "@" else env[name]
        if st is None or not st["refs"].get(name):
            return _walk(target, env, st, fuel)
        if name in st["num"]:
            return "r%d" % st["num"][name]
        st["num"][name] = n = len(st["num"])
        return "@%d:" % n + _walk(target, env, st, fuel)
    if t in ("N", "b", "i", "f", "s", "y"):
        return json.dumps(d)
    if t in ("l", "t"):
        return t + "[" + ",".join([w(x) for x in d[1]]) + "]"
    if t in ("e", "z"):
        return t + "{" + ",".join([w(x) for x in sorted(d[1], key=key)]) + "}"
    if t == "d":
        return "d{" + ",".join([w(k) + ":" + w(v) for k, v in sorted(d[1], key=lambda kv: key(kv[0]))]) + "}"
    k, p = d[1], d[2]
    if k in X_SEQ:
        return "x:" + k + "[" + ",".join([w(x) for x in p]) + "]"
    if k in X_USET:
        return "x:" + k + "{" + ",".join([w(x) for x in sorted(p, key=key)]) + "}"
    if k in X_PAIRS or k in X_PAIRS_ORD:
        return "x:" + k + "{" + ",".join([w(a) + ":" + w(b) for a, b in sorted(p, key=lambda kv: key(kv[0]))]) + "}"
    if k in X_ATTRS:
        return "x:" + k + "{" + ",".join([n + "=" + w(v) for n, v in sorted(p, key=lambda nv: nv[0])]) + "}"
    return _tcanon(d)


def _tcanon(d):
    """`canon` of a desc without labels / references (a tree)."""
    t = d[0]
    if t in ("N", "b", "i", "f", "s", "y"):
        return json.dumps(d)
    if t in ("l", "t"):
        return t + "[" + ",".join(_tcanon(x) for x in d[1]) + "]"
    if t in ("e", "z"):
        return t + "{" + ",".join(sorted(_tcanon(x) for x in d[1])) + "}"
    if t == "x":
        k, p = d[1], d[2]
        if k in X_SEQ:
            return "x:" + k + "[" + ",".join(_tcanon(x) for x in p) + "]"
        if k in X_USET:
            return "x:" + k + "{" + ",".join(sorted(_tcanon(x) for x in p)) + "}"
        if k in X_PAIRS or k in X_PAIRS_ORD:
            # OrderedDict: two orders of the same items ARE different Python values, but Hasher sorts the items of every
            # mapping it pickles (dictitems go through _batch_setitems), so they hash alike.  The property speaks of
            # dicts/sets/frozensets; for OrderedDict only determinism and CONTENT discrimination are demanded here.
            return "x:" + k + "{" + ",".join(sorted(_tcanon(a) + ":" + _tcanon(b) for a, b in p)) + "}"
        if k in X_ATTRS:
            return "x:" + k + "{" + ",".join(sorted(n + "=" + _tcanon(v) for n, v in p)) + "}"
        if k == "frac":
            # Fraction(3, 3) IS Fraction(1, 1): the constructor normalises, two spellings of one value are one value
            fr = fractions.Fraction(int(p[0]), int(p[1]))
            return "x:frac:" + json.dumps([str(fr.numerator), str(fr.denominator)])
        return "x:" + k + ":" + json.dumps(p)
    return "d{" + ",".join(sorted(_tcanon(k) + ":" + _tcanon(v) for k, v in d[1])) + "}"


def kinds(d, acc=None):
    acc = set() if acc is None else acc
    acc.add(d[0] if d[0] != "x" else "x:" + d[1])
    for c in children(d):
        kinds(c, acc)
    return acc


def extended(d):
    return any(k.startswith("x:") for k in kinds(d))


def size(d):
    return 1 + sum(size(c) for c in children(d))


def nontrivial(d):
    return len(children(d)) > 0


def tokens(obj, out):
    """Real Python value -> the driver's prefix notation, children in the object's own ITERATION order."""
    t = type(obj)
    if obj is None:
        out.append("N")
    elif t is bool:
        out.append("T" if obj else "F")
    elif t is int:
        out.append("I%d" % obj)
    elif t is float:
        out.append("D" + struct.pack(">d", obj).hex())
    elif t is str:
        out.append("S" + obj.encode("utf-8", "surrogatepass").hex())
    elif t is bytes:
        out.append("Y" + obj.hex())
    elif t in (list, tuple, set, frozenset):
        out.append({list: "L", tuple: "U", set: "E", frozenset: "Z"}[t] + str(len(obj)))
        for x in obj:
            tokens(x, out)
    elif t is dict:
        out.append("M%d" % len(obj))
        for k, v in obj.items():
            tokens(k, out)
            tokens(v, out)
    else:
        raise core.InfraError(f"value outside the universe: {t}")
    return out


# ----------------------------------------------------------------------------- implementation access


def impl_stream(joblib, v, hash_name="md5"):
    h = joblib.hashing.Hasher(hash_name=hash_name)
    digest = h.hash(v)
    return h.stream.getvalue(), digest


def h_table(joblib, obj, tab):
    """(bytes fed to md5 -> hex digest) for every dict key / set element of `obj`, as `joblib.hash` computes them:
    the table of the model's parameter H (facts about md5, obtained from the implementation's own nested `hash(k)` inputs)."""
    t = type(obj)
    if t in (list, tuple):
        for x in obj:
            h_table(joblib, x, tab)
    elif t in (set, frozenset):
        for k in obj:
            s, dg = impl_stream(joblib, k)
            tab[s.hex()] = dg
            h_table(joblib, k, tab)
    elif t is dict:
        for k, v in obj.items():
            s, dg = impl_stream(joblib, k)
            tab[s.hex()] = dg
            h_table(joblib, k, tab)
            h_table(joblib, v, tab)


class _LogMemo(dict):
    """`Pickler.memo` that records every entry made: (index issued) in the order of the `memoize` calls."""

    def __init__(self):
        super().__init__()
        self.log = []

    def __setitem__(self, k, v):
        self.log.append(v[0])
        super().__setitem__(k, v)


def memo_trace(joblib, v):
    """The memo indices the real Hasher issues while hashing `v`, in the order of issue."""
    h = joblib.hashing.Hasher()
    h.memo = _LogMemo()
    h.hash(v)
    return list(h.memo.log)


def impl_is_old(joblib):
    """Does this tree pickle a frozenset through pickle's own reduction (the pinned code) rather than a sorted wrapper?"""
    return b"builtins\nfrozenset\n" in impl_stream(joblib, frozenset())[0]


# ----------------------------------------------------------------------------- generator


def _hx(s):
    return s.encode("utf-8", "surrogatepass").hex()


def _f(x):
    return ["f", struct.pack(">d", x).hex()]


INT_LEAVES = [0, 1, -1, 2, 3, 8, 127, 128, 255, 256, 257, 65535, 65536, -255, -256, -32768, -32769, 2**31 - 1, 2**31, -(2**31),
              -(2**31) - 1, 2**32, 2**63 - 1, 2**63, -(2**63), -(2**63) - 1, 2**64, 10**30, -(10**30), 2**2031, 2**2032 - 1, 2**2039, 2**2040,
              -(2**2031), -(2**2039) - 1, -(2**2047), 2**4100]
FLOAT_LEAVES = [0.0, -0.0, 1.0, -1.0, 2.0, 1.5, 0.5, 255.0, 256.0, 1e300, -1e300, 5e-324, 2.0**31, 2.0**63, float("inf"), float("-inf"),
                3.0, 8.0, 0.1]
STR_LEAVES = ["", "a", "b", "ab", "aa", "A", "1", "1.0", "True", "None", "a\x00", "\x00", "é", "é", "€", "\U0001f600",
              "\ud800", "\udfff", "￿", "\U00010000", "x" * 255, "x" * 256, "y" * 300, "é" * 128, "_sequence"]
BYTES_LEAVES = [b"", b"a", b"b", b"ab", b"aa", b"\x00", b"\xff", b"1", b"a\x00", b"x" * 255, b"x" * 256, b"y" * 300, b"\xc3\xa9",
                b"_sequence"]


def gen_leaf(rng, hashable=False):
    r = rng.random()
    if r < 0.07:
        return ["N"]
    if r < 0.17:
        return ["b", rng.random() < 0.5]
    if r < 0.45:
        if rng.random() < 0.8:
            return ["i", str(rng.choice(INT_LEAVES[:12] if rng.random() < 0.6 else INT_LEAVES))]
        k = rng.choice([7, 8, 9, 15, 16, 17, 31, 32, 33, 63, 64, 65, 2039, 2040, 2041, 2047, 2048])
        x = rng.choice([1, -1]) * (2**k + rng.choice([-2, -1, 0, 1, 2]))
        return ["i", str(x)]
    if r < 0.6:
        if not hashable and rng.random() < 0.05:
            return ["f", rng.choice(["7ff8000000000000", "fff8000000000001", "7ff0000000000001"])]  # NaNs: never keys
        return _f(rng.choice(FLOAT_LEAVES[:8] if rng.random() < 0.6 else FLOAT_LEAVES))
    if r < 0.85:
        return ["s", _hx(rng.choice(STR_LEAVES[:8] if rng.random() < 0.65 else STR_LEAVES))]
    return ["y", rng.choice(BYTES_LEAVES[:7] if rng.random() < 0.65 else BYTES_LEAVES).hex()]


def gen_hashable(rng, depth, homog=None):
    """A desc of a hashable, NaN-free value.  homog: restrict to one comparable class ('num' | 's' | 'y')."""
    if homog == "num":
        r = rng.random()
        if r < 0.6:
            return ["i", str(rng.choice(INT_LEAVES[:14]) if rng.random() < 0.7 else rng.randint(-1000, 1000))]
        if r < 0.9:
            return _f(rng.choice(FLOAT_LEAVES[:16]))
        return ["b", rng.random() < 0.5]
    if homog == "s":
        return ["s", _hx(rng.choice(STR_LEAVES))]
    if homog == "y":
        return ["y", rng.choice(BYTES_LEAVES).hex()]
    r = rng.random()
    if rng.random() < X_RATE[0] * 0.6:
        return gen_x_hashable(rng, depth)
    if depth <= 0 or r < 0.62:
        return gen_leaf(rng, hashable=True)
    if r < 0.85:
        n = rng.choice([0, 1, 1, 2, 2, 3, 4, 5])
        return ["t", [gen_hashable(rng, depth - 1) for _ in range(n)]]
    return ["z", gen_keys(rng, depth - 1, rng.choice([0, 1, 2, 2, 3, 4]))]


ENUM_NAMES = sorted(T.ENUMS)
DEC_LEAVES = ["0", "1", "1.0", "1.5", "-1", "1E+2", "100", "0.1", "255", "Infinity"]


def gen_x_hashable(rng, depth):
    """Hashable values of the extended universe."""
    k = rng.choice(["enum", "enum", "dec", "frac", "cx", "rg", "nt_point", "nt_pair", "tsub", "tsub2", "zsub", "zsub2", "obj", "obj2", "slots",
                    "red", "gs"])
    if k == "enum":
        return ["x", k, rng.choice(ENUM_NAMES)]
    if k == "dec":
        return ["x", k, rng.choice(DEC_LEAVES)]
    if k == "frac":
        return ["x", k, [str(rng.choice([0, 1, 1, 2, 3, -1, 5])), str(rng.choice([1, 1, 2, 3]))]]
    if k == "cx":
        return ["x", k, [_f(rng.choice([0.0, 1.0, -0.0, 2.0]))[1], _f(rng.choice([0.0, 1.0, 2.0]))[1]]]
    if k == "rg":
        return ["x", k, [str(rng.choice([0, 1])), str(rng.choice([0, 1, 3, 255, 256])), str(rng.choice([1, 1, 2]))]]
    sub = lambda: gen_hashable(rng, max(depth - 1, 0))  # noqa: E731
    if k in ("nt_point", "nt_pair", "slots", "red"):
        return ["x", k, [sub(), sub()]]
    if k == "gs":
        return ["x", k, [sub()]]
    if k in ("tsub", "tsub2"):
        return ["x", k, [sub() for _ in range(rng.choice([0, 1, 2, 3, 4]))]]
    if k in ("zsub", "zsub2"):
        return ["x", k, gen_keys(rng, max(depth - 1, 0), rng.choice([0, 1, 2, 3, 4]))]
    names = rng.sample(["a", "b", "c", "x", "_sequence", "payload"], rng.choice([0, 1, 2, 3]))
    return ["x", k, [[n, sub()] for n in names]]


def gen_x_value(rng, depth):
    """Values of the extended universe (any position that need not be hashable)."""
    r = rng.random()
    if r < 0.3:
        return gen_x_hashable(rng, depth)
    n = rng.choice([0, 1, 1, 2, 2, 3, 4])
    sub = lambda: gen_value(rng, depth - 1)  # noqa: E731
    k = rng.choice(["od", "od", "od", "dsub", "dsub", "dsub2", "ddi", "ddl", "ctr", "dq", "lsub", "lsub2", "ssub", "ssub", "ssub2", "sl", "ba", "obj",
                    "gs", "red", "slots"])
    if k in ("od", "dsub", "dsub2", "ddi", "ddl"):
        return ["x", k, [[key, sub()] for key in gen_keys(rng, depth - 1, n)]]
    if k == "ctr":
        return ["x", k, [[key, _i(rng.choice([1, 1, 2, 3, 255, 256]))] for key in gen_keys(rng, depth - 1, n)]]
    if k in ("dq", "lsub", "lsub2"):
        return ["x", k, [sub() for _ in range(n)]]
    if k in ("ssub", "ssub2"):
        return ["x", k, gen_keys(rng, depth - 1, n)]
    if k == "sl":
        return ["x", k, [rng.choice([["N"], _i(0), _i(1), _i(2)]) for _ in range(3)]]
    if k == "ba":
        return ["x", k, rng.choice(BYTES_LEAVES[:9]).hex()]
    if k == "obj":
        names = rng.sample(["a", "b", "c", "x", "_sequence"], min(n, 4))
        return ["x", k, [[nm, sub()] for nm in names]]
    if k == "gs":
        return ["x", k, [sub()]]
    return ["x", k, [sub(), sub()]]


def gen_keys(rng, depth, n):
    """n descs of pairwise non-equal (Python ==) hashable values."""
    mode = rng.random()
    homog = None
    if mode < 0.45:
        homog = rng.choice(["num", "num", "s", "y"])
    elif mode < 0.6:
        homog = "tuple"
    seen, out = set(), []
    tries = 0
    while len(out) < n and tries < 10 * n + 20:
        tries += 1
        if homog == "tuple":
            d = ["t", [gen_hashable(rng, 0, "num") for _ in range(rng.choice([1, 2, 2, 3]))]]
            r = rng.random()
            if r < 0.15:
                d = ["t", [gen_hashable(rng, depth - 1) for _ in range(rng.choice([1, 2, 3]))]]
            elif r < 0.35:  # tuples holding frozensets: `<` on them is only a partial order
                d = ["t", [gen_hashable(rng, 0, "num") for _ in range(rng.choice([0, 1]))]
                     + [["z", gen_keys(rng, 0, rng.choice([1, 2, 3]))]]]
        else:
            d = gen_hashable(rng, depth, homog)
        v = build(d)
        if v in seen:
            continue
        seen.add(v)
        out.append(d)
    return out


X_RATE = [0.0]  # probability of an extended (oracle-only) node at a position; set per generated value


def gen_value(rng, depth):
    r = rng.random()
    if rng.random() < X_RATE[0]:
        return gen_x_hashable(rng, depth) if depth <= 0 else gen_x_value(rng, depth)
    if depth <= 0 or r < 0.3:
        return gen_leaf(rng)
    n = rng.choice([0, 1, 1, 2, 2, 3, 3, 4, 5])
    if r < 0.45:
        return ["l", [gen_value(rng, depth - 1) for _ in range(n)]]
    if r < 0.58:
        return ["t", [gen_value(rng, depth - 1) for _ in range(n)]]
    if r < 0.71:
        return ["e", gen_keys(rng, depth - 1, n)]
    if r < 0.84:
        return ["z", gen_keys(rng, depth - 1, n)]
    return ["d", [[k, gen_value(rng, depth - 1)] for k in gen_keys(rng, depth - 1, n)]]


def _i(x):
    return ["i", str(x)]


def _s(x):
    return ["s", _hx(x)]


CORPUS = [
    # the statement's own pairs, and the confirmed failing inputs first (F6, F12)
    _i(1), _f(1.0), ["b", True], _s("a"), ["y", b"a".hex()], ["t", [_i(1)]], ["l", [_i(1)]], ["e", [_i(1)]], ["z", [_i(1)]],
    ["t", []], ["l", []], ["e", []], ["z", []], ["d", []], ["N"], ["b", False], _i(0), _f(0.0), _f(-0.0),
    ["z", [_s("a"), _s("b"), _s("c"), _s("d")]], ["z", [_i(0), _i(8)]], ["z", [_i(8), _i(0)]], ["e", [_i(0), _i(8)]],
    ["e", [_i(1), _i(2)]], ["z", [_i(1), _i(2)]],
    ["e", [["z", [_i(1)]], ["z", [_i(2)]]]], ["d", [[["z", [_s("a")]], _i(1)], [["z", [_s("b")]], _i(2)]]],
    ["e", [["t", [["z", [_i(1)]], _i(1)]], ["t", [["z", [_i(2)]], _i(1)]]]],
    ["e", [["t", [["z", [_s("a")]]]], ["t", [["z", [_s("b")]]]], ["t", [["z", [_s("c")]]]], ["t", [["z", [_s("d")]]]]]],
    ["d", [[["t", [_i(1), ["z", [_s(c)]]]], _i(0)] for c in "abcdef"]],
    ["z", [["t", [["z", [_s(c), _s("x")]]]] for c in "abcdef"]],
    ["e", [["z", [["z", [_s(c)]]]] for c in "abcdef"]],
    ["l", [["z", []], ["z", []]]], ["l", [["z", [_i(1)]], ["e", [_i(1)]], ["z", [_i(2)]], ["e", [_i(2)]]]],
    ["d", [[_i(1), _s("x")], [_s("a"), _s("y")]]], ["e", [_i(1), _s("a")]], ["e", [["N"], _i(1)]], ["e", [["N"]]],
    ["e", [_s("a"), ["y", b"a".hex()]]], ["d", [[["t", [_i(1), _s("a")]], _i(0)], [["t", [_i(1), _i(2)]], _i(0)]]],
    ["d", [[["t", [_i(1), _s("a")]], _i(0)], [["t", [_i(2), _i(2)]], _i(0)]]],
    ["d", [[["t", [["N"], _i(1)]], _i(0)], [["t", [["N"], _i(2)]], _i(0)]]],
    ["e", [_i(1), _f(2.5), ["b", False], _f(float("inf")), _f(float("-inf")), _i(2**70), _f(2.0**70 * 1.5)]],
    ["e", [_i(2**53 + 1), _f(2.0**53)]], ["e", [_i(2**53), _f(2.0**53 + 2)]],
    ["l", [_s("aa"), _s("aa"), _s("aa")]], ["l", [["y", b"aa".hex()], ["y", b"aa".hex()]]],
    ["l", [["t", [_i(1)]], ["t", [_i(1)]]]], ["t", [_i(1), _i(2), _i(3)]], ["t", [_i(1), _i(2), _i(3), _i(4)]],
    ["l", [["t", [_i(1), _i(2), _i(3), _i(4)]]]], ["l", [_i(1), _i(2), _i(3), _i(4)]],
    ["d", [[_i(1), _i(2)]]], ["d", [[_i(1), _i(2)], [_i(3), _i(4)]]], ["d", [[_s("a"), ["d", [[_s("b"), ["e", [_i(1), _s("x")]]]]]]]],
    ["l", [_f(float("nan")), ["f", "7ff8000000000001"]]],
]


def big_values(rng, thorough):
    out = []
    for n in ([999, 1000, 1001, 2000] if not thorough else [999, 1000, 1001, 1999, 2000, 2001, 3000]):
        out.append(["l", [_i(rng.choice([0, 1, 255, 256, 70000])) for _ in range(n)]])
    for n in [1000, 1001, 2000]:
        keys = rng.sample(range(-3000, 3000), n)
        out.append(["d", [[_i(k), _i(0)] for k in keys]])
        out.append(["e", [_i(k) for k in keys]])
    out.append(["z", [_i(k) for k in rng.sample(range(5000), 1001)]])
    # mixed keys, > 1000 of them: the digest fallback and the batching together
    out.append(["e", [_i(k) for k in range(600)] + [_s(str(k)) for k in range(601)]])
    out.append(["d", [[_i(k), _i(k)] for k in range(600)] + [[_s(str(k)), _i(k)] for k in range(601)]])
    # mixed keys, a few dozen: digests sharing a short prefix are likely among them
    for n in (20, 60):
        ks = rng.sample(range(-500, 500), n)
        out.append(["d", [[_i(k) if j % 2 else _s(str(k)), ["N"]] for j, k in enumerate(ks)]])
        out.append(["z", [_i(k) if j % 3 else ["y", str(k).encode().hex()] for j, k in enumerate(ks)]])
    # more than 256 memoised objects: LONG_BINPUT / LONG_BINGET
    out.append(["l", [["l", []] for _ in range(300)]])
    out.append(["l", [["t", [_i(k)]] for k in range(300)]])
    out.append(["l", [["e", [_i(k)]] for k in range(90)] + [["z", [_i(k)]] for k in range(90)]])
    out.append(["l", [["l", []] for _ in range(256)] + [["e", [_i(1)]], ["e", [_i(2)]], ["z", []], ["z", [_s("a")]]]])
    out.append(["l", [["l", []] for _ in range(250)] + [["e", [_i(1)]], ["e", [_i(2)]], ["z", []], ["z", [_s("a")]]]])
    return out


def digest_twin(joblib, d, rng):
    """The value with the keys / elements of ONE dict/set/frozenset node replaced by the strings joblib.hash(key)
    (F12: on the md5 fallback path the two have the same stream).  None when `d` has no such node."""
    t = d[0]
    if t in ("e", "z", "d") and d[1] and rng.random() < 0.8:
        if t == "d":
            return ["d", [[_s(joblib.hash(build(k))), v] for k, v in d[1]]]
        return [t, [_s(joblib.hash(build(k))) for k in d[1]]]
    if t in ("l", "t"):
        idx = list(range(len(d[1])))
        rng.shuffle(idx)
        for i in idx:
            tw = digest_twin(joblib, d[1][i], rng)
            if tw is not None:
                return [t, d[1][:i] + [tw] + d[1][i + 1:]]
    if t == "d":
        for i, (k, v) in enumerate(d[1]):
            tw = digest_twin(joblib, v, rng)
            if tw is not None:
                return ["d", d[1][:i] + [[k, tw]] + d[1][i + 1:]]
    return None


def _x(kind, payload):
    return ["x", kind, payload]


def corpus_x():
    """Near-colliding values of the extended universe: empty vs non-empty, one item / one key changed, same content in
    another type.  First the inputs of F40 (the one-shot item iterator of OrderedDict / dict subclasses)."""
    a1, a2, b1 = [_s("a"), _i(1)], [_s("a"), _i(2)], [_s("b"), _i(1)]
    mixed = [[_i(1), _s("x")], [_s("a"), _s("y")]]
    fz = [[["z", [_s("k")]], _i(1)], [["z", [_s("j")]], _i(2)]]
    out = []
    for kind in ("od", "dsub", "ddi", "ddl", "dsub2"):
        out += [_x(kind, []), _x(kind, [a1]), _x(kind, [a2]), _x(kind, [b1]), _x(kind, [a1, b1]), _x(kind, [b1, a1]), _x(kind, mixed),
                _x(kind, [mixed[1], mixed[0]]), _x(kind, [[_i(1), _s("x")]]), _x(kind, fz), _x(kind, [fz[0]]),
                ["l", [_x(kind, [a1]), _x(kind, [a2])]], ["d", [[_s("k"), _x(kind, [a1])]]], ["d", [[_s("k"), _x(kind, [])]]]]
    out += [["d", [a1]], ["d", [a1, b1]], ["d", mixed]]
    out += [_x("ctr", []), _x("ctr", [a1]), _x("ctr", [a2]), _x("ctr", [a1, b1]), _x("ctr", [[_i(1), _i(1)], [_s("a"), _i(1)]])]
    one, two = _i(1), _i(2)
    for kind, plain in (("dq", "l"), ("lsub", "l"), ("tsub", "t"), ("ssub", "e"), ("zsub", "z"), ("lsub2", "l"), ("tsub2", "t"), ("ssub2", "e"),
                        ("zsub2", "z")):
        out += [_x(kind, []), _x(kind, [one]), _x(kind, [two]), _x(kind, [one, two]), [plain, []], [plain, [one]], [plain, [one, two]],
                _x(kind, [_s("a"), _s("b"), _s("c"), _s("d")]), _x(kind, [one, _s("a")])]
    out += [_x("ssub", [["z", [_s("a")]], ["z", [_s("b")]]]), _x("zsub", [["t", [["z", [_s("a")]]]], ["t", [["z", [_s("b")]]]]]),
            ["e", [_x("zsub", [_s("a")]), _x("zsub", [_s("b")]), _x("zsub", [_s("c")])]],
            ["e", [_x("nt_point", [one, ["z", [_s("a")]]]), _x("nt_point", [one, ["z", [_s("b")]]])]],
            ["e", [_x("tsub", [["z", [_s("a")]]]), _x("tsub", [["z", [_s("b")]]])]]]
    out += [_x("nt_point", [one, two]), _x("nt_pair", [one, two]), ["t", [one, two]], _x("tsub", [one, two]), _x("nt_point", [two, one]),
            _x("slots", [one, two]), _x("red", [one, two]), _x("slots", [two, one]), _x("red", [one, one]),
            _x("gs", [one]), _x("gs", [two]), _x("gs", [["e", [_s("a"), _s("b"), _s("c")]]]),
            _x("obj", []), _x("obj2", []), _x("obj", [["a", one]]), _x("obj2", [["a", one]]), _x("obj", [["a", two]]), _x("obj", [["b", one]]),
            _x("obj", [["a", one], ["b", two]]), _x("obj", [["b", two], ["a", one]]), ["d", [[_s("a"), one]]],
            _x("obj", [["a", ["z", [_s("p"), _s("q"), _s("r")]]]]), _x("obj", [["a", _x("od", [a1])]]), _x("obj", [["a", _x("od", [])]])]
    out += [_x("enum", n) for n in ENUM_NAMES] + [_i(0), _i(1), _i(2), _i(4), _i(6), ["b", True]]
    out += [_x("dec", n) for n in DEC_LEAVES] + [_x("frac", ["1", "1"]), _x("frac", ["1", "2"]), _x("frac", ["3", "2"]), _f(1.5), _f(0.5),
                                                 _s("1.5"), _s("1")]
    out += [_x("cx", [_f(1.0)[1], _f(0.0)[1]]), _x("cx", [_f(0.0)[1], _f(1.0)[1]]), _x("cx", [_f(0.0)[1], _f(0.0)[1]]),
            _x("cx", [_f(-0.0)[1], _f(0.0)[1]]), ["t", [_f(1.0), _f(0.0)]]]
    out += [_x("rg", ["0", "3", "1"]), _x("rg", ["0", "3", "2"]), _x("rg", ["1", "3", "1"]), _x("rg", ["0", "0", "1"]),
            _x("sl", [_i(0), _i(3), _i(1)]), _x("sl", [["N"], _i(3), ["N"]]), _x("sl", [_i(0), _i(3), ["N"]]), ["t", [_i(0), _i(3), _i(1)]],
            _x("ba", ""), _x("ba", b"a".hex()), _x("ba", b"ab".hex()), ["y", b"a".hex()], ["y", ""],
            ["l", [_x("ba", b"aa".hex()), _x("ba", b"aa".hex())]], ["l", [_x("dec", "1.5"), _x("dec", "1.5")]]]
    out += [["d", [[_x("enum", "Color.RED"), _s("x")], [_x("enum", "Color.GREEN"), _s("y")]]],
            ["d", [[_x("dec", "1.5"), _s("x")], [_i(2), _s("y")], [_x("frac", ["5", "2"]), _s("z")]]],
            ["e", [_x("cx", [_f(1.0)[1], _f(1.0)[1]]), _x("cx", [_f(2.0)[1], _f(1.0)[1]]), _x("rg", ["0", "3", "1"])]],
            ["e", [_x("obj", [["a", one]]), _x("obj", [["a", two]]), _x("obj2", [["a", one]])]],
            _x("od", [[_x("obj", [["a", one]]), one], [_x("obj", [["a", two]]), two]])]
    return out


# ----------------------------------------------------------------------------- values with SHARED sub-objects (oracle only)
# The memo of the pickler is part of what `Hasher` feeds to the digest: the second occurrence of an object is written as a
# reference (BINGET <index of the first occurrence>).  Discrimination between such values rests on the memo numbering: two
# live objects must never answer to one index.  Families: ONE skeleton — some memoised objects, a hash container
# (set / frozenset / dict / their subclasses) of memoisable elements, more memoised objects, references — whose LAST part
# ranges over a reference to EVERY labelled object of the value (elements of the container, their inner tuples, the objects
# before and after it, the container, the value itself), over unshared copies of them and over changed leaves.


def _unlabel(d, env):
    """The desc of an unshared copy of the content (acyclic targets only)."""
    t = d[0]
    if t == "@":
        return _unlabel(d[2], env)
    if t == "r":
        return _unlabel(env[d[1]], env)
    if t in ("l", "t", "e", "z"):
        return [t, [_unlabel(x, env) for x in d[1]]]
    if t == "d":
        return ["d", [[_unlabel(k, env), _unlabel(v, env)] for k, v in d[1]]]
    if t == "x" and (d[1] in X_SEQ or d[1] in X_USET):
        return ["x", d[1], [_unlabel(x, env) for x in d[2]]]
    if t == "x" and (d[1] in X_PAIRS or d[1] in X_PAIRS_ORD):
        return ["x", d[1], [[_unlabel(k, env), _unlabel(v, env)] for k, v in d[2]]]
    if t == "x" and d[1] in X_ATTRS:
        return ["x", d[1], [[n, _unlabel(v, env)] for n, v in d[2]]]
    return d


TOPS = ["l", "l", "l", "t", "d", "d", "od", "obj", "dq", "lsub", "nest"]
HASH_CONTAINERS = ["e", "e", "z", "z", "d", "d", "ssub", "zsub", "dsub", "od"]


def aliased_family(rng, top=None, hc=None, n_before=None, n_after=None, elem_shapes=None, small=False):
    """-> list of descs of one family (see above).  All arguments default to random choices."""
    labs = []

    def L(desc):
        labs.append("o%d" % len(labs))
        return ["@", labs[-1], desc]

    num = lambda: gen_hashable(rng, 0, "num")  # noqa: E731
    leaf = (lambda: _i(rng.choice([0, 1, 2, 255, 256]))) if small else (lambda: gen_leaf(rng))

    def elem(i, shape):
        # the i-th key / element: memoisable, hashable, pairwise different (and ordered) by the first component
        if shape == "pair":
            return L(["t", [_i(i), num()]])
        if shape == "nested":
            return L(["t", [_i(i), L(["t", [num()]])]])
        if shape == "deep":
            return L(["t", [L(["t", [_i(i), L(["t", [num(), num()]])]]), num()]])
        if shape == "long":
            return L(["t", [_i(i), num(), num(), num()]])
        if shape == "nt":
            return L(["x", "nt_point", [_i(i), L(["t", [num()]])]])
        if shape == "fz":          # a frozenset element: the digest fallback (it is hashed on its own, with a fresh memo)
            return L(["z", [_i(i), _i(i + 100)]])
        if shape == "strtuple":    # next to int-first tuples: unorderable, the digest fallback
            return L(["t", [_s("k%d" % i), num()]])
        return L(["t", [_i(i), L(["z", [num()]])]])  # "holdsfz": the digest fallback

    def filler():
        r = rng.random()
        if r < 0.4:
            return L(["l", [leaf()]])
        if r < 0.5:
            return L(["l", []])
        if r < 0.62:
            return L(["t", [leaf()]])
        if r < 0.72:
            return L(["d", [[_s("a"), leaf()]]])
        if r < 0.82:
            return L(["l", [L(["l", [leaf()]])]])
        if r < 0.9:
            return L(["e", [_i(k) for k in rng.sample(range(6), rng.choice([1, 2]))]])
        return L(["t", [leaf(), L(["l", []])]])

    top = top or rng.choice(TOPS)
    hc = hc or rng.choice(HASH_CONTAINERS)
    n_before = rng.choice([0, 0, 0, 1, 2]) if n_before is None else n_before
    n_after = rng.choice([0, 1, 2, 3, 3, 4, 5, 6, 7]) if n_after is None else n_after
    if elem_shapes is None:
        n_el = rng.choice([1, 1, 2, 3])
        if rng.random() < 0.7:
            elem_shapes = [rng.choice(["pair", "pair", "nested", "deep", "long", "nt"]) for _ in range(n_el)]
        else:
            elem_shapes = [rng.choice(["pair", "nested", "fz", "strtuple", "holdsfz"]) for _ in range(n_el)]
    before = [filler() for _ in range(n_before)]
    elems = [elem(i + 1, sh) for i, sh in enumerate(elem_shapes)]
    if hc in ("e", "z"):
        H = L([hc, elems])
    elif hc in ("ssub", "zsub"):
        H = L(["x", hc, elems])
    elif hc == "d":
        H = L(["d", [[e, filler() if rng.random() < 0.4 else leaf()] for e in elems]])
    else:
        H = L(["x", hc, [[e, filler() if rng.random() < 0.4 else leaf()] for e in elems]])
    if rng.random() < 0.2:
        H = L(["l", [H]])
    after = [filler() for _ in range(n_after)]
    selfref = top in ("l", "d", "nest")
    targets = list(labs) + (["top"] if selfref else [])
    # (the value itself is referenced by the last part only: one back edge, the unfolding of `content` stays linear)
    middle = [["r", rng.choice(labs)] for _ in range(rng.choice([0, 0, 0, 1, 2]))] if not small else []
    parts = before + [H] + after + middle
    env = {}
    for x in parts:
        labels(x, env)
    shown = targets if len(targets) <= 12 else rng.sample(targets, 12)
    lasts = [["r", n] for n in shown]
    lasts += [_unlabel(env[n], env) for n in rng.sample(labs, min(len(labs), 1 if small else 2))]
    lasts += [leaf()]

    def wrap(ps):
        if top == "l":
            return ["@", "top", ["l", ps]]
        if top == "nest":
            return ["@", "top", ["l", [["l", ps[:-1]], ps[-1]]]]
        if top == "t":
            return ["t", ps]
        if top in ("dq", "lsub"):
            return ["x", top, ps]
        named = [["f%02d" % i, x] for i, x in enumerate(ps)]   # sorted order of the names = the listed order
        if top == "obj":
            return ["x", "obj", named]
        pairs = [[_s(n), x] for n, x in named]
        return ["@", "top", ["d", pairs]] if top == "d" else ["x", "od", pairs]

    out = [wrap(parts + [x]) for x in lasts]
    if after and not small:
        # one leaf of an object that the last reference does NOT point to is changed
        changed = list(after)
        j = rng.randrange(len(after))
        name, inner = after[j][1], after[j][2]
        if inner[0] in ("l", "t"):   # the object keeps its label (it may be referenced), it has one more item
            changed[j] = ["@", name, [inner[0], inner[1] + [leaf()]]]
            out.append(wrap(before + [H] + changed + middle + [lasts[0]]))
    return out


def corpus_aliased():
    """Small scope, exhaustively: a hash container of one or two memoisable elements, 0..7 one-item lists behind it, the last
    part a reference to each object in turn."""
    import random

    out = []
    for hc in ("e", "z", "d"):
        for n_after in range(8):
            for shapes in ((["pair"], ["nested", "pair"])[n_after % 2],):
                out += aliased_family(random.Random(f"{hc}/{shapes}/{n_after}"), top="l", hc=hc, n_before=0, n_after=n_after,
                                      elem_shapes=shapes, small=True)
    return out


N_ALIASED_FAMILIES = dict(quick=20, thorough=500)


N_EXTENDED = dict(quick=320, thorough=2500)


def universe(ctx, joblib, n, salt, with_big=True):
    rng = ctx.rng(salt)
    descs = list(CORPUS)
    if with_big:
        descs += big_values(rng, ctx.thorough)
    n_model = n - len(descs)
    if with_big:
        descs += corpus_x()
    n = len(descs) + max(n_model, 0) if n else 0
    while len(descs) < n:
        d = gen_value(rng, rng.choice([1, 2, 2, 3, 3, 4]))
        if size(d) > 400:
            continue
        descs.append(d)
    # the extended universe: the same generator with reduce / dictitems / listitems / setstate values at every position
    rx = ctx.rng(salt + "/extended")
    X_RATE[0] = 0.3
    try:
        target = len(descs) + (N_EXTENDED["thorough" if ctx.thorough else "quick"] if n else 0)
        while len(descs) < target:
            d = gen_value(rx, rx.choice([1, 2, 2, 3, 3]))
            if size(d) > 300 or not extended(d):
                continue
            descs.append(d)
    finally:
        X_RATE[0] = 0.0
    if n and with_big:
        ra = ctx.rng(salt + "/aliased")
        descs += corpus_aliased()
        for _ in range(N_ALIASED_FAMILIES["thorough" if ctx.thorough else "quick"]):
            descs += aliased_family(ra)
    twins = {}
    base = len(descs)
    for i in range(base):
        d = descs[i]
        if not aliased(d) and kinds(d) & {"e", "z", "d"} and (i < len(CORPUS) or rng.random() < 0.25) and size(d) < 200:
            tw = digest_twin(joblib, d, rng)
            if tw is not None:
                twins[len(descs)] = i
                descs.append(tw)
    return descs, twins


# ----------------------------------------------------------------------------- the oracle (no model)

VARIANTS = ["given", "rev", "shuf1", "shuf2"]


def variant_digests(joblib, d, vseed):
    """md5 digests of `d` rebuilt in the four insertion orders, then sha1 of the first, then md5 with shared strings."""
    import random

    out = []
    for name in VARIANTS:
        order = None if name == "given" else "rev" if name == "rev" else random.Random(f"{vseed}/{name}")
        out.append(joblib.hash(build(d, order)))
    out.append(joblib.hash(build(d), hash_name="sha1"))
    out.append(joblib.hash(build(d, None, {})))
    return out


def worker_main():
    """Fresh interpreter: stdin = JSON list of [desc, vseed]; stdout = JSON list of variant_digests."""
    joblib = core.use_repo()
    cases = json.load(sys.stdin)
    json.dump([variant_digests(joblib, d, vs) for d, vs in cases], sys.stdout)


SEEDS = ["0", "1", "2", "random"]


def run_workers(cases):
    """-> {hashseed: list of variant_digests}"""
    env = dict(os.environ)
    env["VERIF_REPO"] = str(core.REPO)
    env["PYTHONPATH"] = str(core.REPO)
    procs = {}
    for s in SEEDS:
        e = dict(env, PYTHONHASHSEED=s)
        procs[s] = subprocess.Popen([core.PY, "-B", "-m", "harness.props.c08"], cwd=str(core.VERIF), env=e, stdin=subprocess.PIPE,
                                    stdout=subprocess.PIPE, stderr=subprocess.PIPE, text=True)
    payload = json.dumps(cases)
    out = {}
    for s, p in procs.items():
        o, err = p.communicate(payload, timeout=900)
        if p.returncode != 0:
            raise core.InfraError(f"hash worker (PYTHONHASHSEED={s}) failed: {err[-800:]}")
        out[s] = json.loads(o)
    return out


def container_tag(d):
    """Which kind of hash container the value holds (most specific first): the classification of an unstable digest."""
    ks = kinds(d)
    for k, name in (("x:ssub", "set-subclass"), ("x:ssub2", "set-subclass"), ("x:zsub", "frozenset-subclass"), ("x:zsub2", "frozenset-subclass"),
                    ("x:dsub2", "dict-subclass"), ("x:od", "OrderedDict"), ("x:dsub", "dict-subclass"),
                    ("x:ddi", "defaultdict"), ("x:ddl", "defaultdict"), ("x:ctr", "Counter")):
        if k in ks:
            return name
    if any(k.startswith("x:") for k in ks) and not (ks & {"e", "z", "d"}):
        return "extended-no-hash-container"
    if "z" in ks:
        return "frozenset"
    if "e" in ks and "d" in ks:
        return "set+dict"
    if "e" in ks:
        return "set"
    if "d" in ks:
        return "dict"
    return "no-hash-container"


TYPE_NAME = dict(N="None", b="bool", i="int", f="float", s="str", y="bytes", l="list", t="tuple", e="set", z="frozenset", d="dict")


X_NAME = dict(dsub2="dict-subclass", lsub2="list-subclass", tsub2="tuple-subclass", ssub2="set-subclass", zsub2="frozenset-subclass",
              od="OrderedDict", dsub="dict-subclass", ddi="defaultdict", ddl="defaultdict", ctr="Counter", dq="deque", lsub="list-subclass",
              tsub="tuple-subclass", ssub="set-subclass", zsub="frozenset-subclass", nt_point="namedtuple", nt_pair="namedtuple",
              enum="enum", dec="Decimal", frac="Fraction", cx="complex", rg="range", sl="slice", ba="bytearray", obj="object",
              obj2="object", slots="slots-object", red="reduce-object", gs="getstate-object")


def type_name(d):
    if d[0] == "@":
        return type_name(d[2])
    if d[0] == "r":
        return "reference"
    return X_NAME[d[1]] if d[0] == "x" else TYPE_NAME[d[0]]


def first_difference(a, b):
    """Pair of type names where two descs first differ (for the collision signature)."""
    if a[0] == "x" or b[0] == "x":
        if a[0] != b[0] or a[1] != b[1]:
            return "-vs-".join(sorted([type_name(a), type_name(b)]))
        ca, cb = children(a), children(b)
        if len(ca) == len(cb) and a[1] in X_SEQ:
            for x, y in zip(ca, cb):
                if canon(x) != canon(y):
                    return first_difference(x, y)
        return "two-" + type_name(a) + "s"
    if a[0] != b[0]:
        return TYPE_NAME[a[0]] + "-vs-" + TYPE_NAME[b[0]]
    if a[0] in ("l", "t") and len(a[1]) == len(b[1]):
        for x, y in zip(a[1], b[1]):
            if canon(x) != canon(y):
                return first_difference(x, y)
    return "two-" + TYPE_NAME[a[0]] + "s"


def oracle(ctx, joblib, res, descs, twins, salt):
    """Judges the implementation only.  Failures are reported smallest witness first (stable signatures)."""
    fails = []  # (size, signature, case, detail)
    cases = [[d, f"{ctx.seed}/{salt}/{i}"] for i, d in enumerate(descs)]
    local = [variant_digests(joblib, d, vs) for d, vs in cases]
    remote = run_workers(cases)
    res.count("fresh-interpreters", len(SEEDS))
    by_digest = {}
    for i, d in enumerate(descs):
        ref = local[i][0]
        tag = container_tag(d)
        # (a) insertion order, within this process
        for name, dg in zip(VARIANTS[1:], local[i][1:4]):
            res.evaluations += 1
            if dg != ref:
                fails.append((size(d), f"unstable-digest:{tag}:insertion-order",
                              dict(kind="order", desc=d, vseed=cases[i][1], variant=name), f"{ref} (as listed) vs {dg} ({name})"))
                break
        # (b) equal but distinct string objects vs shared ones
        res.evaluations += 1
        if local[i][5] != ref:
            fails.append((size(d), "unstable-digest:string-identity", dict(kind="strings", desc=d), f"{ref} vs {local[i][5]} (shared str objects)"))
        # (c) other interpreters / string-hash seeds
        for s in SEEDS:
            res.evaluations += 1
            r = remote[s][i]
            if r[0] != ref or r[4] != local[i][4]:
                fails.append((size(d), f"unstable-digest:{tag}:hashseed",
                              dict(kind="seed", desc=d, hashseed=s), f"md5 {ref} here vs {r[0]} under PYTHONHASHSEED={s}; sha1 {local[i][4]} vs {r[4]}"))
                break
            if any(x != r[0] for x in r[1:4]):
                fails.append((size(d), f"unstable-digest:{tag}:insertion-order",
                              dict(kind="order", desc=d, vseed=cases[i][1], hashseed=s), f"orders differ under PYTHONHASHSEED={s}: {r[:4]}"))
                break
        by_digest.setdefault(ref, []).append(i)
        if nontrivial(d):
            res.nontrivial.add(canon(d))
        res.count("top=" + type_name(d))
        res.count("oracle-only-values (shared references)" if aliased(d) else "oracle-only-values (extended universe)" if extended(d)
                  else "model+oracle-values")
        if aliased(d):
            res.count("shared: cyclic" if _cyclic(d, labels(d)) else "shared: acyclic")
        res.count("containers=" + tag)
    # (d) all pairs: equal digest <=> same value.  Grouping by digest covers every pair.
    n = len(descs)
    res.evaluations += n * (n - 1) // 2
    res.count("pairs-compared", n * (n - 1) // 2)
    for dg, idxs in by_digest.items():
        if len(idxs) == 1:
            continue
        cs = {}
        for i in idxs:
            # `content`, not `canon`: two values of the same content that differ in their sharing only may hash alike (a set
            # object occurring twice is not memoised) or not (a tuple object occurring twice is); neither is demanded
            cs.setdefault(content(descs[i]), i)
        if len(cs) > 1:
            reps = sorted(cs.values(), key=lambda i: size(descs[i]))
            a = reps[0]
            # the twin relation is a relation between VALUES: the same value may occur several times in the universe,
            # and `cs` keeps only the first index of each
            twin_values = {frozenset((canon(descs[x]), canon(descs[y]))) for x, y in twins.items()}
            for b in reps[1:]:
                if frozenset((canon(descs[a]), canon(descs[b]))) in twin_values:
                    sig = "collision:fallback-keys-vs-their-own-digest-strings"
                elif aliased(descs[a]) or aliased(descs[b]):
                    sig = "collision:values-with-shared-references"
                else:
                    sig = "collision:" + first_difference(descs[a], descs[b])
                fails.append((size(descs[a]) + size(descs[b]), sig, dict(kind="pair", desc=descs[a], other=descs[b]), f"both hash to {dg}"))
    seen_canon = {}
    for i, d in enumerate(descs):
        c = canon(d)
        j = seen_canon.setdefault(c, i)
        if j != i and local[j][0] != local[i][0]:
            fails.append((size(d), f"unstable-digest:{container_tag(d)}:insertion-order", dict(kind="pair-same-value", desc=descs[j], other=d),
                          f"same value, {local[j][0]} vs {local[i][0]}"))
    fails.sort(key=lambda f: (f[0], f[1]))
    for _, sig, case, detail in fails:
        res.fail(sig, case, detail)
    # API edge: unknown digest names are rejected
    try:
        joblib.hash(1, hash_name="sha256")
        res.fail("hash_name-not-validated", dict(kind="hash_name"), "sha256 accepted")
    except ValueError:
        pass
    return local


# ----------------------------------------------------------------------------- correspondence with the model


def correspond(ctx, joblib, res, descs):
    old = impl_is_old(joblib)
    res.extra["implementation_frozenset_path"] = "pickle reduction in iteration order (pinned code)" if old else "sorted wrapper (F6 repaired)"
    od1 = impl_stream(joblib, collections.OrderedDict(a=1))[0]
    od_ver = "pinned" if old else "regressed" if od1 == impl_stream(joblib, collections.OrderedDict())[0] else "repaired"
    res.extra["implementation_batch_setitems_on_iterator"] = od_ver
    reqs, meta = [], []
    for d in descs:
        v = build(d)
        stream, digest = impl_stream(joblib, v)
        # the public function and the stream are tied: joblib.hash == digest(stream), for md5 and sha1
        for name in ("md5", "sha1"):
            got = joblib.hash(build(d), hash_name=name)
            s2, _ = impl_stream(joblib, build(d), name)
            res.evaluations += 1
            if got != hashlib.new(name, s2).hexdigest() or s2 != stream:
                res.diverge("digest-is-" + name + "-of-stream", d, got, hashlib.new(name, s2).hexdigest())
        if aliased(d) or size(d) < 60:
            # the memo numbering (model: HashMemo.run): the i-th object memoised during the dump gets index i
            issued = memo_trace(joblib, build(d))
            reqs.append(" ".join(["memo"] + [str(i) for i in range(len(issued))]))
            meta.append((d, " ".join(str(i) for i in issued), "memo-numbering"))
            res.count("memo-traces")
        if aliased(d):
            res.count("stream-correspondence-skipped (shared references)")
            continue
        if extended(d):
            # outside the model's PyVal: oracle only — except a top-level OrderedDict of modelled items (`encodeOD`, F40)
            res.count("correspondence-skipped (extended universe)")
            if d[0] == "x" and d[1] == "od" and not any(extended(c) for c in children(d)) and not (od_ver == "pinned" and "z" in kinds(d)):
                plain = dict(v)
                tab = {}
                h_table(joblib, plain, tab)
                head = [str(len(tab))]
                for k, dg in tab.items():
                    head += [k, dg]
                reqs.append(" ".join(["encod", od_ver] + head + tokens(plain, [])))
                meta.append((d, stream.hex(), "OrderedDict-stream(" + od_ver + ")"))
            continue
        tab = {}
        h_table(joblib, v, tab)
        toks = tokens(v, [])
        head = [str(len(tab))]
        for k, dg in tab.items():
            head += [k, dg]
        reqs.append(" ".join(["enc", "fixed"] + head + toks))
        meta.append((d, stream.hex(), "stream"))
        if old and "z" in kinds(d) and old_model_applies(d):
            reqs.append(" ".join(["enc", "old"] + head + toks))
            meta.append((d, stream.hex(), "old-code-frozenset-stream"))
        for op in set(stream) & OPNAMES.keys():
            res.count("opcode=" + OPNAMES[op])
    # malformed requests must be rejected, never defaulted
    bad = ["", "enc", "enc fixed 0", "enc fixed 0 X", "enc new 0 N", "enc fixed 1 N", "enc fixed 0 L2 N", "enc fixed 0 N N", "enc fixed 0 Szz",
           "enc fixed 0 D00", "enc fixed 0 I1.5", "enc fixed 1 80 abc N", "hash fixed 0 N", "enc fixed 0 M1 N",
           "encod fixed 0 M0", "encod repaired 0 N", "encod repaired 0 L0", "encod repaired 0 M1 N", "memo 0 0", "memo 0 x", "memo -1"]
    replies = ctx.driver().run(reqs + bad)
    for (d, want, stream_name), rep in zip(meta, replies):
        res.traces_validated += 1
        if rep != ("ok " + want).rstrip():
            res.diverge(stream_name, d, want, rep[3:] if rep.startswith("ok") else rep)
    for b, rep in zip(bad, replies[len(reqs):]):
        if rep != "bad-op":
            res.diverge("malformed-request", b, "bad-op", rep)
    res.count("malformed-requests", len(bad))


OPNAMES = {0x4e: "NONE", 0x88: "NEWTRUE", 0x89: "NEWFALSE", 0x4b: "BININT1", 0x4d: "BININT2", 0x4a: "BININT", 0x8a: "LONG1", 0x8b: "LONG4",
           0x47: "BINFLOAT", 0x58: "BINUNICODE", 0x43: "SHORT_BINBYTES", 0x42: "BINBYTES", 0x5d: "EMPTY_LIST", 0x61: "APPEND", 0x65: "APPENDS",
           0x28: "MARK", 0x29: "EMPTY_TUPLE", 0x85: "TUPLE1", 0x86: "TUPLE2", 0x87: "TUPLE3", 0x74: "TUPLE", 0x7d: "EMPTY_DICT", 0x73: "SETITEM",
           0x75: "SETITEMS", 0x63: "GLOBAL", 0x81: "NEWOBJ", 0x62: "BUILD", 0x52: "REDUCE", 0x71: "BINPUT", 0x72: "LONG_BINPUT", 0x68: "BINGET",
           0x6a: "LONG_BINGET"}
# (opcode counts are byte-value occurrences in the stream: an upper bound on the opcodes reached, informative only)


def old_model_applies(d, in_key=False, empties=None):
    """The old-code model covers frozensets that are not (inside) keys/elements, at most one empty frozenset
    (`frozenset()` is a singleton, so a second one is an aliased object: BINGET)."""
    top = empties is None
    empties = [0] if top else empties
    t = d[0]
    if t == "x":
        return False
    ok = True
    if t == "z":
        if in_key:
            return False
        if not d[1]:
            empties[0] += 1
        ok = all(old_model_applies(x, True, empties) for x in d[1])
    elif t == "e":
        ok = all(old_model_applies(x, True, empties) for x in d[1])
    elif t in ("l", "t"):
        ok = all(old_model_applies(x, in_key, empties) for x in d[1])
    elif t == "d":
        ok = all(old_model_applies(k, True, empties) and old_model_applies(v, in_key, empties) for k, v in d[1])
    return ok and (not top or empties[0] <= 1)


# ----------------------------------------------------------------------------- entry points


def _explore(ctx, n, salt, extra=(), only=None):
    joblib = core.use_repo()
    res = Result()
    res.rule = RULE
    if only is not None:
        descs, twins = list(only), {}
        if len(only) == 2:
            twins = {1: 0} if not (aliased(only[0]) or aliased(only[1])) and _is_twin(joblib, only[0], only[1]) else {}
    else:
        descs, twins = universe(ctx, joblib, n, salt)
        descs = list(extra) + descs
        twins = {k + len(extra): v + len(extra) for k, v in twins.items()}
    for d in descs[:6]:
        res.sample(d if size(d) < 30 else ["…", d[0], size(d)])
    oracle(ctx, joblib, res, descs, twins, salt)
    correspond(ctx, joblib, res, descs)
    res.assumptions = ["model universe: no aliased sub-objects (every tuple/list/dict/set is a fresh object; str/bytes identity is varied on "
                       "purpose); values with shared references are judged by the oracle only (content differs => digest differs; stable "
                       "under insertion order and PYTHONHASHSEED) and by the memo-numbering correspondence (HashMemo)",
                       "no NaN among dict keys / set elements", "md5/sha1 collision-free on the streams compared"]
    res.notes.append("observed, outside the property's domain: the same tuple object occurring twice in a value is memoised by identity "
                     "(BINGET), so `t=(1,); [t, t]` and `[(1,), tuple([1])]` hash differently; the harness builds every tuple afresh")
    return res


def _is_twin(joblib, a, b):
    for x, y in ((a, b), (b, a)):
        import random

        for k in range(40):
            tw = digest_twin(joblib, x, random.Random(k))
            if tw is not None and canon(tw) == canon(y):
                return True
    return False


def run(ctx):
    if ctx.replay and ctx.replay.get("case", {}).get("kind") == "poison-probe":
        from .. import poison_probe
        res = Result()
        res.rule = "replay: the unpicklable-component probe is re-run"
        poison_probe.run_hash(res, core.use_repo())
        return res
    if ctx.replay:
        case = ctx.replay.get("case", {})
        only = [case["desc"]] + ([case["other"]] if "other" in case else [])
        return _explore(ctx, 0, "replay", only=only)
    res = _explore(ctx, 6000 if ctx.thorough else 420, "main")
    from .. import poison_probe
    poison_probe.run_hash(res, core.use_repo())
    return res


def search(ctx, res):
    near = [dv["case"] for dv in res.divergences if isinstance(dv.get("case"), list)]
    extra = []
    for d in near[:20]:
        if aliased(d):   # labels must stay unique within a value
            extra += [d]
            continue
        extra += [d, ["l", [d]], ["t", [d, d]], ["l", [d, d]], ["d", [[_s("k"), d]]]]
    return _explore(ctx, 4000, "search", extra=extra)


if __name__ == "__main__":
    worker_main()
