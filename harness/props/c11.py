"""C11 — concurrent users of one cache directory always get correct values.

Model: lean/JoblibModel/Store.lean (+ StoreIO.lean); theorems: lean/JoblibProofs/C11.lean; driver: Driver/C11.lean.

Implementation side: 2–4 participants (cached calls, `Memory.reduce_size`, `Memory.clear`) run as threads of one real
process on a shared scratch cache directory under the deterministic scheduler harness/c11_sched.py (`sys.monitoring` LINE
events: control changes hands only before a line of joblib's store code / shutil / os that can issue a file-system call);
the whole process runs under `strace -f`, which gives the true global order of the file-system calls with the thread that
made each. Schedules: systematic single-pre-emption sweeps over every tracked line of the call path (and of reduce_size /
clear), directed line scripts for the known windows, and seeded random schedules with <= 3 pre-emptions.
 * correspondence: the op-level interleaving observed (participant of every call) is replayed on the model
   (`Driver/C11.lean`, same programs as in the theorems); every call with its result and every participant's outcome
   must agree;
 * oracle (no model): every cached call returns f(x) and does not raise. Exceptions raised BY clear()/reduce_size()
   themselves are not counted (the property is about calls of cached functions).
Multi-process stress (thorough tier only) is supporting evidence.

Object histories (harness/c11_objects.py, run FIRST, also in the quick tier): the participants are distinct Memory /
MemorizedFunc OBJECTS on one directory (own store backend object, own in-memory state; several per process and per
thread, in other threads, in other processes; created before and after the others' clears / evictions), every operation
runs to completion and ANOTHER object clears / evicts between two operations of this object.  Oracle (no model): every
call returns f(x) and does not raise — whatever an object remembers in memory (directories it created, call ids it
knows, function code it validated) must not make a call fail after another object changed the directory.
"""

from __future__ import annotations

import concurrent.futures as cf
import json
import os
import shutil
import subprocess
import time
from pathlib import Path

from .. import core, fstrace
from ..core import Result
from . import c05 as S  # shared workload helpers (module text, args ids, canonicaliser set-up, listing order)

REQUIRED_THEOREMS = [
    "C11.one_complete_result",
    "C11.participants_satisfy_G",
    "C11.participants_satisfy_G_evict",
    "C11.participants_satisfy_G_clear",
    "C11.call_correct_under_G_calls",
    "C11.call_correct_under_G_evict",
    "C11.call_correct_under_G_clear_partial",
    "C11.call_under_G_clear_can_raise",
    "C11.caller_leaves_G_calls",
    "C11.checkPreviousObj_fresh",
    "C11.object_history_witness",
]
TRUSTED_EXTRA = [
    "modelled, not verified: POSIX semantics of the calls (rename atomicity, unlink of open files, O_TRUNC on an existing "
    "inode, mkdir EEXIST/ENOENT), CPython's os.makedirs / os.walk / shutil.rmtree (transcribed in the model and tied by the "
    "call-by-call correspondence), numpy_pickle / json as a Codec with unpickle(pickle v) = v",
    "the deterministic scheduler (sys.monitoring LINE events, one runnable thread at a time) and the strace -f log are the "
    "instruments of the correspondence; threads of one process stand for processes (every participant has its own function "
    "object, Memory object and temporary-file suffix); multi-process runs are stress only",
]

SCHED = os.path.join(os.path.dirname(os.path.dirname(os.path.abspath(__file__))), "c11_sched.py")
JOBLIB_FILES = ("_store_backends.py", "memory.py", "disk.py", "backports.py")
REMOVAL_FILES = ("shutil.py", "disk.py")
REMOVAL_FUNCS = ("clear_location", "clear_item", "clear_path", "clear", "enforce_store_limits")


def _call(a, cb="none", ver=0):
    return dict(kind="call", a=a, cb=cb, ver=ver)


# scenario = (name, set-up calls run before (labels), participants)
SCENARIOS = {
    "cold-call-call": dict(setup=[], parts=[_call(3), _call(3)]),
    "cold-call-call-other-arg": dict(setup=[], parts=[_call(3), _call(4)]),
    "warm-call-reduce": dict(setup=[3, 4], parts=[_call(3), dict(kind="reduce")]),
    "cold-call-reduce": dict(setup=[4], parts=[_call(3), dict(kind="reduce")]),
    "expire-call-call": dict(setup=[3], parts=[_call(3, cb="now"), _call(3, cb="long")], setup_cb="long"),
    "cold-call-clear": dict(setup=[], parts=[_call(3), dict(kind="clear")]),
    "call-clear": dict(setup=[4], parts=[_call(3), dict(kind="clear")]),
    "warm-call-clear": dict(setup=[3], parts=[_call(3), dict(kind="clear")]),
    "three-callers": dict(setup=[], parts=[_call(3), _call(3), _call(3)]),
    # several callers invalidating the SAME entry / function directory at the same time
    "expired-call-call": dict(setup=[3], parts=[_call(3, cb="now"), _call(3, cb="now")], setup_cb="long"),
    "expired-three": dict(setup=[3], parts=[_call(3, cb="now"), _call(3, cb="now"), _call(3, cb="now")], setup_cb="long"),
    "srcchange-call-call": dict(setup=[3, 4], parts=[_call(3, ver=1), _call(3, ver=1)]),
    "srcchange-call-call-other-arg": dict(setup=[3, 4], parts=[_call(3, ver=1), _call(4, ver=1)]),
    "warm-call-fclear": dict(setup=[3], parts=[_call(3), dict(kind="fclear", ver=0)]),
    "cold-call-fclear": dict(setup=[], parts=[_call(3), dict(kind="fclear", ver=0)]),
    "expired-call-iclear": dict(setup=[3], parts=[_call(3, cb="now"), dict(kind="iclear", a=3, ver=0)], setup_cb="long"),
    "fclear-fclear-call": dict(setup=[3], parts=[_call(3), dict(kind="fclear", ver=0), dict(kind="fclear", ver=0)]),
    "mix4": dict(setup=[4], parts=[_call(3), _call(3), dict(kind="reduce"), _call(4)]),
}

# directed line scripts: [participant, file suffix, text of the line it is about to execute, occurrence] / [participant, "end"]
OPEN_CODE = 'with self._open_item(filename, "wb") as f:'
WRITE_CODE = 'f.write(func_code.encode("utf-8"))'
SCRIPTS = {
    # F19: the call parked after exists(func_path), before open(func_code.py, 'wb'); clear() runs
    "call-vs-clear": ("cold-call-clear", [[0, "_store_backends.py", OPEN_CODE, 1], [1, "end"], [0, "end"]]),
    # three first-time callers: 1 has created func_code.py and not yet written it; 2 reads it, empties the function
    # directory and is parked before re-creating it; 0 (parked before its open) resumes
    "first-call-race": ("three-callers", [[0, "_store_backends.py", OPEN_CODE, 1], [1, "_store_backends.py", WRITE_CODE, 1],
                                          [2, "_store_backends.py", "if not self._item_exists(func_path):", 2],
                                          [0, "end"], [2, "end"], [1, "end"]]),
    # a second first-time caller reads the half-written func_code.py: it clears the function directory (values stay right)
    "half-written-func-code": ("cold-call-call", [[0, "_store_backends.py", WRITE_CODE, 1], [1, "end"], [0, "end"]]),
    # reader between contains_item and load_item while the entry is evicted
    "evict-between-check-and-load": ("warm-call-reduce", [[0, "_store_backends.py", "if not self._item_exists(filename):", 1],
                                                          [1, "end"], [0, "end"]]),
    # reader between exists(output.pkl) and open(output.pkl) in load_item while the entry is evicted
    "evict-between-exists-and-open": ("warm-call-reduce", [[0, "_store_backends.py", "if mmap_mode is None:", 1],
                                                           [1, "end"], [0, "end"]]),
    # a writer pre-empted after it opened its temporary and before it wrote it; the other writer of the same entry runs
    "writer-preempted-after-open-temp": ("cold-call-call", [[0, "_store_backends.py", "numpy_pickle.dump(to_write, f, compress=self.compress)", 1],
                                                            [1, "end"], [0, "end"]]),
    # writer between create_location and open(temp) while the entry directory is evicted
    "evict-between-mkdir-and-open": ("cold-call-reduce", [[0, "_store_backends.py", 'with self._open_item(dest_filename, "wb") as f:', 1],
                                                          [1, "end"], [0, "end"]]),
}


def _model_tok(p, me, victims):
    if p["kind"] == "call":
        return f"call:a={p['a']},ver={p.get('ver', 0)},cb={p.get('cb', 'none')},shelve=0,me={me},legacy=0,compress=0"
    if p["kind"] == "fclear":
        return f"fclear:me={me},ver={p.get('ver', 0)}"
    if p["kind"] == "iclear":
        return f"iclear:a={p['a']},me={me},ver={p.get('ver', 0)}"
    if p["kind"] == "reduce":
        return f"reduce:me={me},victims=" + (".".join(str(v) for v in victims) or "-")
    return f"clear:me={me}"


def _prepare_scenario(base, name, ids):
    sc = SCENARIOS[name]
    d = os.path.join(base, "pre-" + name)
    cache = os.path.join(d, "cache")
    os.makedirs(d, exist_ok=True)
    for i, lab in enumerate(sc["setup"]):
        p = S._call(lab, cb=sc.get("setup_cb", "none"))
        r = S._run_worker(d, f"setup{i}", S._real_spec(base, cache, p), traced=False)
        if r["rc"] != 0 or not r["res"]:
            raise core.InfraError(f"C11 set-up failed: {name} {r['err']}")
    return cache if sc["setup"] else None


def _set_atimes(cache, ids, labels):
    now = int(time.time())
    fdir = os.path.join(cache, "joblib", ids["func_id"])
    for k, lab in enumerate(sorted(labels, reverse=True)):  # larger label = older
        p = os.path.join(fdir, ids["ids"][str(lab)], "output.pkl")
        if os.path.exists(p):
            os.utime(p, (now - 5000 + 1000 * k, now - 5000 + 1000 * k))


def _run_schedule(a):
    """One schedule (pool worker). -> picklable record."""
    (base, name, pre_cache, ids, schedule, tag, want_trace) = a
    S.ACTUAL.update(ids["actual"])
    sc = SCENARIOS[name]
    d = os.path.join(base, f"r-{name}-{tag}")
    os.makedirs(d, exist_ok=True)
    cache = os.path.join(d, "cache")
    if pre_cache:
        shutil.copytree(pre_cache, cache, symlinks=True)
        _set_atimes(cache, ids, sc["setup"])
    parts = []
    for p in sc["parts"]:
        q = dict(p)
        if q["kind"] == "iclear":
            q["args_id"] = ids["ids"][str(q["a"])]
        if q["kind"] in ("call", "iclear"):
            q["a"] = S._act(q["a"])
        if q["kind"] == "reduce":
            q["items_limit"] = 0
        parts.append(q)
    spec = dict(repo=str(core.REPO), moddir=S._moddir(base, 0), moddirs={"0": S._moddir(base, 0), "1": S._moddir(base, 1)},
                cache=cache, participants=parts, schedule=schedule, timeout=40)
    sp = os.path.join(d, "spec.json")
    with open(sp, "w") as fh:
        json.dump(spec, fh)
    log = os.path.join(d, "strace.txt")
    rc, out, err = fstrace.run_traced([fstrace.PY, "-B", SCHED, sp], log, timeout=120)
    res = None
    for ln in out.splitlines():
        try:
            res = json.loads(ln)
        except ValueError:
            pass
    rec = dict(name=name, tag=tag, schedule=schedule, rc=rc, res=res, err=err[-300:])
    if res is None or rc != 0:
        shutil.rmtree(d, ignore_errors=True)
        return rec
    calls = fstrace.parse_log(log)
    canon = S._canon_for(cache, ids)
    ops = canon.canon(calls, with_tid=True)
    who, seq = {}, []
    for tid, o in ops:
        t = o.split(" ")
        if t[0] == "stat" and t[1].startswith("C/.who-"):
            who[tid] = int(t[1][len("C/.who-"):])
            continue
        seq.append((tid, o))
    rec["ops"] = [(who.get(tid, -1), o) for tid, o in seq]
    # temporary-file owner index of every participant (canon numbers suffixes in order of first appearance)
    mes = {}
    for pi, o in rec["ops"]:
        t = o.split(" ")
        if t[0] == "creat" and ".tmp" in t[1] and pi not in mes:
            mes[pi] = int(t[1].rsplit(".tmp", 1)[1])
    rec["mes"] = mes
    shutil.rmtree(d, ignore_errors=True)
    return rec


FINAL = ("output.pkl", "metadata.json")


def _judge(res, rec, sc_name):
    sc = SCENARIOS[sc_name]
    r = rec["res"]
    desc = dict(scenario=sc_name, schedule=rec["schedule"], tag=rec["tag"])
    # "never a mixture": nobody creates/truncates or writes a file while it has a final name (strace -y shows the name the
    # open file has at the time of the call)
    for pi, o in rec["ops"]:
        t = o.split(" ")
        if t[0] in ("creat", "write") and t[1].rsplit("/", 1)[-1] in FINAL:
            res.fail("final-name-written-in-place:" + t[1].rsplit("/", 1)[-1], desc, dict(participant=pi, op=o))
            break
    # MemorizedFunc.clear() and Memory.clear() are both "another user clears": one class of environment
    others = sorted({"clear" if p["kind"] == "fclear" else "evict" if p["kind"] == "iclear" else p["kind"] for p in sc["parts"]})
    for i, p in enumerate(sc["parts"]):
        if p["kind"] != "call":
            continue
        got = r["results"][i]
        if got is None:
            res.fail("participant-did-not-finish", desc, dict(participant=i, hung=r.get("hung")))
            continue
        oc = got["outcome"]
        want = fstrace.expected(S.SRC[p.get("ver", 0)], S._act(p["a"]))
        if oc[0] == "raise":
            frames = got.get("where") or ["?"]
            where = next((f for f in frames if f.endswith(":store_cached_func_code")), frames[-1])
            if "clear" in others:
                sig = f"call-vs-clear:{oc[1]}@{where}"
            elif others == ["call"]:
                sig = f"callers-only:{oc[1]}@{where}"
            else:
                sig = f"call-vs-{'+'.join(o for o in others if o != 'call')}:{oc[1]}@{where}"
            res.fail(sig, desc, dict(participant=i, outcome=oc, where=got.get("where")))
        elif oc[1] != want:
            res.fail("wrong-value", desc, dict(participant=i, got=oc[1], want=want))


def _outcome_str(got, p):
    if got is None:
        return "?"
    oc = got["outcome"]
    if oc[0] == "ok":
        return f"ok v{p.get('ver', 0)}.{p['a']}" if p["kind"] == "call" else "ok done"
    return "raise " + {"UnicodeDecodeError": "ValueError"}.get(oc[1], oc[1])


def _model_request(rec, sc_name, ids):
    sc = SCENARIOS[sc_name]
    parts = sc["parts"]
    listings = S._listings([[o for _, o in rec["ops"]]])
    order = S._order_from(listings)
    if order is None:
        return None
    used = set(rec["mes"].values())
    free = iter(i for i in range(100, 200) if i not in used)
    # LRU order of reduce_size(items_limit=0): the set-up entries oldest first (larger label = older), then anything new
    setup_sorted = sorted(sc["setup"], reverse=True)
    new = [p["a"] for p in parts if p["kind"] == "call" and p["a"] not in setup_sorted]
    victims = setup_sorted + sorted(set(new))
    toks = [_model_tok(p, rec["mes"].get(i, next(free)), victims) for i, p in enumerate(parts)]
    pre = [f"call:a={lab},ver=0,cb={sc.get('setup_cb', 'none')},shelve=0,me={900 + i},legacy=0,compress=0"
           for i, lab in enumerate(sc["setup"])] or ["-"]
    s0, fl = S._func_source(0)
    s1, _ = S._func_source(1)
    sched = ".".join(str(pi) for pi, _ in rec["ops"]) or "-"
    return (f"par {','.join(order) if order else '-'} {fl} {S._hex(s0)} {S._hex(s1)} | " + " | ".join(pre) + " || "
            + " | ".join(toks) + " || " + sched)


def _compare(res, rec, sc_name, reply):
    desc = dict(scenario=sc_name, schedule=rec["schedule"], tag=rec["tag"])
    if reply == "bad-op":
        res.diverge("par", desc, [o for _, o in rec["ops"]][:8], "bad-op (the model's threads cannot follow this interleaving)")
        return
    log, _, states = reply.rpartition(" => ")
    mops = [x for x in log.split(";") if x]
    real = [f"{pi}:{o}" for pi, o in rec["ops"]]
    res.traces_validated += 1
    if mops != real:
        k = next((n for n, (x, y) in enumerate(zip(mops, real)) if x != y), min(len(mops), len(real)))
        res.diverge("par", dict(desc, first_difference_at=k), real[max(0, k - 3):k + 3], mops[max(0, k - 3):k + 3])
        return
    sc = SCENARIOS[sc_name]
    want = [_outcome_str(g, p) for g, p in zip(rec["res"]["results"], sc["parts"])]
    got = states.split(" | ")
    # exceptions of clear()/reduce_size() are compared by class only when both raise
    if got != want:
        res.diverge("par:outcome", desc, want, got)


def _stress(ctx, res, base, ids):
    """Supporting evidence only: real processes hammering one directory (OS scheduler)."""
    d = os.path.join(base, "stress")
    os.makedirs(d, exist_ok=True)
    cache = os.path.join(d, "cache")
    procs = []
    for i in range(24):
        kind = "call" if i % 4 else ("reduce" if i % 8 else "call")
        if kind == "call":
            spec = dict(repo=str(core.REPO), moddir=S._moddir(base, 0), cache=cache, action="call",
                        args=[S._act(3), S._act(4), S._act(3), S._act(5)])
        else:
            spec = dict(repo=str(core.REPO), moddir=S._moddir(base, 0), cache=cache, action="reduce", items_limit=1)
        sp = os.path.join(d, f"s{i}.json")
        with open(sp, "w") as fh:
            json.dump(spec, fh)
        procs.append((spec, subprocess.Popen(fstrace.worker_cmd(sp), stdout=subprocess.PIPE, stderr=subprocess.PIPE, text=True)))
    bad = 0
    for spec, p in procs:
        out, _ = p.communicate(timeout=120)
        try:
            r = json.loads(out.strip().splitlines()[-1])
        except (ValueError, IndexError):
            bad += 1
            continue
        if spec["action"] == "call":
            for it in r["results"]:
                if it["outcome"][0] != "ok" or it["outcome"][1] != fstrace.expected("v0", it["arg"]):
                    bad += 1
                    res.fail("stress:" + str(it["outcome"][:2]), dict(kind="multi-process-stress"), it)
    res.count("stress-processes", len(procs))
    res.notes.append(f"multi-process stress (supporting evidence): {len(procs)} processes, {bad} bad outcomes")


MIXTURE = os.path.join(os.path.dirname(os.path.dirname(os.path.abspath(__file__))), "c11_mixture.py")


def _mixture_probe(ctx, res, thorough):
    """"Concurrent writers of one entry leave one complete result, never a mixture" — native probe, no model: writers
    whose (individually valid) results carry their own tag store ONE entry while one of them is parked twice inside its
    dump; every value handed out must consist of the parts of one computation.  Thread names equal / different (Python
    does not require them to be unique), 2-3 writers, compressed or not."""
    rng = ctx.rng("mixture")
    confs = [(["worker", "worker"], False), (["Thread-1", "Thread-2"], False), (["w", "w", "w"], False), (["worker", "worker"], True)]
    if thorough:
        confs += [([rng.choice(["a", "b"]) for _ in range(rng.choice([2, 3]))], rng.random() < 0.3) for _ in range(12)]
    env = dict(os.environ, PYTHONPATH=str(core.REPO))
    for names, compress in confs:
        n_items = rng.choice([6000, 30000])
        g1 = rng.randrange(1, n_items // 3)
        g2 = rng.randrange(n_items // 2, n_items - 1)
        spec = dict(n_items=n_items, gates=[g1, g2], names=names, compress=compress, scratch=str(ctx.scratch))
        case = dict(kind="mixture-probe", **{k: v for k, v in spec.items() if k != "scratch"})
        try:
            p = subprocess.run([core.PY, MIXTURE, json.dumps(spec)], env=env, capture_output=True, text=True, timeout=200)
            out = json.loads(p.stdout.strip().splitlines()[-1])
        except (subprocess.TimeoutExpired, ValueError, IndexError) as e:
            res.fail("mixture-probe:did-not-finish", case, repr(e)[:300])
            continue
        res.evaluations += 1
        res.count("mixture-probe-runs")
        res.nontrivial.add(("mixture", tuple(names), compress, n_items, g1, g2))
        if out["errors"]:
            who = out["errors"][0]
            res.fail("concurrent-writers:" + ("raises:" + who[1] if who[0] != "harness" else "stuck"), case, out)
            continue
        vals = list(out["writers"].values()) + [out["reader"], out["final"]]
        if any(v is None or len(v) != 1 for v in vals):
            res.fail("concurrent-writers:entry-is-a-mixture-of-results", case, out)


FORK = str(Path(__file__).resolve().parent.parent / "c11_fork.py")


def _fork_probe(ctx, res, thorough):
    """Forked writers of one entry (processes that share everything the parent had at the fork, including whatever joblib
    remembers about "this writer"): forced interleaving open(B's temporary) / rename(A's temporary) / read, see
    harness/c11_fork.py.  Behavioural oracle only."""
    env = dict(os.environ, PYTHONPATH=str(core.REPO))
    confs = [(True, False), (True, True), (False, False)]
    if thorough:
        confs += [(True, False), (False, True), (True, True)]
    for k, (parent_first, compress) in enumerate(confs):
        d = os.path.join(str(ctx.scratch), f"fork{k}")
        os.makedirs(os.path.join(d, "mod"), exist_ok=True)
        with open(os.path.join(d, "mod", "wl_fork.py"), "w") as f:
            f.write("def f(x):\n    return ['tag-%d' % x] * 20000\n")
        spec = dict(cache=os.path.join(d, "cache"), moddir=os.path.join(d, "mod"), parent_writes_first=parent_first, compress=compress)
        case = dict(kind="fork-probe", parent_writes_first=parent_first, compress=compress)
        try:
            p = subprocess.run([core.PY, "-B", FORK, json.dumps(spec)], env=env, capture_output=True, text=True, timeout=120)
            out = json.loads(p.stdout.strip().splitlines()[-1])
        except (subprocess.TimeoutExpired, ValueError, IndexError) as e:
            res.fail("fork-probe:did-not-finish", case, repr(e)[:300])
            continue
        res.evaluations += 1
        res.count("fork-probe-runs")
        if out.get("inconclusive"):
            res.count("fork-probe-inconclusive")
            res.notes.append(f"fork probe inconclusive: {out['inconclusive']}")
        else:
            res.nontrivial.add(("fork", parent_first, compress))
        if out["errors"]:
            who, what = out["errors"][0][:2]
            res.fail("concurrent-writers:forked:" + what, case, out)


OBJECTS = os.path.join(os.path.dirname(os.path.dirname(os.path.abspath(__file__))), "c11_objects.py")
DISTURB = ("clear", "fclear", "reduce", "iclear")
# (host of the observed object A, host of the disturbing object B, do A and B share the function object?)
PLACEMENTS = [("m", "m", False), ("m", "t1", False), ("m", "p1", False), ("m", "m", True), ("p1", "m", False), ("t1", "t2", False),
              ("p1", "p2", False)]


def _history(place, disturb, pre, post, b_before=False, late=False, twice=False):
    """A is created and calls `pre`; B (another object) disturbs; A calls `post`; optionally an object C created after the
    disturbance calls too and A calls once more."""
    ha, hb, shared = place
    st = [dict(op="new", obj="A", host=ha, func="g0")]
    newb = dict(op="new", obj="B", host=hb, func="g0" if shared and ha == hb else "g1")
    if b_before:
        st.append(newb)
    st += [dict(op="call", obj="A", a=a) for a in pre]
    if not b_before:
        st.append(newb)
    for d in ([disturb] * 2 if twice else [disturb]):
        st.append(dict(op=d, obj="B", a=3) if d == "iclear" else dict(op=d, obj="B"))
    st += [dict(op="call", obj="A", a=a) for a in post]
    if late:
        st += [dict(op="new", obj="C", host=hb, func="g2"), dict(op="call", obj="C", a=3), dict(op="call", obj="A", a=3),
               dict(op="call", obj="B", a=4)]
    return st


def _object_histories(rng, thorough, n_random):
    hs = []
    # first: another object clears / evicts between two operations of this object — same thread, other thread, other process
    for place in PLACEMENTS[:3]:
        for d in DISTURB:
            hs.append(_history(place, d, [3, 4], [5, 3, 3]))
    # the object has only been created (decorated) before the others' clear; objects sharing the function object
    for place in (PLACEMENTS[0], PLACEMENTS[2]):
        for d in ("clear", "fclear"):
            hs.append(_history(place, d, [], [3, 3], b_before=True))
    for d in ("clear", "fclear"):
        hs.append(_history(PLACEMENTS[3], d, [3], [3, 4], late=True))
    for _ in range(n_random):
        place = rng.choice(PLACEMENTS)
        pre = [rng.choice([3, 4, 5]) for _ in range(rng.choice([0, 1, 2, 2, 3]))]
        post = [rng.choice([3, 4, 5]) for _ in range(rng.choice([1, 2, 3]))]
        hs.append(_history(place, rng.choice(DISTURB), pre, post, b_before=rng.random() < 0.5, late=rng.random() < 0.4,
                           twice=rng.random() < 0.2))
    return hs


def _run_history(a):
    """One object history (pool worker)."""
    (base, ids, steps, tag) = a
    S.ACTUAL.update(ids["actual"])
    d = os.path.join(base, f"obj-{tag}")
    os.makedirs(d, exist_ok=True)
    real = []
    for st in steps:
        q = dict(st)
        if q["op"] == "iclear":
            q["args_id"] = ids["ids"][str(q.pop("a"))]
        elif q["op"] == "call":
            q["a"] = S._act(q["a"])
        real.append(q)
    spec = dict(repo=str(core.REPO), moddir=S._moddir(base, 0), cache=os.path.join(d, "cache"), steps=real)
    sp = os.path.join(d, "spec.json")
    with open(sp, "w") as fh:
        json.dump(spec, fh)
    rec = dict(steps=steps, tag=tag, res=None, err="")
    try:
        p = subprocess.run([fstrace.PY, "-B", OBJECTS, sp], capture_output=True, text=True, timeout=120)
        rec["err"] = p.stderr[-300:]
        for ln in p.stdout.splitlines():
            try:
                rec["res"] = json.loads(ln)
            except ValueError:
                pass
    except subprocess.TimeoutExpired:
        rec["err"] = "timeout"
    shutil.rmtree(d, ignore_errors=True)
    return rec


def _judge_history(res, rec):
    steps = rec["steps"]
    case = dict(kind="object-history", history=steps)
    r = (rec.get("res") or {}).get("results")
    if r is None or len(r) != len(steps):
        res.fail("object-history:did-not-finish", case, rec.get("err"))
        return
    born = {}
    for n, (st, got) in enumerate(zip(steps, r)):
        if st["op"] == "new":
            born[st["obj"]] = n
        if st["op"] != "call":
            continue  # exceptions raised BY clear()/reduce_size() themselves are not C11 violations
        # what OTHER objects did to the directory since this object exists
        kinds = {"clear" if s["op"] in ("clear", "fclear") else "evict" for s in steps[born[st["obj"]]:n]
                 if s["obj"] != st["obj"] and s["op"] in DISTURB}
        others = "+".join(sorted(kinds)) or "nothing"
        oc = got["outcome"]
        want = fstrace.expected(S.SRC[0], S._act(st["a"]))
        if oc[0] == "raise":
            frames = got.get("where") or ["?"]
            where = next((f for f in frames if f.endswith(":store_cached_func_code")), frames[-1])
            res.fail(f"call-after-other-object-{others}:{oc[1]}@{where}", case, dict(step=n, outcome=oc, where=got.get("where")))
            return
        if oc[1] != want:
            res.fail(f"call-after-other-object-{others}:wrong-value", case, dict(step=n, got=oc[1], want=want))
            return


def _history_request(steps):
    """The history as a request to the model (Driver/C11.lean `objs`, model JoblibModel.StoreObjects): processes, function
    objects and objects are numbered; the directory order is irrelevant for outcomes (no operation is interrupted)."""
    procs, funcs, objs, where, toks = {}, {}, {}, {}, []
    for st in steps:
        o = st["obj"]
        if st["op"] == "new":
            pr = procs.setdefault("main" if st["host"][0] in "mt" else st["host"], len(procs))
            where[o] = (pr, funcs.setdefault((pr, st["func"]), len(funcs)))
            objs[o] = len(objs)
            toks.append(f"new:p={pr},me={objs[o]}")
            continue
        pr, g = where[o]
        me = objs[o]
        if st["op"] == "call":
            toks.append(f"call:p={pr},g={g},me={me},a={st['a']}")
        elif st["op"] == "fclear":
            toks.append(f"fclear:p={pr},g={g},me={me}")
        elif st["op"] == "iclear":
            toks.append(f"iclear:p={pr},me={me},a={st['a']}")
        elif st["op"] == "reduce":
            toks.append(f"reduce:p={pr},me={me},victims=5.4.3")
        else:
            toks.append(f"clear:p={pr},me={me}")
    s0, fl = S._func_source(0)
    s1, _ = S._func_source(1)
    return f"objs - {fl} {S._hex(s0)} {S._hex(s1)} | " + " | ".join(toks)


def _history_outcomes(rec):
    out = []
    for st, got in zip(rec["steps"], rec["res"]["results"]):
        oc = got["outcome"]
        if oc[0] == "raise":
            out.append("raise " + oc[1])
            break  # the model's history is compared up to the first exception
        if st["op"] == "call":
            lab = next((l for l in ("3", "4", "5") if oc[1] == fstrace.expected(S.SRC[0], S._act(int(l)))), "?")
            out.append(f"ok v0.{lab} exec={got.get('executed')}")
        else:
            out.append("ok done")
    return out


def _objects_probe(ctx, res, base, ids, thorough, stop=None):
    """Distinct objects on one directory, operations run to completion, others clear / evict in between. -> True when an
    oracle failure was recorded."""
    hs = _object_histories(ctx.rng("objects"), thorough, 60 if thorough else 4)
    jobs = [(base, ids, h, f"h{k}") for k, h in enumerate(hs)]
    before, recs = len(res.oracle_failures), []
    with cf.ThreadPoolExecutor(max_workers=min(8, os.cpu_count() or 4)) as ex:
        for rec in ex.map(_run_history, jobs):
            res.evaluations += 1
            res.count("object-histories")
            hosts = tuple(sorted({s["host"] for s in rec["steps"] if s["op"] == "new"}))
            res.count("object-hosts:" + "+".join(hosts))
            if any(s["op"] in DISTURB for s in rec["steps"]):
                res.nontrivial.add(("objects", json.dumps(rec["steps"], sort_keys=True)))
            _judge_history(res, rec)
            recs.append(rec)
    good = [r for r in recs if (r.get("res") or {}).get("results") and len(r["res"]["results"]) == len(r["steps"])]
    if good:
        for rec, rep in zip(good, ctx.driver().run([_history_request(r["steps"]) for r in good])):
            impl = _history_outcomes(rec)
            model = rep.split(" | ")[:len(impl)] if rep != "bad-op" else [rep]
            res.traces_validated += 1
            if impl != model:
                res.diverge("objects:outcome", dict(kind="object-history", history=rec["steps"]), impl, model)
    return len(res.oracle_failures) > before


def _explore(ctx, scale=1, deadline=None):
    res = Result()
    res.rule = ("one case = (scenario, schedule); schedules: single pre-emption at every tracked line of a participant "
                "(sampled in the quick tier), directed line scripts, seeded random schedules with <= 3 pre-emptions; "
                "non-trivial = at least one switch happened while both participants were alive; distinct by the op-level "
                "interleaving actually observed (participant of each file-system call)")
    core.use_repo()
    base = str(ctx.scratch)
    ids = S._ids(base)
    S.ACTUAL.update(ids["actual"])
    res.extra["arguments"] = ids["actual"]
    thorough = ctx.thorough or scale > 1
    rng = ctx.rng("sched")
    if ctx.replay and ctx.replay.get("case", {}).get("kind") == "object-history":
        rec = _run_history((base, ids, ctx.replay["case"]["history"], "replay"))
        res.evaluations += 1
        _judge_history(res, rec)
        return res
    if not ctx.replay and os.environ.get("VERIF_C11_OBJECTS", "1") != "0":
        # first thing tried: another OBJECT clears / evicts between two operations of this object
        found = _objects_probe(ctx, res, base, ids, thorough)
        if found and deadline is not None and _unlisted(ctx, res):
            return res
    pre = {name: _prepare_scenario(base, name, ids) for name in SCENARIOS}
    if ctx.replay and ctx.replay.get("case", {}).get("scenario") in SCENARIOS:
        case = ctx.replay["case"]
        rec = _run_schedule((base, case["scenario"], pre[case["scenario"]], ids, case["schedule"], "replay", False))
        res.evaluations += 1
        if rec.get("res") is None:
            res.fail("scheduler-run-failed", dict(scenario=case["scenario"], schedule=case["schedule"]), dict(rc=rec["rc"], err=rec["err"]))
            return res
        _judge(res, rec, case["scenario"])
        rq = _model_request(rec, case["scenario"], ids)
        if rq is not None:
            _compare(res, rec, case["scenario"], ctx.driver().run([rq])[0])
        return res
    # dry runs: number of steps of every participant when run alone first
    dry = [(base, name, pre[name], ids, dict(mode="none", trace=True), "dry", False) for name in SCENARIOS]
    jobs = []
    with cf.ProcessPoolExecutor(max_workers=min(16, os.cpu_count() or 4)) as ex:
        dry_out = list(ex.map(_run_schedule, dry, chunksize=1))
        steps, traces, fs_steps = {}, {}, {}
        for rec in dry_out:
            if rec.get("res") is None:
                raise core.InfraError(f"C11 dry run failed: {rec['name']} rc={rec['rc']} {rec['err']}")
            steps[rec["name"]] = rec["res"]["steps"]
            traces[rec["name"]] = rec["res"].get("trace") or []
            fs_steps[rec["name"]] = rec["res"].get("fs_steps") or []
        # sweeps: participant t pre-empted at step n by participant u (who then runs to completion)
        per = 400 if thorough else 6
        for name, sc in SCENARIOS.items():
            if name == "mix4":
                continue
            n_parts = len(sc["parts"])
            for t in range(min(n_parts, 2)):
                u = 1 - t
                total = steps[name][t]
                pts = list(range(1, total + 1))
                if len(pts) > per:
                    # tracked lines before the first store access are uninteresting: bias to the second half, keep spread
                    stride = max(1, len(pts) // per)
                    off = rng.randrange(stride)
                    pts = pts[off::stride][:per]
                # every line of the directory-removal helpers (whatever code the tree under test runs there: shutil, disk.py,
                # clear_location / clear_item / clear_path / clear) is a pre-emption point — this is where two users
                # invalidating the same entry or function directory meet
                tr = traces.get(name) or []
                dense = [k + 1 for k, (fn, co) in enumerate(tr[t] if t < len(tr) else [])
                         if fn in REMOVAL_FILES or co in REMOVAL_FUNCS]
                cap = 400 if thorough else 16
                if len(dense) > cap:
                    stride = -(-len(dense) // cap)
                    dense = dense[rng.randrange(stride)::stride]
                # every tracked line at which the participant issues a file-system call (recorded by the dry run): a single
                # pre-emption at each of them enumerates the two-party interleavings at file-system-call granularity —
                # complete also in the quick tier (a creator pre-empted inside os.makedirs by a remover, a reader between
                # its existence test and its open, ...)
                fsp = list((fs_steps.get(name) or [[]] * n_parts)[t]) if t < len(fs_steps.get(name) or []) else []
                capf = 2000 if thorough else 90
                if len(fsp) > capf:
                    stride = -(-len(fsp) // capf)
                    fsp = fsp[rng.randrange(stride)::stride]
                res.count("fs-call-preemption-points", len(fsp))
                for n in sorted(set(pts) | set(dense) | set(fsp)):
                    jobs.append((base, name, pre[name], ids, dict(mode="switch", points=[[t, n, u]]), f"sw{t}-{n}", False))
        for key, (name, script) in SCRIPTS.items():
            jobs.append((base, name, pre[name], ids, dict(mode="lines", script=script), "script-" + key, False))
        nseeds = 60 if thorough else 10
        for name in ("cold-call-call", "warm-call-reduce", "expire-call-call", "three-callers", "mix4", "call-clear",
                     "expired-three", "srcchange-call-call", "fclear-fclear-call"):
            for sd in range(nseeds):
                jobs.append((base, name, pre[name], ids,
                             dict(mode="prng", seed=ctx.seed * 1000 + sd, max=3, p=0.03), f"prng{sd}", False))
        if deadline is None:
            out = list(ex.map(_run_schedule, jobs, chunksize=2))
        else:
            # failing-input search: directed scripts and random schedules first, then the sweeps in random order; judged
            # chunk by chunk; stops at the first failing input that is not a known finding, or when the budget is used up
            first = [j for j in jobs if j[4]["mode"] != "switch"]
            sweeps = [j for j in jobs if j[4]["mode"] == "switch"]
            rng.shuffle(sweeps)
            jobs, out = first + sweeps, []
            for k in range(0, len(jobs), 64):
                chunk = list(ex.map(_run_schedule, jobs[k:k + 64], chunksize=2))
                out += chunk
                probe = Result()
                for rec in chunk:
                    if rec.get("res") is not None and rec["rc"] == 0:
                        _judge(probe, rec, rec["name"])
                if _unlisted(ctx, probe):
                    res.notes.append(f"failing-input search stopped at the first failing input ({len(out)} of {len(jobs)} schedules run)")
                    break
                if time.time() > deadline:
                    res.notes.append(f"failing-input search stopped by its budget ({len(out)} of {len(jobs)} schedules run)")
                    break
    reqs, pend = [], []
    for rec in dry_out + out:
        name = rec["name"]
        if rec.get("res") is None or rec["rc"] != 0:
            res.fail("scheduler-run-failed", dict(scenario=name, schedule=rec["schedule"]), dict(rc=rec["rc"], err=rec["err"]))
            continue
        res.evaluations += 1
        res.count("scenario:" + name)
        res.count("mode:" + rec["schedule"]["mode"])
        inter = tuple(pi for pi, _ in rec["ops"])
        switched = len({pi for pi in inter}) > 1 and any(a != b for a, b in zip(inter, inter[1:]))
        if switched and rec["res"]["switches"]:
            res.nontrivial.add((name, inter))
        res.sample(dict(scenario=name, schedule=rec["schedule"], switches=rec["res"]["switches"],
                        outcomes=[r and r["outcome"][:2] for r in rec["res"]["results"]]))
        _judge(res, rec, name)
        if deadline is not None:
            continue  # the search is judged by the oracles only
        rq = _model_request(rec, name, ids)
        if rq is None:
            res.count("order-inconsistent")
            continue
        reqs.append(rq)
        pend.append((rec, name))
    if deadline is not None and (_unlisted(ctx, res) or time.time() > deadline):
        return res
    if reqs:
        for (rec, name), rep in zip(pend, ctx.driver().run(reqs)):
            _compare(res, rec, name, rep)
    _mixture_probe(ctx, res, thorough)
    _fork_probe(ctx, res, thorough)
    if thorough:
        _stress(ctx, res, base, ids)
    res.assumptions = ["threads of one process stand for processes (own function object, Memory object, temporary suffix)",
                       "exceptions raised by clear()/reduce_size() themselves are not C11 violations"]
    return res


def _unlisted(ctx, res):
    """Failing inputs of `res` that are not known findings."""
    known = core.load_known()
    return [f for f in res.oracle_failures if not core.match_known(ctx.prop, f["signature"], known)]


SEARCH_BUDGET = float(os.environ.get("VERIF_C11_SEARCH_BUDGET", "360"))  # seconds of wall time


def run(ctx):
    return _explore(ctx)


def search(ctx, res):
    """Failing-input search: thorough-tier families, oracles only; ends with the first failing input that is not a known
    finding and never runs longer than SEARCH_BUDGET (+ the schedules in flight)."""
    ctx2 = core.Ctx(prop=ctx.prop, tier="thorough", seed=ctx.seed, scratch=ctx.scratch / "search")
    os.makedirs(ctx2.scratch, exist_ok=True)
    return _explore(ctx2, scale=10, deadline=time.time() + SEARCH_BUDGET)
