"""C04 — see DESIGN.md section 6/C04. Model M1 (lean/JoblibModel/ParallelProto.lean), theorems lean/JoblibProofs/C04.lean,
deterministic scenarios through harness/ctl.py, oracles in harness/m1.py; exception transport of the pool backends
(lean/JoblibModel/ExcTransport.lean) tied by harness/exc_transport.py."""

from .. import exc_transport, m1, native_pool

REQUIRED_THEOREMS = [
    "C04.error_surfaces",
    "C04.overlapping_call_raises",
    "C04.failing_batch_aborts",
    "C04.aborting_is_monotone",
    "C04.ret_means_no_exception",
    "C04.iterator_error_is_raised",
    "C04.timeout_raises",
    "C04.call_terminates",
    "C04.clean_after_call",
    "C04.clean_after_close",
    "C04.clean_after_exhaustion",
    "C04.stale_callbacks_are_noops",
    "C04.next_call_is_fresh",
    "C04.second_call_correct",
    "C04.second_call_correct_unordered",
    "C04.clean_after_exhaustion_unordered",
    "C04.between_calls_noop",
    "C04.abort_deliveries_are_noops",
    "C04.between_keeps",
    "C04.sequential_error_surfaces",
    "C04.sequential_clean_after_call",
    "C04.failed_start_raises_the_fault",
    "C04.failed_start_leaves_clean",
    "C04.failed_start_releases_backend",
    "C04.next_call_after_failed_start_is_fresh",
    "C04.second_call_correct_after_failed_starts",
    "C04.second_call_correct_after_failed_starts_unordered",
    "C04.history_leaves_idle",
    "C04.sequential_failed_start",
    "C04.failed_start_counterexample",
    "C04.failed_start_unguarded_blocks_next_call",
    "C04.no_fault_is_old_model",
    "C04.transport_preserves_outcome",
    "C04.thread_transport_is_exact",
    "C04.raw_pool_exception_is_raised",
    "C04.returned_exception_instance_is_raised_witness",
    "C04.transport_table",
    "M1L.reachable_inv",
    "M1L.reachable_inv2",
    "M1L.error_surfaces",
    "M1L.error_surfaces_partial",
    "M1L.raise_is_legit",
    "M1L.error_surfaces_counterexample",
    "M1L.outcome_done",
    "M1L.no_deadlock",
    "M1L.quiescent_termination",
    "M1L.quiescent_termination_bounded",
    "M1L.quiescent_termination_after",
    "M1LSeq.reachable_inv",
    "M1LSeq.stale_steps_are_noops",
    "M1LSeq.stale_never_holds_lock",
    "M1LSeq.all_old_threads_stale",
    "M1LSeq.current_call_refines_M1L",
    "M1LSeq.finished_call_refines_M1L",
    "M1LSeq.step_refines",
    "M1LSeq.next_call_is_fresh",
    "M1LSeq.reset_overwrites_before_read",
    "M1LSeq.between_calls_steps_keep_fresh",
    "M1LSeq.return_correct_seq",
    "M1LSeq.error_surfaces_seq",
    "M1LSeq.raise_is_legit_seq",
    "M1LSeq.clean_call_returns_seq",
    "M1LSeq.stale_dispatch_new_counterexample",
    "M1LU.reachable_lockInv",
    "M1LU.mutex",
    "M1LU.no_deadlock",
    "M1LU.timeout_raises",
    "M1LU.timeout_registers",
    "M1LU.timeout_only_when_waited",
    "M1LU.timeout_registered_raises_ordered",
    "M1LU.timeout_path_ordered",
    "M1LU.timeout_registered_raises_unordered",
    "M1LU.timeout_path_unordered",
    "M1LU.error_jobs_hold_exceptions",
    "M1LU.registration_once",
    "M1LU.timeout_branch_guarded",
    "M1LU.error_surfaces_unordered",
    "M1LU.aborting_has_error_job",
]
EXTRA_LEAN_MODULES = ("JoblibProofs.M1L", "JoblibProofs.M1LSeq", "JoblibProofs.M1LU",)
EXTRA_LEAN_TARGETS = ("drv_m1l", "drv_m1lseq", "drv_m1lu",)
TRUSTED_EXTRA = [
    "exception transport (lean/JoblibModel/ExcTransport.lean, C04.transport_*): the pickle round trip of an exception instance is a parameter of the model constrained by 'a round trip that succeeds preserves class and args' (checked on the grid by the oracle, not proved of pickle); lists of results round-trip to themselves; the tie (harness/exc_transport.py) runs the real _TracebackCapturingWrapper / retrieve_result_callback / _ExceptionWithTraceback in-process against a Python TRANSCRIPTION of the model (no Lean driver run), whose finite table is compared with the literal rows of the proved theorem C04.transport_table; loky's executor-side capture and the content of the traceback string are covered by native runs only",
    "M1LU (lean/JoblibModel/ParallelLockU.lean, theorems M1LU.*): the model M1L extended at the SAME granularity to return_as='generator_unordered' and to timeout (fake clock: one tick per time.sleep of the retrieval loop; time.time() is not a scheduling point): _jobs_set, the control-job pick under the lock, get_status with a timeout, _register_outcome(TimeoutError) run by the caller without the lock, the unlocked write of _jobs_set in finally; one call on a fresh object; next(iter(_jobs_set)) picks an arbitrary element: the model takes the pick from a script, the harness installs an insertion-ordered set that follows the same script (so every pick can be forced; the theorems hold for all scripts); tied by step-log equality of forced real-thread schedules (harness/m1_lock.py, scenarios with ra=2 or a timeout -> drv_m1lu); proved for all interleavings: mutex / lock owner, pulls only by the lock owner, no deadlock, completion(=registration)-order delivery, timeout only after more than `timeout` ticks on one pending tracker, _raise_error_fast finds the failed job; NOT proved for M1LU (checked by the tie's oracles): item-level exactly-once / all-n-at-exhaustion (M1L's dispatch-side proofs were not ported), termination (the trace-level 'registered TimeoutError => the call raises' IS proved: M1LU.timeout_registered_raises_ordered / _unordered)",
    "M1L-Seq (lean/JoblibModel/ParallelLockSeq.lean, theorems M1LSeq.*): sequences of calls on one object at M1L granularity; between two calls the caller thread does nothing but return/raise and call again (one atomic step up to the lock of _reset_run_tracking); uuid4 call ids are pairwise distinct (modelled by a counter); the backend keeps calling back for batches of earlier calls from threads it does not join (worst case); termination of sequences is checked, not proved",
    "M1L (lean/JoblibModel/ParallelLock.lean, theorems M1L.*): a second, small-step, multi-threaded model of the same protocol; one atomic step = the code of one thread between two scheduling points (outermost acquire/release of Parallel._lock, a backend call, time.sleep, an unlocked access to _aborting/_exception/_iterating/_original_iterator/n_dispatched_tasks/n_completed_tasks/_jobs/tracker status), any number of callback threads, every interleaving; scope: one call on a fresh object, ordered modes, no timeout; tied to the code by step-log equality of forced real-thread schedules (instrumented lock, controllable backend, descriptor-instrumented shared attributes, no line numbers); assumed: threading.RLock mutual exclusion, atomicity of a single attribute load/store under the GIL; accesses to attributes outside the list and the input iterator's __next__ are atomic with their segment; termination under the drain schedule (completions, then callbacks, then the caller) is PROVED from every reachable state with an explicit bound (quiescent_termination*, measure 1300*W+100*P+100*L+R); termination under other fair schedules is not stated",
    "start-up faults (lean/JoblibModel/ParallelStartup.lean, F52): one statement of Parallel._start_call raises per faulted call (len(iterable), "
    "backend.configure, n_jobs == 0, backend.start_call, iter(iterable), the pre_dispatch resolution, islice); the CLASS of the exception a bad "
    "pre_dispatch raises is an input of the model (taken from the harness table m1.BAD_PD, checked against the real Parallel by the event log), "
    "not derived from JoblibModel/EvalExpr.lean; pre_dispatch faults are injected by assigning the public attribute Parallel.pre_dispatch "
    "before the call; which code variant the model follows (startGuard) is chosen by a behavioural probe (m1.probe_start_guard)",
    "M1 granularity: completion callbacks are atomic and happen at hook points of the caller (configure, compute_batch_size, sleep, consumer "
    "pauses, inside backend.abort_everything, between two calls and after the last one); interleavings inside a callback or between two bytecodes of the caller are not in the model",
    "modelled, not verified: the backend contract (each submitted batch executed at most once, its callback invoked at most once), "
    "threading.RLock, itertools.islice, queue.Queue, collections.deque, pickling of batches to worker processes",
]
FOCUSES = (None, 'fail', 'timeout')


def run(ctx):
    if native_pool.is_replay(ctx):
        return native_pool.replay(ctx, "C04")
    if exc_transport.is_replay(ctx):
        return exc_transport.replay(ctx)
    res = m1.run_prop(ctx, "C04", FOCUSES)
    return res if ctx.replay else exc_transport.probe(ctx, native_pool.probe(ctx, res, "C04"))


def search(ctx, res):
    return m1.search_prop(ctx, "C04", res, FOCUSES)
