"""C18 — reduce_size enforces every limit by evicting the minimal LRU prefix.

Model: lean/JoblibModel/Lru.lean; theorems: lean/JoblibProofs/C18.lean; driver: Driver/C18.lean.
Implementation side: real `Memory.reduce_size` on inventories built on disk in a scratch
directory (real cached calls + synthetic entries for zero sizes), access times set with os.utime.
"""

import datetime
import os
import re
import time

from .. import core
from ..core import Result

REQUIRED_THEOREMS = [
    "C18.lru_order",
    "C18.deleted_is_prefix",
    "C18.limits_hold_after",
    "C18.minimal",
    "C18.none_means_no_limit",
    "C18.satisfied_evicts_nothing",
]
TRUSTED_EXTRA = [
    "modelled, not verified: os.walk/getatime/getsize inventory (fed to the model as read by store_backend.get_items()), "
    "shutil.rmtree, datetime.now() - age_limit (the deadline is an input of the model; ages are kept >= 400 s from it)",
    "memstr_to_bytes with a fractional mantissa goes through a Python float: correspondence only",
]

EXEC_LOG = []


def _payload(i, n):
    EXEC_LOG.append(i)
    return b"x" * n


def _gen_case(rng, big=False):
    n = rng.choice([0, 1, 1, 2, 3, 3, 4, 5, 6, 8] + ([12, 20] if big else []))
    n_real = rng.randint(0, n)
    entries = []
    for i in range(n):
        real = i < n_real
        # at most one entry directory without output.pkl (writer died / unpicklable result); its age is the
        # directory's atime, which listing the directory refreshes: it is always the most recently used entry
        incomplete = (not real) and rng.random() < 0.25 and not any(e["incomplete"] for e in entries)
        if real:
            size = rng.choice([0, 1, 10, 100, 500, 1000, 1024, 3000])
        else:
            size = rng.choice([0, 0, 1, 7, 512, 1023, 1024, 1025, 2048])
        k = rng.randint(0, 3) if rng.random() < 0.5 else rng.randint(0, n + 1)  # ties are common
        entries.append(dict(real=real, arg=i, size=size, k=k, incomplete=incomplete))
    return dict(entries=entries, lim=None)


def _limits_for(rng, items):
    """items: list of (id, size, access). Boundary-biased limits."""
    n = len(items)
    tot = sum(s for _, s, _ in items)
    srt = sorted(items, key=lambda t: t[2])
    suffix_sums = [sum(s for _, s, _ in srt[j:]) for j in range(n + 1)]
    b_choices = [None, None, 0, tot, tot - 1, tot + 1] + suffix_sums + [x + d for x in suffix_sums for d in (-1, 1)]
    b = None if rng.random() < 0.4 else rng.choice(b_choices[2:])
    if b is not None and b < 0:
        b = 0
    bstr = None
    if rng.random() < 0.2:
        bstr = rng.choice(["1K", "2K", "0K", "3K", "1M", "1.5K", "0.5K"])
    il = None if rng.random() < 0.45 else rng.choice([0, 1, n - 1, n - 1, n - 2, n, n + 1, rng.randint(0, n + 2)])
    if il is not None and il < 0:
        il = 0
    j = None if rng.random() < 0.45 else rng.choice(list(range(-1, n + 3)))
    return b, bstr, il, j


def _memstr(s):
    units = dict(K=1024, M=1024**2, G=1024**3)
    return int(units[s[-1]] * float(s[:-1]))


def _oracle(items, deleted_ids, b, il, deadline):
    """Direct judgement of the implementation's outcome (tie-tolerant). Returns list of signatures."""
    bad = []
    D = [t for t in items if t[0] in deleted_ids]
    S = [t for t in items if t[0] not in deleted_ids]

    def sat(kept):
        v = []
        if b is not None and sum(s for _, s, _ in kept) > b:
            v.append("bytes")
        if il is not None and len(kept) > il:
            v.append("items")
        if deadline is not None and any(a <= deadline for _, _, a in kept):
            v.append("age")
        return v

    v = sat(S)
    if v and S:  # with a negative/unsatisfiable limit everything must go; S == [] is then fine
        bad.append("limit-violated-after:" + "+".join(v))
    if D and S and max(a for _, _, a in D) > min(a for _, _, a in S):
        bad.append("evicted-a-more-recent-entry")
    if D:
        mx = max(a for _, _, a in D)
        if not any(sat(S + [x]) for x in D if x[2] == mx):
            bad.append("evicted-more-than-needed")
    return bad


def _run_case(ctx, res, case, idx, requests, pending):
    joblib = core.use_repo()
    loc = ctx.scratch / f"case{idx}"
    mem = joblib.Memory(str(loc), verbose=0)
    f = mem.cache(_payload)
    EXEC_LOG.clear()
    real_dirs = {}
    for e in case["entries"]:
        if e["real"]:
            ref = f.call_and_shelve(e["arg"], e["size"])
            real_dirs[e["arg"]] = os.path.join(mem.store_backend.location, ref.func_id, ref.args_id)
    func_dir = None
    for p in real_dirs.values():
        func_dir = os.path.dirname(p)
    if func_dir is None:
        func_dir = os.path.join(mem.store_backend.location, "synthetic", "func")
        os.makedirs(func_dir, exist_ok=True)
    paths = {}
    for e in case["entries"]:
        if e["real"]:
            paths[e["arg"]] = real_dirs[e["arg"]]
        else:
            p = os.path.join(func_dir, "%032x" % (0xABC000 + e["arg"]))
            os.makedirs(p, exist_ok=True)
            with open(os.path.join(p, "metadata.json" if e.get("incomplete") else "output.pkl"), "wb") as fh:
                fh.write(b"\0" * e["size"])
            paths[e["arg"]] = p
    now = int(time.time())
    base = now - 100000
    for e in case["entries"]:
        t = base + 50000 if e.get("incomplete") else base - 1000 * e["k"]
        tgt = paths[e["arg"]] if e.get("incomplete") else os.path.join(paths[e["arg"]], "output.pkl")
        os.utime(tgt, (t, t))
    by_path = {p: a for a, p in paths.items()}
    # the inventory, read independently of the store backend: every entry directory, its files' total size, the
    # access time of output.pkl (of the directory when there is no output.pkl)
    own = {}
    for a, p in paths.items():
        files = [os.path.join(p, f) for f in os.listdir(p)]
        out = os.path.join(p, "output.pkl")
        own[a] = (a, sum(os.path.getsize(f) for f in files),
                  int(os.path.getatime(out)) if os.path.exists(out) else base + 50000)
    # order of equal access times: the order in which the backend lists the entries (stable sort); entries it does
    # not list at all are appended (the oracle below still judges the cache by every entry that is on disk)
    try:
        inv = mem.store_backend.get_items()
    except Exception as e:  # noqa: BLE001
        inv = []
        res.fail("get_items-raises:" + type(e).__name__, dict(entries=case["entries"]), repr(e))
    order = [by_path[it.path] for it in inv if it.path in by_path]
    order += [a for a in own if a not in order]
    items = [own[a] for a in order]
    if case["lim"] is None:
        case["lim"] = _limits_for(ctx.rng(f"lim{idx}"), items)
    b, bstr, il, j = case["lim"]
    if bstr is not None:
        b_model = _memstr(bstr)
        b_arg = bstr
    else:
        b_model, b_arg = b, b
    if j is None:
        age, deadline = None, None
    else:
        deadline = base - 1000 * j - 500
        age = datetime.timedelta(seconds=now - deadline)
    before = set(paths.values())
    try:
        mem.reduce_size(bytes_limit=b_arg, items_limit=il, age_limit=age)
        outcome = "ok"
    except Exception as e:  # noqa: BLE001
        outcome = "raises:" + type(e).__name__
    surviving = {p for p in before if os.path.isdir(p)}
    deleted = sorted(by_path[p] for p in before - surviving)
    desc = dict(items=items, bytes_limit=b_arg, items_limit=il, deadline_rel=None if j is None else j,
                deadline=deadline, deleted=deleted, outcome=outcome)
    res.evaluations += 1
    res.count(f"n={len(items)}")
    res.count("limits=" + "".join(c if v is not None else "-" for c, v in zip("BIA", (b_arg, il, age))))
    res.count("deleted=" + ("none" if not deleted else "all" if len(deleted) == len(items) else "some"))
    if items and (b_arg is not None or il is not None or age is not None):
        key = (tuple((s, a - base) for _, s, a in items), b_model, il, j)
        res.nontrivial.add(key)
    res.sample(desc)
    # oracle on the implementation
    if outcome != "ok":
        res.fail("reduce_size-" + outcome, desc, outcome)
    else:
        all_none = b_arg is None and il is None and age is None
        for sig in ([] if all_none else _oracle(items, set(deleted), b_model, il, deadline)):
            res.fail(sig, desc, sig)
        if all_none and deleted:
            res.fail("evicts-without-limit", desc, "deleted with no limit")
        # survivors stay loadable, evicted ones are recomputed on demand
        for e in case["entries"]:
            if not e["real"]:
                continue
            EXEC_LOG.clear()
            hit = f.check_call_in_cache(e["arg"], e["size"])
            try:
                v = f(e["arg"], e["size"])
            except Exception as ex:  # noqa: BLE001
                res.fail("entry-unusable-after-reduce", desc, repr(ex))
                continue
            executed = bool(EXEC_LOG)
            if v != b"x" * e["size"]:
                res.fail("wrong-value-after-reduce", desc, e)
            if e["arg"] in deleted and (hit or not executed):
                res.fail("evicted-entry-still-served", desc, e)
            if e["arg"] not in deleted and (not hit or executed):
                res.fail("survivor-not-served-from-cache", desc, e)
    # request for the model
    tok = lambda v: "-" if v is None else str(v)  # noqa: E731
    requests.append(" ".join([tok(b_model), tok(il), tok(deadline)] + [f"{a} {s} {t}" for a, s, t in items]))
    pending.append((desc, deleted, outcome))
    import shutil

    shutil.rmtree(loc, ignore_errors=True)


def _explore(ctx, n_cases, salt, big=False, cases=None):
    res = Result()
    res.rule = ("inventories of 0..8 (thorough: ..20) entries built on disk (real cached calls + synthetic entries), "
                "sizes incl. 0, access times with frequent ties; limits boundary-biased (None, 0, exact fit of every LRU suffix, +-1, "
                "'1K'-style strings); non-trivial = non-empty inventory with at least one limit; distinct by (sizes, relative access times, limits)")
    rng = ctx.rng(salt)
    requests, pending = [], []
    todo = cases if cases is not None else [_gen_case(rng, big) for _ in range(n_cases)]
    for idx, case in enumerate(todo):
        _run_case(ctx, res, case, f"{salt}{idx}", requests, pending)
    replies = ctx.driver().run(requests)
    for (desc, deleted, outcome), rep in zip(pending, replies):
        m = re.fullmatch(r"del((?: \d+)*)", rep.strip())
        if not m:
            raise core.InfraError(f"driver reply {rep!r}")
        model_deleted = sorted(int(x) for x in m.group(1).split())
        res.traces_validated += 1
        if outcome != "ok" or model_deleted != deleted:
            res.diverge("deleted-set", desc, dict(deleted=deleted, outcome=outcome), dict(deleted=model_deleted))
    res.assumptions = ["no concurrent writer during reduce_size", "access times are whole seconds, >= 400 s away from the deadline"]
    return res


def run(ctx):
    if ctx.replay:
        case = ctx.replay.get("case", {})
        items = case.get("items", [])
        base_k = {a: k for a, (_, _, k) in zip(range(len(items)), items)}
        # rebuild an equivalent synthetic inventory (sizes/relative order) and the same limits
        accs = sorted({t for _, _, t in items}, reverse=True)
        entries = [dict(real=False, arg=a, size=s, k=accs.index(t)) for a, s, t in items]
        j = case.get("deadline_rel")
        c = dict(entries=entries, lim=(case.get("bytes_limit") if not isinstance(case.get("bytes_limit"), str) else None,
                                       case.get("bytes_limit") if isinstance(case.get("bytes_limit"), str) else None,
                                       case.get("items_limit"), j))
        return _explore(ctx, 1, "replay", cases=[c])
    return _explore(ctx, 1500 if ctx.thorough else 250, "main", big=ctx.thorough)


def search(ctx, res):
    return _explore(ctx, 3000, "search", big=True)
