"""C18 — reduce_size enforces every limit by evicting the minimal LRU prefix.

Model: lean/JoblibModel/Lru.lean (selection) + lean/JoblibModel/StoreLimits.lean (inventory walk, size-string parser,
deletion loop, reduce_size); theorems: lean/JoblibProofs/C18.lean; driver: lean/Driver/C18.lean.

Implementation side: real `Memory.reduce_size` on stores built on disk in a scratch directory:
* entries of up to three cached functions in ONE store — real cached calls of functions taking EQUAL arguments (equal
  argument hash → equal entry basenames under different function directories; one of the functions lives in a nested
  module path, so the walk is deeper), synthetic entries (zero sizes, entries without output.pkl, entries whose name merely
  STARTS with 32 hex digits, entries made unreadable by a dangling symbolic link), stray files / directories that are no
  entries (31 hex digits, upper-case hex, plain names);
* the store is read by the harness's OWN walk (os.scandir) into a tree that is what the model gets; the model's
  `getItems` of that tree is compared with `store_backend.get_items()`;
* `clear_location` faults are injected through a registered `FileSystemStoreBackend` subclass (the stale NFS handle of the
  code comment: the victim is removed and `OSError(ESTALE)` raised); the same subclass records the calls made;
* `bytes_limit` as int or as a string of the modelled grammar; a separate stream feeds `memstr_to_bytes` directly.
* INTERRUPTION: the same backend subclass can make `clear_location` call number `stop` raise something the loop does not
  swallow (KeyboardInterrupt / MemoryError / RuntimeError) before it removes anything, and it records which inventoried
  entries are gone after EVERY call: the order of the removals is observable, so "what has been removed so far is a
  prefix of the LRU order" is judged after every prefix of the deletion loop and on the store an interruption leaves;
* HISTORIES on ONE Memory object: after a `reduce_size` (which inventoried the store) the store is changed behind the
  object's back - a function cleared and its entries recomputed for the same arguments with ANOTHER result size, entries
  rewritten in place by `MemorizedFunc.call()`, removed by hand / by another Memory object, access times changed, entries
  added, synthetic entries rewritten, the whole store cleared - and `reduce_size` is called again with limits around the
  NEW totals; every round is judged against the tree read from disk by the harness just before the call.
The oracle never uses the model: it judges the directories left on disk against the harness's own inventory.
"""

import copy

import datetime
import errno
import os
import re
import shutil
import time
from fractions import Fraction

from .. import core
from ..core import Result

REQUIRED_THEOREMS = [
    "C18.lru_order",
    "C18.deleted_is_prefix",
    "C18.limits_hold_after",
    "C18.minimal",
    "C18.none_means_no_limit",
    "C18.satisfied_evicts_nothing",
    "C18.get_items_one_per_entry",
    "C18.get_items_size_is_sum",
    "C18.get_items_skips_unreadable",
    "C18.enforce_attempts_every_selected",
    "C18.reduce_size_limits_hold",
    "C18.reduce_size_evicts_minimal_lru_prefix",
    "C18.memstr_exact",
    "C18.memstr_rejects_bad_unit",
    "C18.no_limits_no_change",
    "C18.interrupted_eviction_is_lru_prefix",
    "C18.interruption_points",
    "C18.reduce_size_history_independent",
]
TRUSTED_EXTRA = [
    "modelled, not verified: os.scandir/os.walk listing order and stat results (read by the harness's own walk and given to the "
    "model as a tree), shutil.rmtree removing what it is asked to, datetime.now() - age_limit (the deadline is an input of the "
    "model; ages are kept >= 400 s from it)",
    "memstr_to_bytes goes through a Python float: the model computes the exact rational value; agreement holds for "
    "digits * unit < 2**53 (argument in StoreLimits.lean) and is checked by correspondence inside that budget; mantissas with "
    "characters outside [0-9.+-] (exponents, inf/nan, underscores, blanks) are outside the model",
    "'os.path.getatime(directory) raises' is modelled and proved about but cannot be produced on a quiescent file system; "
    "'getsize raises' / 'getatime(output.pkl) raises' are exercised with dangling symbolic links",
    "hash directories nested in hash directories (a cached function / module whose NAME starts with 32 hex digits; a pathlib "
    "store location with such a name) are excluded by the hypotheses Separated / RootNotItem of the end-to-end theorems; "
    "F47, C18.nested_hash_dir_counterexample, C18.hash_named_root_counterexample; the nested stream reproduces it",
    "interruption of the deletion loop: modelled (reduceSizeInt) and exercised as an exception that is no OSError raised by "
    "clear_location call number k BEFORE it removes anything (KeyboardInterrupt / MemoryError / RuntimeError injected by the "
    "registered backend subclass); a process killed in the middle of one rmtree (a half-removed entry) is not modelled",
    "histories: the model's only state is the directory tree (C18.reduce_size_history_independent is immediate in the model); "
    "that the CODE keeps no inventory between calls is established by correspondence: every reduce_size of a history on one "
    "Memory object is compared with the model on the tree the harness read from disk just before the call",
    "memstr_to_bytes as it is (the model follows the code, the malformed stream compares the exception CLASS): '' raises "
    "IndexError (text[-1] is outside the except clause), 'infK' / '1e999K' raise OverflowError (outside the modelled grammar), "
    "'1 K' is accepted (= 1024: float() strips blanks; outside the modelled grammar)",
]

EXEC_LOG = []
HEX_RE = re.compile("[a-f0-9]{32}")
_EPOCH = datetime.datetime(1970, 1, 1)
_US = datetime.timedelta(microseconds=1)


# Histories: the size of the result a cached function returns NOW for the arguments (i, n), when it is not n: the same
# arguments (same entry directory) recomputed later give a result of another size.
_OVERRIDE = {}


def _size_now(f, i, n):
    return _OVERRIDE.get((f, i, n), n)


def _payload(i, n):
    EXEC_LOG.append((0, i))
    return b"x" * _size_now(0, i, n)


def _payload_b(i, n):
    EXEC_LOG.append((1, i))
    return b"y" * _size_now(1, i, n)


def _payload_c(i, n):
    EXEC_LOG.append((2, i))
    return b"z" * _size_now(2, i, n)


_payload_c.__module__ = "c18deep.pkg.sub.mod"  # function directory four levels further down


def _hexnamed(i, n):
    EXEC_LOG.append((3, i))
    return b"h" * n


_hexnamed.__name__ = "deadbeefdeadbeefdeadbeefdeadbeef"  # a function NAME that starts with 32 hex digits (nested stream)

# The nested stream reproduces F47 (known_findings.json: directories that are no entries but whose NAME starts with 32 hex
# digits - a function directory, the store location - are inventoried as entries and evicted as such).
RUN_NESTED_STREAM = True
_FUNCS = [_payload, _payload_b, _payload_c]
_FILL = [b"x", b"y", b"z"]


# ----------------------------------------------------------------------------- fault-injecting backend

_BACKEND = {}


def _backend(joblib):
    """A FileSystemStoreBackend (of the tree under test) whose clear_location records its calls and, for the locations
    in `stale`, behaves like the stale NFS folder: the folder is gone and OSError(ESTALE) is raised."""
    if "cls" in _BACKEND:
        return _BACKEND["cls"]
    from joblib._store_backends import FileSystemStoreBackend

    class Faulty(FileSystemStoreBackend):
        calls = []
        stale = set()
        armed = False
        stop = None  # clear_location call number `stop` (0-based) is interrupted ...
        exc = KeyboardInterrupt  # ... by this exception, which the loop does not swallow, before anything is removed
        fired = False
        watch = []  # the inventoried entry directories; after every call: which of them are gone
        snaps = []

        def clear_location(self, location):
            if not Faulty.armed:
                return super().clear_location(location)
            Faulty.calls.append(location)
            if Faulty.stop is not None and len(Faulty.calls) > Faulty.stop:
                Faulty.fired = True
                raise Faulty.exc("interrupted (injected by the C18 harness)")
            try:
                if location in Faulty.stale:
                    shutil.rmtree(location, ignore_errors=True)  # the other client's work
                    raise OSError(errno.ESTALE, "Stale file handle", location)
                super().clear_location(location)
            finally:
                Faulty.snaps.append(frozenset(p for p in Faulty.watch if not os.path.isdir(p)))

    joblib.register_store_backend("c18faulty", Faulty)
    _BACKEND["cls"] = Faulty
    return Faulty


# ----------------------------------------------------------------------------- the harness's own reading of the store


def _us(ts):
    """Seconds (float, as os.path.getatime returns) -> whole microseconds, rounded like datetime.fromtimestamp does."""
    return (datetime.datetime.fromtimestamp(ts) - _EPOCH) // _US


def _dt_us(dt):
    return (dt - _EPOCH) // _US


def _scan(path):
    with os.scandir(path) as it:
        ents = list(it)
    return [e for e in ents if e.is_dir()], [e for e in ents if not e.is_dir()]


def _warm(path):
    """List every directory once: relatime refreshes a directory's atime on the first listing after a change, not again."""
    subs, _ = _scan(path)
    for e in subs:
        _warm(e.path)


def _stat(fn, p):
    try:
        return fn(p)
    except OSError:
        return None


def _read_tree(path, name):
    """(name, atime_us|None, [(fname, size|None, atime_us|None)], [subtrees]) in listing order."""
    subs, files = _scan(path)
    at = _stat(os.path.getatime, path)
    fl = []
    for e in files:
        s = _stat(os.path.getsize, e.path)
        a = _stat(os.path.getatime, e.path)
        fl.append((e.name, s, None if a is None else _us(a)))
    return (name, None if at is None else _us(at), fl, [_read_tree(e.path, e.name) for e in subs])


def _settled_tree(root, dir_atimes_matter):
    """The tree once the directory atimes no longer move (a listing in the clock tick of the last change is followed by
    one more refresh)."""
    if dir_atimes_matter:
        time.sleep(0.02)
    _warm(root)
    tree = _read_tree(root, os.path.basename(root))
    for _ in range(5):
        again = _read_tree(root, os.path.basename(root))
        if again == tree:
            return tree
        time.sleep(0.02)
        tree = again
    raise core.InfraError("directory access times do not settle")


def _tree_tokens(t):
    name, at, files, subs = t
    st = lambda v: "!" if v is None else str(v)  # noqa: E731
    out = ["D", name, st(at), str(len(files))]
    for fn, s, a in files:
        out += [fn, st(s), st(a)]
    out.append(str(len(subs)))
    for s in subs:
        out += _tree_tokens(s)
    return out


def _dirs_of(t, prefix=()):
    """All directories of a tree as relative paths ('.' = the store location), pre-order."""
    out = ["/".join(prefix) or "."]
    for s in t[3]:
        out += _dirs_of(s, prefix + (s[0],))
    return out


def _own_inventory(t, prefix=()):
    """The harness's own inventory: every directory whose basename starts with 32 lower-case hex digits and whose files
    can all be stat'ed: (relative path, total size of the files directly in it, last access in microseconds)."""
    name, at, files, subs = t
    out = []
    if HEX_RE.match(name):
        pk = [a for fn, _, a in files if fn == "output.pkl"]
        la = pk[0] if pk and pk[0] is not None else at
        if la is not None and all(s is not None for _, s, _ in files):
            out.append(("/".join(prefix) or ".", sum(s for _, s, _ in files), la))
    for s in subs:
        out += _own_inventory(s, prefix + (s[0],))
    return out


# ----------------------------------------------------------------------------- size strings


def _frac_str(b, unit):
    """The exact decimal spelling of b bytes in `unit` (K/M): b / 1024**j always has a finite decimal expansion."""
    j = dict(K=1, M=2)[unit]
    num = b * 5 ** (10 * j)  # b / 2**(10 j) = b * 5**(10 j) / 10**(10 j)
    digits = 10 * j
    s = str(abs(num)).rjust(digits + 1, "0")
    ip, fp = s[:-digits], s[-digits:].rstrip("0")
    return ("-" if b < 0 else "") + ip + ("." + fp if fp else "") + unit


def _exact_memstr(s):
    """Exact value of a size string of the modelled grammar (rational arithmetic; independent of model and code)."""
    unit = dict(K=1024, M=1024**2, G=1024**3)[s[-1]]
    m = s[:-1]
    if not re.fullmatch(r"[+-]?(\d+(\.\d*)?|\.\d+)", m):
        raise ValueError(s)
    v = Fraction(m if not m.endswith(".") else m + "0") * unit
    return int(v)  # int() of a Fraction truncates toward zero


def _in_budget(s):
    digits = re.sub(r"[^0-9]", "", s[:-1])
    unit = dict(K=1024, M=1024**2, G=1024**3)[s[-1]]
    return int(digits or "0") * unit < 2**53


def _cps(s):
    return ",".join(str(ord(c)) for c in s)


# ----------------------------------------------------------------------------- case generation


def _gen_case(rng, big=False):
    n = rng.choice([0, 1, 1, 2, 3, 3, 4, 5, 6, 8] + ([12, 20] if big else []))
    nfuncs = rng.choice([1, 2, 2, 3, 3])
    entries = []
    for i in range(n):
        func = rng.randrange(nfuncs)
        kind = "real" if rng.random() < 0.55 else rng.choice(["synth", "synth", "synth", "prefix", "incomplete", "unreadable", "pklgone"])
        # equal arguments across functions are the point: draw the argument from a small pool (unique within a function)
        arg = rng.randrange(max(2, (n + 1) // 2))
        if any(e["func"] == func and e["arg"] == arg for e in entries):
            arg = 100 + i
        if kind == "real":
            size = rng.choice([0, 1, 10, 100, 500, 1000, 1024, 3000])
            twins = [e for e in entries if e["kind"] == "real" and e["arg"] == arg]
            if twins and rng.random() < 0.85:
                size = twins[0]["size"]  # same (i, n) arguments -> same argument hash under another function
        else:
            size = rng.choice([0, 0, 1, 7, 512, 1023, 1024, 1025, 2048])
        k = rng.randint(0, 3) if rng.random() < 0.5 else rng.randint(0, n + 1)  # ties are common
        entries.append(dict(func=func, kind=kind, arg=arg, size=size, k=k,
                            extra=rng.choice([0, 0, 0, 5, 300]) if kind != "real" else 0,
                            sub=rng.choice([0, 0, 0, 0, 700]) if kind != "real" else 0,
                            suffix=rng.choice(["x", "_tmp", ".bak", "0", "-old"])))
    strays = [s for s in ("file-in-func", "dir31", "dirUPPER", "plain-dir", "file-in-root", "deep-empty") if rng.random() < 0.3]
    no_backend = rng.random() < 0.03
    more = 0 if no_backend or rng.random() < 0.78 else rng.choice([1, 1, 2, 2, 3])  # a history on the same Memory object
    return dict(entries=entries, strays=strays, lim=None, faults=None, no_backend=no_backend, more=more)


def _ref_prefix(items, b, il, deadline):
    """Length of the shortest LRU prefix meeting the limits (reference computation for choosing limits/victims only)."""
    srt = sorted(items, key=lambda t: t[2])
    for k in range(len(srt) + 1):
        rest = srt[k:]
        if b is not None and sum(s for _, s, _ in rest) > b:
            continue
        if il is not None and len(rest) > il:
            continue
        if deadline is not None and any(a <= deadline for _, _, a in rest):
            continue
        return k, srt
    return len(srt), srt


def _limits_for(rng, items, want_bytes=False):
    """items: list of (id, size, access). Boundary-biased limits; bytes as int or as a string of the modelled grammar.
    want_bytes (later rounds of a history): a byte limit most of the time, the other limits more rarely."""
    n = len(items)
    tot = sum(s for _, s, _ in items)
    srt = sorted(items, key=lambda t: t[2])
    suffix_sums = [sum(s for _, s, _ in srt[j:]) for j in range(n + 1)]
    b_choices = [0, tot, tot - 1, tot + 1] + suffix_sums + [x + d for x in suffix_sums for d in (-1, 1)]
    b = None if rng.random() < (0.1 if want_bytes else 0.4) else max(0, rng.choice(b_choices))
    bstr = None
    r = rng.random()
    if r < 0.12:
        bstr = rng.choice(["1K", "2K", "0K", "3K", "1M", "1.5K", "0.5K", "0.001M", "1.K", ".5K", "+2K", "0.0009765625K"])
    elif r < 0.30 and b is not None:
        bstr = _frac_str(b, rng.choice("KKM"))  # the exact-fit (+-1 byte) value spelt as fractional K / M
        if not _in_budget(bstr):
            bstr = None
    il = None if rng.random() < (0.75 if want_bytes else 0.45) else rng.choice([0, 1, n - 1, n - 1, n - 2, n, n + 1, rng.randint(0, n + 2)])
    if il is not None and il < 0:
        il = 0
    j = None if rng.random() < (0.75 if want_bytes else 0.45) else rng.choice(list(range(-1, n + 3)))
    return b, bstr, il, j


def _faults_for(rng, k):
    """Positions (ranks in the LRU order) whose clear_location raises; k = expected number of evictions."""
    r = rng.random()
    if r < 0.45 or k == 0:
        return []
    if r < 0.60:
        return [0]
    if r < 0.72:
        return [k // 2]
    if r < 0.82:
        return [k - 1]
    if r < 0.92:
        return sorted({rng.randrange(k + 1) for _ in range(rng.randint(2, 4))})
    return list(range(k + 1))


# ----------------------------------------------------------------------------- oracle


def _oracle(items, deleted_ids, b, il, deadline):
    """Direct judgement of the implementation's outcome (tie-tolerant). Returns list of signatures."""
    bad = []
    D = [t for t in items if t[0] in deleted_ids]
    S = [t for t in items if t[0] not in deleted_ids]

    def sat(kept):
        v = []
        if b is not None and sum(s for _, s, _ in kept) > b:
            v.append("bytes")
        if il is not None and len(kept) > il:
            v.append("items")
        if deadline is not None and any(a <= deadline for _, _, a in kept):
            v.append("age")
        return v

    v = sat(S)
    if v and S:  # with a negative/unsatisfiable limit everything must go; S == [] is then fine
        bad.append("limit-violated-after:" + "+".join(v))
    if D and S and max(a for _, _, a in D) > min(a for _, _, a in S):
        bad.append("evicted-a-more-recent-entry")
    if D:
        mx = max(a for _, _, a in D)
        if not any(sat(S + [x]) for x in D if x[2] == mx):
            bad.append("evicted-more-than-needed")
    return bad


# ----------------------------------------------------------------------------- one store case


def _make_synth(e, fd):
    """One synthetic entry directory below the function directory `fd`."""
    name = "%032x" % (0xABC000 + e["arg"])
    if e["kind"] == "prefix":
        name += e["suffix"]
    p = os.path.join(fd, name)
    os.makedirs(p, exist_ok=True)
    main = "metadata.json" if e["kind"] == "incomplete" else "output.pkl"
    if e["kind"] == "pklgone":
        os.symlink(os.path.join(p, "no-such-target"), os.path.join(p, "output.pkl"))  # getatime(output.pkl) raises
        main = "metadata.json"
    with open(os.path.join(p, main), "wb") as fh:
        fh.write(b"\0" * e["size"])
    if e["extra"]:
        with open(os.path.join(p, "metadata.json" if main == "output.pkl" else "extra.bin"), "wb") as fh:
            fh.write(b"\1" * e["extra"])
    if e.get("sub"):  # a sub-directory inside the entry: its files are not part of the entry's size
        os.makedirs(os.path.join(p, "parts", "deeper"), exist_ok=True)
        with open(os.path.join(p, "parts", "blob"), "wb") as fh:
            fh.write(b"\2" * e["sub"])
        with open(os.path.join(p, "parts", "deeper", "blob"), "wb") as fh:
            fh.write(b"\3" * 11)
    if e["kind"] == "unreadable":
        os.symlink(os.path.join(p, "no-such-target"), os.path.join(p, "vanishing.tmp"))  # getsize raises
    e["_path"] = p
    e["_main"] = os.path.join(p, main)


def _synth_dir(root, func_dirs, func):
    fd = func_dirs.get(func)
    if fd is None or not os.path.isdir(fd):
        fd = func_dirs.get(func) or os.path.join(root, "synthetic", "mod%d" % func, "func")
        os.makedirs(fd, exist_ok=True)
        func_dirs[func] = fd
    return fd


def _apply_times(case, base):
    """Access time of every live entry that has an output.pkl: base - 1000 k seconds."""
    for e in case["entries"]:
        if e["kind"] in ("incomplete", "pklgone") or not os.path.isdir(e["_path"]):
            continue  # no output.pkl to stat: the age is the directory's atime (refreshed by the first listing)
        t = base - 1000 * e["k"]
        os.utime(os.path.join(e["_path"], "output.pkl"), (t, t))


def _build_store(ctx, joblib, case, idx):
    """Creates the store of `case`; returns (mem, cached funcs, location, function directories, base, now)."""
    Faulty = _backend(joblib)
    Faulty.armed = False
    _OVERRIDE.clear()
    loc = ctx.scratch / f"case{idx}"
    mem = joblib.Memory(str(loc), backend="c18faulty", verbose=0)
    if not isinstance(mem.store_backend, Faulty):
        raise core.InfraError("fault-injecting backend not in use")
    root = mem.store_backend.location
    cached = [mem.cache(f) for f in _FUNCS]
    func_dirs = {}
    for e in case["entries"]:
        if e["kind"] == "real":
            ref = cached[e["func"]].call_and_shelve(e["arg"], e["size"])
            fd = os.path.join(root, ref.func_id)
            func_dirs[e["func"]] = fd
            e["_path"] = os.path.join(fd, ref.args_id)
            e["_cur"] = e["size"]
    for e in case["entries"]:
        if e["kind"] == "real":
            continue
        _make_synth(e, _synth_dir(root, func_dirs, e["func"]))
    some_fd = next(iter(func_dirs.values()), None)
    for s in case["strays"]:
        if s == "file-in-func" and some_fd:
            open(os.path.join(some_fd, "notes.txt"), "wb").write(b"n" * 11)
        elif s == "dir31" and some_fd:
            os.makedirs(os.path.join(some_fd, "%031x" % 0xABC001), exist_ok=True)
            open(os.path.join(some_fd, "%031x" % 0xABC001, "output.pkl"), "wb").write(b"s" * 900)
        elif s == "dirUPPER" and some_fd:
            os.makedirs(os.path.join(some_fd, ("%032x" % 0xABCDEF01).upper().replace("0", "A")), exist_ok=True)
        elif s == "plain-dir":
            os.makedirs(os.path.join(root, "lost+found", "sub"), exist_ok=True)
            open(os.path.join(root, "lost+found", "sub", "output.pkl"), "wb").write(b"s" * 700)
        elif s == "file-in-root":
            open(os.path.join(root, "README"), "wb").write(b"r" * 13)
        elif s == "deep-empty":
            os.makedirs(os.path.join(root, "a", "b", "c", "d", "e"), exist_ok=True)
    now = int(time.time())
    base = now - 100000
    _apply_times(case, base)
    return mem, cached, root, func_dirs, base, now


# ----------------------------------------------------------------------------- histories: changes behind the inventory


def _gen_changes(rng, case):
    """1..3 changes of the store made behind the Memory object's back, as JSON-able lists (entries by index)."""
    ents = case["entries"]
    live = [i for i, e in enumerate(ents) if os.path.isdir(e["_path"])]
    real = [i for i, e in enumerate(ents) if e["kind"] == "real"]
    synth_live = [i for i in live if ents[i]["kind"] in ("synth", "prefix")]
    n = len(ents)
    newsize = lambda i: rng.choice([s for s in (0, 1, 10, 100, 500, 1000, 1024, 3000, 5000) if s != ents[i].get("_cur")])  # noqa: E731
    newk = lambda: rng.randint(0, 3) if rng.random() < 0.5 else rng.randint(0, n + 1)  # noqa: E731
    out = []
    for _ in range(rng.choice([1, 1, 2, 2, 3])):
        kinds = ["add"]
        if real:
            kinds += ["call", "call", "call", "clear", "clear"]
        if live:
            kinds += ["rm", "utime", "utime"]
        if synth_live:
            kinds += ["resize", "resize"]
        if real and rng.random() < 0.15:
            kinds += ["clear-all"]
        kind = rng.choice(kinds)
        if kind == "call":  # MemorizedFunc.call(): computed again and written over the entry (or the entry re-created)
            i = rng.choice(real)
            out.append(["call", i, newsize(i), newk()])
        elif kind == "clear":  # MemorizedFunc.clear() (what a detected code change does), then the same arguments again
            f = ents[rng.choice(real)]["func"]
            redo = [[i, newsize(i) if rng.random() < 0.8 else ents[i].get("_cur", ents[i]["size"]), newk()]
                    for i in real if ents[i]["func"] == f and rng.random() < 0.8]
            out.append(["clear", f, redo])
        elif kind == "clear-all":
            out.append(["clear-all", [[i, newsize(i), newk()] for i in real if rng.random() < 0.7]])
        elif kind == "rm":
            out.append(["rm", rng.choice(live), rng.choice(["rmtree", "other-memory"])])
        elif kind == "utime":
            out.append(["utime", rng.choice(live), newk()])
        elif kind == "resize":
            out.append(["resize", rng.choice(synth_live), rng.choice([0, 1, 7, 512, 1023, 1024, 1025, 2048, 4000])])
        else:
            fn = rng.randrange(3)
            knd = "real" if rng.random() < 0.6 else "synth"
            out.append(["add", dict(func=fn, kind=knd, arg=200 + n + len(out), size=rng.choice([0, 1, 100, 512, 1024, 3000]),
                                    k=newk(), extra=rng.choice([0, 0, 300]) if knd != "real" else 0, sub=0, suffix="x")])
    return out


def _apply_changes(joblib, case, changes, mem, cached, root, func_dirs, res):
    ents = case["entries"]

    def recompute(i, size, k):
        e = ents[i]
        _OVERRIDE[(e["func"], e["arg"], e["size"])] = size
        cached[e["func"]].call(e["arg"], e["size"])
        e["_cur"], e["k"] = size, k

    for ch in changes:
        res.count("change=" + ch[0])
        if ch[0] == "call":
            recompute(ch[1], ch[2], ch[3])
        elif ch[0] == "clear":
            cached[ch[1]].clear(warn=False)
            for i, size, k in ch[2]:
                recompute(i, size, k)
        elif ch[0] == "clear-all":
            mem.clear(warn=False)
            for i, size, k in ch[1]:
                recompute(i, size, k)
        elif ch[0] == "rm":
            p = ents[ch[1]]["_path"]
            if ch[2] == "rmtree":
                shutil.rmtree(p, ignore_errors=True)
            else:
                joblib.Memory(os.path.dirname(root), verbose=0).store_backend.clear_location(p)
        elif ch[0] == "utime":
            ents[ch[1]]["k"] = ch[2]
        elif ch[0] == "resize":
            e = ents[ch[1]]
            if os.path.isdir(e["_path"]):
                with open(e["_main"], "wb") as fh:
                    fh.write(b"\0" * ch[2])
        elif ch[0] == "add":
            e = dict(ch[1])
            if e["kind"] == "real":
                ref = cached[e["func"]].call_and_shelve(e["arg"], e["size"])
                func_dirs[e["func"]] = os.path.join(root, ref.func_id)
                e["_path"] = os.path.join(root, ref.func_id, ref.args_id)
                e["_cur"] = e["size"]
            else:
                _make_synth(e, _synth_dir(root, func_dirs, e["func"]))
            ents.append(e)
        else:
            raise core.InfraError(f"unknown change {ch!r}")


# Local time zone of the process while a case runs: get_items() converts access times with datetime.fromtimestamp and the
# deadline is datetime.now() - age_limit, both NAIVE LOCAL datetimes; they must agree in every zone (fixed offsets, no DST, so
# the conversion is a shift and the 400 s margin around the deadline is kept).
_ZONES = ("UTC", "UTC", "AAA-3", "BBB+5", "CCC-5:45", "DDD+9:30")


def _set_zone(tz):
    os.environ["TZ"] = tz
    time.tzset()


def _run_case(ctx, res, case, idx, requests, pending):
    if case.get("tz") is None:
        case["tz"] = ctx.rng(f"tz{idx}").choice(_ZONES)
    saved = os.environ.get("TZ")
    _set_zone(case["tz"])
    try:
        res.count("tz=" + case["tz"])
        return _run_case_in_zone(ctx, res, case, idx, requests, pending)
    finally:
        if saved is None:
            os.environ.pop("TZ", None)
            time.tzset()
        else:
            _set_zone(saved)


_EXC = dict(KeyboardInterrupt=KeyboardInterrupt, MemoryError=MemoryError, RuntimeError=RuntimeError)


def _stop_for(rng, k):
    """The clear_location call (0-based) that is interrupted: any of the k expected ones, or k itself (too late to matter)."""
    if k == 0 or rng.random() < 0.72:
        return None
    return rng.choice([0, k - 1, k // 2, rng.randrange(k + 1), rng.randrange(k + 1)])


def _prefix_violation(items, gone_ids):
    """Tie-tolerant 'the removed entries are a prefix of the LRU order': no removed entry was accessed more recently
    than one that is still there."""
    D = [t for t in items if t[0] in gone_ids]
    S = [t for t in items if t[0] not in gone_ids]
    return bool(D and S and max(a for _, _, a in D) > min(a for _, _, a in S))


def _run_case_in_zone(ctx, res, case, idx, requests, pending):
    joblib = core.use_repo()
    EXEC_LOG.clear()
    if "rounds" not in case:  # one reduce_size (+ `more` further rounds, each after changes behind the inventory)
        first = dict(changes=[], lim=case["lim"], faults=case["faults"])
        if "stop" in case or case["faults"] is not None:
            first.update(stop=case.get("stop"), exc=case.get("exc", "KeyboardInterrupt"))
        case["rounds"] = [first] + [dict() for _ in range(case.get("more", 0))]
    mem, cached, root, func_dirs, base, now = _build_store(ctx, joblib, case, idx)
    spec0 = dict(entries=[{k: v for k, v in e.items() if not k.startswith("_")} for e in case["entries"]],
                 strays=case["strays"], no_backend=case["no_backend"])
    try:
        for r, rnd in enumerate(case["rounds"]):
            if r > 0:
                if rnd.get("changes") is None:
                    rnd["changes"] = _gen_changes(ctx.rng(f"chg{idx}r{r}"), case)
                _apply_changes(joblib, case, rnd["changes"], mem, cached, root, func_dirs, res)
                _apply_times(case, base)
            _run_round(ctx, res, case, idx, r, rnd, spec0, mem, cached, root, base, now, requests, pending)
    finally:
        _OVERRIDE.clear()
        shutil.rmtree(ctx.scratch / f"case{idx}", ignore_errors=True)


def _run_round(ctx, res, case, idx, r, rnd, spec0, mem, cached, root, base, now, requests, pending):
    joblib = core.use_repo()
    Faulty = _backend(joblib)
    tree = _settled_tree(root, r > 0 or any(e["kind"] in ("incomplete", "pklgone") for e in case["entries"]))
    items = _own_inventory(tree)  # [(relpath, size, atime_us)]
    dirs_before = _dirs_of(tree)
    spec = spec0

    # --- inventory correspondence: model getItems(tree) vs store_backend.get_items()
    try:
        inv = mem.store_backend.get_items()
        impl_items = sorted((os.path.relpath(it.path, root), it.size, _dt_us(it.last_access)) for it in inv)
    except Exception as e:  # noqa: BLE001
        impl_items = "raises:" + type(e).__name__
        res.fail("get_items-raises:" + type(e).__name__, dict(spec=spec), repr(e))
    requests.append("items " + " ".join(_tree_tokens(tree)))
    pending.append(("items", dict(spec=spec, round=r, own_inventory=items), impl_items))
    nfd = len({os.path.dirname(p) for p, _, _ in items})
    res.count(f"function-dirs-with-entries={nfd}")
    base_names = [os.path.basename(p) for p, _, _ in items]
    if len(set(base_names)) < len(base_names):
        res.count("equal-basenames-in-one-store")
    # --- limits, faults, interruption
    if rnd.get("lim") is None:
        rnd["lim"] = _limits_for(ctx.rng(f"lim{idx}r{r}" if r else f"lim{idx}"), items, want_bytes=r > 0)
    if isinstance(rnd["lim"], str):  # corpus: a byte limit relative to the total as it is NOW
        tot = sum(sz for _, sz, _ in items)
        rnd["lim"] = (max(0, tot + int(rnd["lim"][len("total"):] or 0)), None, None, None)
    rnd["lim"] = list(rnd["lim"])
    b, bstr, il, j = rnd["lim"]
    if bstr is not None:
        b_exact, b_arg = _exact_memstr(bstr), bstr
    else:
        b_exact, b_arg = b, b
    if j is None:
        age, deadline = None, None
    else:
        deadline_s = base - 1000 * j - 500
        deadline = _us(deadline_s)  # in the same (naive local) microseconds as the inventory's access times
        age = datetime.timedelta(seconds=int(time.time()) - deadline_s)
    kref, srt = _ref_prefix(items, b_exact, il, deadline)
    if rnd.get("faults") is None:
        rnd["faults"] = _faults_for(ctx.rng(f"faults{idx}r{r}" if r else f"faults{idx}"), kref)
    if "stop" not in rnd:
        rnd["stop"] = _stop_for(ctx.rng(f"stop{idx}r{r}"), kref)
        rnd["exc"] = ctx.rng(f"exc{idx}r{r}").choice(sorted(_EXC))
    stop, exc = rnd["stop"], rnd.get("exc") or "KeyboardInterrupt"
    fault_paths = [srt[q][0] for q in rnd["faults"] if q < len(srt)]
    all_none = b_arg is None and il is None and age is None

    # --- the call
    Faulty.calls, Faulty.snaps, Faulty.fired = [], [], False
    Faulty.stale = {os.path.join(root, p) for p in fault_paths}
    Faulty.watch = [os.path.join(root, p) for p, _, _ in items]
    Faulty.stop, Faulty.exc = stop, _EXC[exc]
    Faulty.armed = True
    target = joblib.Memory(location=None, verbose=0) if case["no_backend"] else mem
    try:
        target.reduce_size(bytes_limit=b_arg, items_limit=il, age_limit=age)
        outcome = "ok"
    except BaseException as e:  # noqa: BLE001
        if not isinstance(e, Exception) and not (Faulty.fired and type(e) is Faulty.exc):
            raise  # a real Ctrl-C / SystemExit, not the injected interruption
        outcome = "raises:" + type(e).__name__
    finally:
        Faulty.armed = False
        Faulty.stale = set()
        Faulty.stop = None
    interrupted = Faulty.fired and outcome == "raises:" + exc
    calls = [os.path.relpath(p, root) for p in Faulty.calls]
    snaps = [sorted(os.path.relpath(p, root) for p in sn) for sn in Faulty.snaps]
    tree_after = _read_tree(root, os.path.basename(root))
    dirs_after = _dirs_of(tree_after)
    gone = set(dirs_before) - set(dirs_after)
    deleted = sorted(p for p, _, _ in items if p in gone)
    try:
        inv2 = mem.store_backend.get_items()
        impl_items_after = sorted((os.path.relpath(it.path, root), it.size, _dt_us(it.last_access)) for it in inv2)
    except Exception as e:  # noqa: BLE001
        impl_items_after = "raises:" + type(e).__name__
    rounds_so_far = copy.deepcopy(case["rounds"][: r + 1])
    desc = dict(spec=spec, rounds=rounds_so_far, round=r, lim=[b, bstr, il, j], faults=rnd["faults"], stop=stop, exc=exc,
                tz=case["tz"], items=items, bytes_limit=b_arg, items_limit=il, deadline=deadline, fault_paths=fault_paths,
                deleted=deleted, calls=calls, outcome=outcome)
    res.evaluations += 1
    res.count(f"n={len(items)}")
    res.count("round=%s" % (r if r < 3 else "3+"))
    res.count("limits=" + "".join(c if v is not None else "-" for c, v in zip("BIA", (b_arg, il, age))))
    res.count("bytes_limit=" + ("none" if b_arg is None else "str" if bstr is not None else "int"))
    res.count("deleted=" + ("none" if not deleted else "all" if len(deleted) == len(items) else "some"))
    res.count("faults=" + ("none" if not fault_paths else "first" if rnd["faults"] == [0] else
                           "last" if rnd["faults"] == [kref - 1] else "one" if len(fault_paths) == 1 else "several"))
    res.count("interruption=" + ("none" if stop is None else "too-late" if not Faulty.fired else
                                 "before-the-first" if stop == 0 else "at-the-last" if stop == kref - 1 else "in-the-middle"))
    if case["no_backend"]:
        res.count("Memory(location=None)")
    if r == 0:
        for e in case["entries"]:
            res.count("entry-kind=" + e["kind"])
            if e.get("sub"):
                res.count("entry-with-sub-directory")
    if items and not all_none:
        key = (tuple((os.path.dirname(p), s, a - base * 10**6) for p, s, a in items), b_exact, il, j, tuple(rnd["faults"]), stop,
               r, repr(rnd["changes"]) if r else "")
        res.nontrivial.add(key)
    res.sample(desc)

    # --- oracle on the implementation (the harness's own inventory; never the model)
    # (1) the ORDER of the removals, seen after every clear_location call: what is gone so far is a prefix of the LRU order
    for n_done, sn in enumerate(snaps, 1):
        if _prefix_violation(items, set(sn)):
            res.fail("eviction-order:removed-so-far-not-lru-prefix", dict(desc, after_calls=n_done, removed_so_far=sn),
                     f"after {n_done} clear_location calls the entries {sn} are gone while less recently used ones are still there")
            break
    if interrupted:
        # (2) the store an interruption leaves: `stop` calls completed, so the `stop` least recently used entries are gone
        if _prefix_violation(items, set(deleted)):
            res.fail("interrupted:evicted-a-more-recent-entry", desc, deleted)
        if len(deleted) != stop:
            res.fail("interrupted:removed-count", desc, dict(completed_calls=stop, removed=deleted))
        for sig in _oracle(items, set(deleted), b_exact, il, deadline):
            if sig == "evicted-more-than-needed":
                res.fail("interrupted:" + sig, desc, sig)
        collateral = sorted(p for p in gone if not any(p == d or p.startswith(d + "/") for d in deleted))
        if collateral:
            res.fail("non-entry-directory-removed", desc, collateral)
    elif outcome != "ok":
        res.fail("reduce_size-" + outcome, desc, outcome)
    else:
        if all_none or case["no_backend"]:
            if gone:
                res.fail("evicts-without-limit", desc, sorted(gone))
        else:
            for sig in _oracle(items, set(deleted), b_exact, il, deadline):
                res.fail(sig, desc, sig)
        collateral = sorted(p for p in gone if not any(p == d or p.startswith(d + "/") for d in deleted))
        if collateral:
            res.fail("non-entry-directory-removed", desc, collateral)
    if interrupted or outcome == "ok":
        # survivors stay loadable, evicted ones are recomputed on demand (with the size the function returns NOW)
        present = {p for p, _, _ in items}
        for e in case["entries"]:
            if e["kind"] != "real":
                continue
            rel = os.path.relpath(e["_path"], root)
            f = cached[e["func"]]
            EXEC_LOG.clear()
            hit = f.check_call_in_cache(e["arg"], e["size"])
            try:
                v = f(e["arg"], e["size"])
            except Exception as ex:  # noqa: BLE001
                res.fail("entry-unusable-after-reduce", desc, repr(ex))
                continue
            executed = bool(EXEC_LOG)
            if executed:
                e["_cur"] = _size_now(e["func"], e["arg"], e["size"])
            if v != _FILL[e["func"]] * e["_cur"]:
                res.fail("wrong-value-after-reduce", desc, spec)
            if rel in deleted and (hit or not executed):
                res.fail("evicted-entry-still-served", desc, rel)
            if rel in present and rel not in deleted and (not hit or executed):
                res.fail("survivor-not-served-from-cache", desc, rel)

    # --- request for the model
    tok = lambda v: "-" if v is None else str(v)  # noqa: E731
    barg = "-" if b_arg is None else ("s:" + _cps(bstr) if bstr is not None else f"i:{b}")
    head = ["reduce"] if stop is None else ["reducei"]
    requests.append(" ".join(head + ["0" if case["no_backend"] else "1", barg, tok(il), tok(deadline)] +
                             ([] if stop is None else [str(stop)]) + [str(len(fault_paths))] + fault_paths + _tree_tokens(tree)))
    pending.append(("reduce", desc, dict(outcome=outcome, calls=calls, dirs=sorted(dirs_after), items=impl_items_after)))


def _parse_items(toks):
    n = int(toks[0])
    body = toks[1:1 + 3 * n]
    return sorted((body[3 * i], int(body[3 * i + 1]), int(body[3 * i + 2])) for i in range(n)), toks[1 + 3 * n:]


def _judge_store_replies(res, pending, replies):
    for (kind, desc, impl), rep in zip(pending, replies):
        toks = rep.split()
        res.traces_validated += 1
        if kind == "items":
            if not toks or toks[0] != "items":
                raise core.InfraError(f"driver reply {rep!r}")
            model_items, rest = _parse_items(toks[1:])
            if rest:
                raise core.InfraError(f"driver reply {rep!r}")
            if impl != model_items:
                res.diverge("get_items", desc, dict(items=impl), dict(items=model_items))
            continue
        if toks and toks[0] == "raised":
            model = dict(outcome="raises:" + toks[1])
            if impl["outcome"] != model["outcome"]:
                res.diverge("reduce_size", desc, impl, model)
            continue
        if not toks or toks[0] not in ("returned", "interrupted") or toks[1:2] != ["calls"]:
            raise core.InfraError(f"driver reply {rep!r}")
        m_outcome = "ok" if toks[0] == "returned" else "raises:" + desc["exc"]
        if impl["outcome"] != m_outcome:
            res.diverge("reduce_size:outcome", desc, impl, dict(outcome=m_outcome))
            continue
        k = int(toks[2])
        mcalls = toks[3:3 + k]
        rest = toks[3 + k:]
        if rest[0] != "dirs":
            raise core.InfraError(f"driver reply {rep!r}")
        m = int(rest[1])
        mdirs = sorted(rest[2:2 + m])
        rest = rest[2 + m:]
        if rest[0] != "items":
            raise core.InfraError(f"driver reply {rep!r}")
        mitems, rest = _parse_items(rest[1:])
        if kind == "reduce-no-atime":
            mitems = [(p, s, 0) for p, s, _ in mitems]
        model = dict(outcome=m_outcome, calls=mcalls, dirs=mdirs, items=mitems)
        if impl != model:
            stream = ("reduce_size:" + ("outcome" if impl["outcome"] != m_outcome else "calls" if impl["calls"] != mcalls else
                                        "tree-after" if impl["dirs"] != mdirs else "inventory-after"))
            res.diverge(stream, desc, impl, model)


# ----------------------------------------------------------------------------- memstr stream


_BAD_STRINGS = ["10", "K", "", "1k", "1.2.3K", ".K", "+K", "-K", "--1K", "+-1K", "1+K", "1-2K", "..K", "1..K", "1.5", "1.5k",
                "1.5T", "5B", "KK", "1KK", "-", "+", ".", "1.5Kb"]
_OUTSIDE = ["1 K", " 1K", "1e3K", "1E3K", "1_0K", "infK", "nanK", "1e999K", "١K", "0x10K", "1,5K", "1\tK"]


def _gen_memstr(rng, n):
    out = ["0K", "1K", "1.5K", "0.001M", "1.K", ".5K", "+.5K", "-0K", "-1.5K", "0.0009765625K", "0.00048828125K", "1G", "0.5G",
           "1023.9990234375K", "8388607G", "007K", "00.50M", "+1M", "1.000K", "0.K", "-.5K"]
    while len(out) < n:
        unit = rng.choice("KKKMMG")
        kind = rng.random()
        if kind < 0.4:  # an exact byte count (boundary) spelt in K or M
            b = rng.choice([0, 1, 2, 511, 512, 513, 1023, 1024, 1025, 1535, 1536, 1537, rng.randrange(0, 5000),
                            rng.randrange(0, 900000)])
            s = _frac_str(b if rng.random() < 0.9 else -b, unit if unit != "G" else "K")
        else:
            ip = "".join(rng.choice("0123456789") for _ in range(rng.choice([0, 1, 1, 2, 3, 5])))
            fp = "".join(rng.choice("0123456789") for _ in range(rng.choice([0, 0, 1, 2, 3, 6])))
            sign = rng.choice(["", "", "", "+", "-"])
            dot = "." if fp or rng.random() < 0.3 else ""
            if not (ip or fp):
                ip = "0"
            s = sign + ip + dot + fp + unit
        if _in_budget(s):
            out.append(s)
    return out


def _memstr_stream(ctx, res, n):
    joblib = core.use_repo()
    from joblib.disk import memstr_to_bytes

    rng = ctx.rng("memstr")
    good = _gen_memstr(rng, n)
    mutated = []
    for s in good[: n // 4]:  # in-alphabet corruptions of valid strings
        i = rng.randrange(len(s) + 1)
        mutated.append(s[:i] + rng.choice(".+-K5") + s[i:] if rng.random() < 0.6 else s[:i] + s[i + 1:])
    strings = good + _BAD_STRINGS + mutated + _OUTSIDE
    impl = []
    for s in strings:
        try:
            impl.append("ok %d" % memstr_to_bytes(s))
        except Exception as e:  # noqa: BLE001
            impl.append(type(e).__name__)
    replies = ctx.driver().run(["memstr " + " ".join(str(ord(c)) for c in s) for s in strings])
    for s, im, mo in zip(strings, impl, replies):
        res.evaluations += 1
        res.traces_validated += 1
        alphabet_ok = bool(s) and all(c in "0123456789.+-" for c in s[:-1])
        in_grammar = alphabet_ok and s[-1] in "KMG" and re.fullmatch(r"[+-]?(\d+(\.\d*)?|\.\d+)", s[:-1]) is not None
        res.count("memstr:" + ("grammar" if in_grammar else "outside-alphabet" if mo == "outside" else "malformed"))
        if mo == "outside":
            continue  # outside the modelled grammar: nothing is claimed
        if in_grammar:
            res.nontrivial.add(("memstr", s))
            if _in_budget(s):
                exact = "ok %d" % _exact_memstr(s)
                if im != exact:  # oracle: exact rational arithmetic, not the model
                    res.fail("memstr-inexact", dict(text=s), dict(impl=im, exact=exact))
        if im != mo:
            res.diverge("memstr_to_bytes", dict(text=s), im, mo)
    # end to end: a malformed bytes_limit makes reduce_size raise and leaves the store alone
    return strings


def _malformed_reduce(ctx, res, requests, pending, idx, text):
    joblib = core.use_repo()
    case = dict(entries=[dict(func=0, kind="synth", arg=a, size=600, k=a, extra=0, suffix="x") for a in range(3)],
                strays=[], lim=None, faults=[], no_backend=False)
    mem, cached, root, by_rel, base, now = _build_store(ctx, joblib, case, f"bad{idx}")
    tree = _settled_tree(root, False)
    dirs_before = _dirs_of(tree)
    try:
        mem.reduce_size(bytes_limit=text, items_limit=1)
        outcome = "ok"
    except Exception as e:  # noqa: BLE001
        outcome = "raises:" + type(e).__name__
    tree_after = _read_tree(root, os.path.basename(root))
    dirs_after = _dirs_of(tree_after)
    desc = dict(malformed_bytes_limit=text, items_limit=1, outcome=outcome)
    res.evaluations += 1
    res.count("reduce_size:malformed-bytes_limit")
    if outcome == "ok":
        res.fail("malformed-bytes_limit-accepted", desc, outcome)
    elif dirs_after != dirs_before:
        res.fail("malformed-bytes_limit-deletes", desc, sorted(set(dirs_before) - set(dirs_after)))
    requests.append(" ".join(["reduce", "1", "s:" + _cps(text), "1", "-", "0"] + _tree_tokens(tree)))
    pending.append(("reduce", desc, dict(outcome=outcome)))
    shutil.rmtree(ctx.scratch / f"casebad{idx}", ignore_errors=True)


# ----------------------------------------------------------------------------- nested hash directories (finding)


def _nested_case(ctx, res, requests, pending, idx, variant):
    """A store in which a directory that is NOT an entry has a name starting with 32 hex digits.
    variant: 'func-newest' | 'func-lru' (a cached function with such a name) | 'root' (Memory(pathlib.Path(<such a name>)))."""
    import pathlib

    joblib = core.use_repo()
    Faulty = _backend(joblib)
    Faulty.armed = False
    EXEC_LOG.clear()
    if variant == "root":
        loc = ctx.scratch / f"nested{idx}" / "0123456789abcdef0123456789abcdef"
        mem = joblib.Memory(pathlib.Path(loc), backend="c18faulty", verbose=0)
        fn = _payload
    else:
        loc = ctx.scratch / f"nested{idx}"
        mem = joblib.Memory(str(loc), backend="c18faulty", verbose=0)
        fn = _hexnamed
    root = mem.store_backend.location
    f = mem.cache(fn)
    ents = {}
    for a in range(3):
        ref = f.call_and_shelve(a, 100)
        ents[a] = os.path.join(root, ref.func_id, ref.args_id)
    time.sleep(0.02)
    _warm(root)  # the first listing after the last write settles the directories' access times ...
    now = int(time.time())
    for a, p in ents.items():  # ... and the entries are read after that (func-lru, root) or were read long before
        t = now + 1000 * (a + 1) if variant != "func-newest" else now - 100000 - 1000 * a
        os.utime(os.path.join(p, "output.pkl"), (t, t))
    tree = _settled_tree(root, True)
    dirs_before = _dirs_of(tree)
    inv = {p: (s, a) for p, s, a in _own_inventory(tree)}
    items = [(os.path.relpath(p, root), ) + inv[os.path.relpath(p, root)] for p in ents.values()]  # the ENTRIES only
    il = len(items)  # already met by the entries
    Faulty.calls, Faulty.stale, Faulty.armed = [], set(), True
    try:
        mem.reduce_size(items_limit=il)
        outcome = "ok"
    except Exception as e:  # noqa: BLE001
        outcome = "raises:" + type(e).__name__
    finally:
        Faulty.armed = False
    calls = [os.path.relpath(p, root) for p in Faulty.calls]
    tree_after = _read_tree(root, os.path.basename(root))
    dirs_after = _dirs_of(tree_after)
    gone = set(dirs_before) - set(dirs_after)
    deleted = sorted(p for p, _, _ in items if p in gone)
    impl_items_after = sorted((os.path.relpath(it.path, root), it.size, _dt_us(it.last_access)) for it in mem.store_backend.get_items())
    desc = dict(nested=variant, items=items, items_limit=il, deleted=deleted, calls=calls, outcome=outcome)
    res.evaluations += 1
    res.count("nested-hash-dir:" + variant)
    res.nontrivial.add(("nested", variant))
    if outcome != "ok":
        res.fail("reduce_size-" + outcome, desc, outcome)
    # F47 predicts exactly this: the hash-named non-entry directory is a further item, so one more item than entries is
    # evicted from the LRU end - the oldest entry (func-newest), or the function directory / store location itself and with
    # it every entry. Only that shape gets the known signature; any other misbehaviour here is reported as it is.
    lru = min(items, key=lambda t: t[2])[0]
    func_rel = os.path.dirname(items[0][0])
    predicted = dict(calls=[lru], deleted=[lru]) if variant == "func-newest" else \
        dict(calls=["." if variant == "root" else func_rel], deleted=sorted(p for p, _, _ in items))
    for sig in _oracle(items, set(deleted), None, il, None):
        if sig == "evicted-more-than-needed" and dict(calls=calls, deleted=deleted) == predicted:
            res.fail("nested-hash-dir:evicted-more-than-needed", desc, sig)
        else:
            res.fail("nested-hash-dir:unexpected:" + sig, desc, dict(predicted=predicted))
    requests.append(" ".join(["reduce", "1", "-", str(il), "-", "0"] + _tree_tokens(tree)))
    # removing its sub-directories changes a directory, so the next listing refreshes its access time (relatime): the age
    # of the hash-named function directory / store location AFTER the call is not compared (the model has no clock)
    pending.append(("reduce-no-atime", desc, dict(outcome=outcome, calls=calls, dirs=sorted(dirs_after),
                                                  items=[(p, s, 0) for p, s, _ in impl_items_after])))
    shutil.rmtree(ctx.scratch / f"nested{idx}", ignore_errors=True)


# ----------------------------------------------------------------------------- corpus (regressions found by review)


def _corpus():
    E = lambda func, arg, k, kind="real", size=100: dict(func=func, kind=kind, arg=arg, size=size, k=k, extra=0, suffix="x")  # noqa: E731
    shared = [E(0, 1, 9), E(1, 1, 8), E(0, 2, 7), E(1, 2, 6), E(0, 3, 5), E(1, 3, 4)]
    one = [E(0, a, 9 - a) for a in range(6)]
    return [
        # two functions called with equal arguments: every entry counts (get_items keyed by basename hides half of them)
        dict(entries=[dict(e) for e in shared], strays=[], lim=(None, None, 4, None), faults=[], no_backend=False),
        dict(entries=[dict(e) for e in shared], strays=[], lim=(700, None, None, None), faults=[], no_backend=False),
        dict(entries=[dict(e) for e in shared] + [E(2, 1, 3), E(2, 2, 2)], strays=["file-in-func"], lim=(None, None, 3, None),
             faults=[1], no_backend=False),
        # a selected entry is already gone when it is deleted (stale handle): the rest still has to go
        dict(entries=[dict(e) for e in one], strays=[], lim=(None, None, 2, None), faults=[0], no_backend=False),
        dict(entries=[dict(e) for e in one], strays=[], lim=(None, "0.5K", None, None), faults=[1], no_backend=False),
        dict(entries=[dict(e) for e in one], strays=[], lim=(None, None, 2, None), faults=[3], no_backend=False),
        dict(entries=[dict(e) for e in one], strays=[], lim=(None, None, 1, 3), faults=[0, 2, 4], no_backend=False),
        # names that merely start with 32 hex digits are entries for the store; 31 digits / upper case are not
        dict(entries=[E(0, 1, 5), E(0, 2, 4, "prefix", 300), E(0, 3, 3, "prefix", 0), E(0, 4, 2, "synth", 10)],
             strays=["dir31", "dirUPPER", "plain-dir"], lim=(None, None, 2, None), faults=[], no_backend=False),
        # unreadable entries are skipped by the inventory
        dict(entries=[E(0, 1, 5), E(0, 2, 9, "unreadable", 300), E(0, 3, 8, "pklgone", 40), E(0, 4, 2, "incomplete", 10)],
             strays=[], lim=(None, None, 1, None), faults=[], no_backend=False),
        # files in a sub-directory of an entry are not part of its size
        dict(entries=[E(0, 1, 5, "synth", 300), dict(E(0, 2, 9, "synth", 300), sub=700), E(0, 3, 8, "synth", 300)],
             strays=[], lim=(900, None, None, None), faults=[], no_backend=False),
        dict(entries=[dict(e) for e in one], strays=[], lim=(None, None, 0, None), faults=[], no_backend=True),
        dict(entries=[dict(e) for e in one], strays=[], lim=(None, None, None, None), faults=[], no_backend=False),
        # the deletion loop is left (Ctrl-C, MemoryError, ...) at call number `stop`: the `stop` LRU entries are gone, no other
        dict(entries=[dict(e) for e in one], strays=[], lim=(None, None, 1, None), faults=[], stop=3, exc="KeyboardInterrupt",
             no_backend=False),
        dict(entries=[dict(e) for e in one], strays=[], lim=(0, None, None, None), faults=[], stop=1, exc="RuntimeError",
             no_backend=False),
        dict(entries=[dict(e) for e in shared] + [E(2, 1, 3), E(2, 2, 2)], strays=[], lim=(None, None, 2, None), faults=[1],
             stop=4, exc="MemoryError", no_backend=False),
        # histories on one Memory object: an inventory (a reduce_size that has nothing to evict), then an entry is computed
        # again for the same arguments with a BIGGER result (MemorizedFunc.call) - the next reduce_size has to see the new size
        dict(entries=[dict(e) for e in one], strays=[], no_backend=False, rounds=[
            dict(changes=[], lim=(None, None, 7, None), faults=[], stop=None),
            dict(changes=[["call", 5, 3000, 0]], lim="total-1", faults=[], stop=None)]),
        # ... the function is cleared (what a code change does) and every entry comes back SMALLER: nothing has to go
        dict(entries=[E(0, a, 9 - a, "real", 1000) for a in range(5)], strays=[], no_backend=False, rounds=[
            dict(changes=[], lim=(None, None, 9, None), faults=[], stop=None),
            dict(changes=[["clear", 0, [[a, 10, 9 - a] for a in range(5)]]], lim="total", faults=[], stop=None),
            dict(changes=[["call", 0, 5000, 0], ["utime", 4, 11]], lim="total-1", faults=[], stop=None)]),
        # ... a first reduce_size that evicts; entries then removed by hand / by another Memory object, access order reversed
        dict(entries=[dict(e) for e in shared], strays=[], no_backend=False, rounds=[
            dict(changes=[], lim=(None, None, 5, None), faults=[], stop=None),
            dict(changes=[["rm", 5, "other-memory"], ["rm", 4, "rmtree"], ["utime", 3, 12], ["utime", 2, 11]],
                 lim=(None, None, 2, None), faults=[], stop=None),
            dict(changes=[["clear-all", [[1, 700, 2], [2, 50, 3]]], ["add", E(1, 77, 1, "synth", 512)]], lim="total-1",
                 faults=[], stop=None)]),
    ]


# ----------------------------------------------------------------------------- entry points


def _explore(ctx, n_cases, salt, big=False, cases=None, memstr_n=0, malformed=True):
    res = Result()
    res.rule = ("stores of 0..8 (thorough: ..20) entries of 1-3 cached functions built on disk (real cached calls with EQUAL "
                "arguments across functions, synthetic entries, prefix-named / incomplete / unreadable entries, stray files and "
                "directories), sizes incl. 0, access times with frequent ties; limits boundary-biased (None, 0, exact fit of every LRU "
                "suffix, +-1, as int or as fractional K/M string); clear_location faults at the first / middle / last / several selected "
                "entries; the deletion loop interrupted at call 0 / middle / last / any (KeyboardInterrupt, MemoryError, RuntimeError "
                "raised by clear_location before it removes anything) in ~1/4 of the calls that evict; ~1/5 of the stores get 1-3 "
                "FURTHER reduce_size calls on the same Memory object, each after 1-3 changes behind the inventory (entry recomputed "
                "by MemorizedFunc.call() / after MemorizedFunc.clear() / after Memory.clear() with another result size, removed by "
                "hand or by another Memory object, access time changed, synthetic entry rewritten, entry added) with limits around "
                "the new totals; non-trivial = non-empty inventory with at least one limit, distinct by (function directory, sizes, "
                "relative access times, limits, faults, interruption point, round and its changes); plus size strings of the "
                "modelled grammar (distinct strings)")
    rng = ctx.rng(salt)
    requests, pending = [], []
    todo = cases if cases is not None else _corpus() + [_gen_case(rng, big) for _ in range(n_cases)]
    for idx, case in enumerate(todo):
        _run_case(ctx, res, case, f"{salt}{idx}", requests, pending)
    if malformed:
        for i, text in enumerate(["10", "K", "1k", "1.2.3K", "", "+K"]):
            _malformed_reduce(ctx, res, requests, pending, f"{salt}{i}", text)
    if RUN_NESTED_STREAM and malformed:
        for i, variant in enumerate(["func-newest", "func-lru", "root"]):
            _nested_case(ctx, res, requests, pending, f"{salt}{i}", variant)
    replies = ctx.driver().run(requests)
    _judge_store_replies(res, pending, replies)
    if memstr_n:
        _memstr_stream(ctx, res, memstr_n)
    res.assumptions = ["no concurrent writer during reduce_size (changes behind the inventory happen BETWEEN two calls)",
                       "an interruption is an exception leaving clear_location before it removed anything (an entry half removed by "
                       "a kill in the middle of rmtree is not produced)",
                       "access times >= 400 s away from the deadline (now - age_limit is computed inside the call)",
                       "no entry directory nested in another entry directory (no cached function / module whose name starts with 32 hex digits)",
                       "size strings: digits * unit < 2**53"]
    return res


def run(ctx):
    if ctx.replay:
        case = ctx.replay.get("case", {})
        if "text" in case:
            res = Result()
            _memstr_one = [case["text"]]
            joblib = core.use_repo()
            from joblib.disk import memstr_to_bytes

            try:
                im = "ok %d" % memstr_to_bytes(_memstr_one[0])
            except Exception as e:  # noqa: BLE001
                im = type(e).__name__
            res.evaluations = 1
            s = _memstr_one[0]
            try:
                exact = "ok %d" % _exact_memstr(s)
                if _in_budget(s) and im != exact:
                    res.fail("memstr-inexact", dict(text=s), dict(impl=im, exact=exact))
            except (ValueError, KeyError, IndexError):
                pass
            mo = ctx.driver().run(["memstr " + " ".join(str(ord(c)) for c in s)])[0]
            if mo != "outside" and mo != im:
                res.diverge("memstr_to_bytes", dict(text=s), im, mo)
            return res
        if "nested" in case:
            res = Result()
            requests, pending = [], []
            _nested_case(ctx, res, requests, pending, "replay", case["nested"])
            _judge_store_replies(res, pending, ctx.driver().run(requests))
            return res
        if "malformed_bytes_limit" in case:
            res = Result()
            requests, pending = [], []
            _malformed_reduce(ctx, res, requests, pending, "replay", case["malformed_bytes_limit"])
            _judge_store_replies(res, pending, ctx.driver().run(requests))
            return res
        spec = case.get("spec", {})
        c = dict(entries=[dict(e) for e in spec.get("entries", [])], strays=list(spec.get("strays", [])),
                 lim=tuple(case["lim"]) if "lim" in case else None, faults=case.get("faults"),
                 no_backend=spec.get("no_backend", False), tz=case.get("tz"))
        if "rounds" in case:  # the whole history up to the failing reduce_size call
            c["rounds"] = copy.deepcopy(case["rounds"])
        elif "stop" in case:
            c.update(stop=case["stop"], exc=case.get("exc", "KeyboardInterrupt"))
        return _explore(ctx, 1, "replay", cases=[c], malformed=False)
    return _explore(ctx, 4000 if ctx.thorough else 500, "main", big=ctx.thorough, memstr_n=20000 if ctx.thorough else 1000)


def search(ctx, res):
    return _explore(ctx, 3000, "search", big=True, memstr_n=6000)
