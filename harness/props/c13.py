"""C13 — joblib's compressed file objects behave exactly like a plain byte stream.

Model: lean/JoblibModel/ZlibFile.lean (`ZFile` over `chunkSource`, `WFile`); theorems:
lean/JoblibProofs/C13.lean; driver: lean/Driver/C13.lean (stateful line protocol).

Implementation side: the real `joblib.compressor.BinaryZlibFile` / `BinaryGzipFile` from VERIF_REPO over
`io.BytesIO`.  A case is one written file (payload spec, class, level, write chunking with a few wrong-mode
calls sprinkled in) plus several operation sequences, each run on a fresh reader of the produced bytes.

* write side : `_compressor` is replaced by a recording proxy, so the bytes handed to the compressor and the
               number of `flush()` calls are observed at exactly the boundary `C13.write_concat` talks about.
               Oracle: `zlib.decompress` / `gzip.decompress` of the produced bytes, one `compress` call per
               `write` with exactly that data, one flush, `write` returns `len`, `tell` = running total.
* read side  : oracle = `io.BytesIO(payload)` driven in lock-step (seeks past the end clamp to the end; a seek
               to a negative target is outside the property: from there on only model-vs-implementation).
               The model driver is fed the decompressed chunk boundaries `_fill_buffer` really sees
               (`zlib.decompressobj` on 8192-byte raw blocks, empty chunks kept).
* regimes    : `segs` payloads = segments whose compression ratios differ by orders of magnitude (noise about 1, 16-symbol
               noise about 2, text about 5, periodic data and runs of one byte up to about 1000) with the dominating segment at
               the start, in the middle, at the END of the stream or alone; a handful of payloads of 1.1 to 2.6 MiB (thorough: more of them)
               whose single raw block inflates to megabytes. The driver gets such payloads as a compact
               description (`@LEN*PATTERN,…`) that both sides expand.
* trailing   : bytes after the end-of-stream marker (zero padding, random bytes, little-endian integers that look like a
               size field): the standard decoders stop at the marker, the reference stream stays io.BytesIO(payload); extra
               sequences seek relative to the END in a chosen state of the object (fresh, mid-stream, EOF seen, rewound).
* malformed  : negative seek targets followed by more operations, invalid whence, every operation after
               `close`, `write` on a reader — model vs implementation only.
"""

import gzip
import hashlib
import io
import json
import os
import random
import signal
import threading
import zlib
from concurrent.futures import ProcessPoolExecutor

from .. import core
from ..core import Result

REQUIRED_THEOREMS = [
    "C13.zfile_refines_stream",
    "C13.zfile_refines_stream_chunks",
    "C13.invariant_preserved",
    "C13.size_known_at_eof",
    "C13.read_all_reaches_eof",
    "C13.write_concat",
    "C13.write_roundtrip",
    "C13.trailing_bytes_same_stream",
    "C13.seek_end_in_every_state",
]
TRUSTED_EXTRA = [
    "modelled, not verified: CPython's zlib codec (zlib.compressobj / zlib.decompressobj). The model is fed the decompressed "
    "chunk boundaries observed from zlib.decompressobj(wbits) on 8192-byte raw blocks of the very file under test; the model "
    "compressor is the identity and only the bytes handed to compress()/the number of flush() calls are compared",
    "io.BufferedIOBase.readinto and io.IOBase.readline are C implementations, modelled as read(len(b)) and as repeated "
    "read(1) until b'' or a newline (the class has no peek)",
    "the underlying file object is an io.BytesIO (full reads) or, for 30 % of the files, a seekable raw stream that returns at most k bytes per read (k from 1 to 9000): seekable, b'' only at end of file, single thread "
    "(the RLock is never contended)",
]

_BLOCK = 8192  # joblib.compressor._BUFFER_SIZE
_WBITS = {"zlib": zlib.MAX_WBITS, "gzip": 31}
_KINDS = ["random", "rep", "period", "text", "nonl"]
_MIB = 1 << 20
_MAX_LEN = 1 << 22
_SEG_KINDS = ["run", "period", "noise", "nib", "text"]
_SEG_HEX_CAP = 20000  # segments that are sent to the driver byte by byte stay below this length
_LEN_QUICK = [0, 1, 2, 100, 8191, 8192, 8193, 16383, 16384, 16385, 24576, 24577]
_LEN_MORE = [3, 4, 5, 6, 255, 256, 257, 32767, 32768, 32769, 40000, 49152, 65535, 65536, 65537, 70000]
_CHUNK_SIZES = [1, 7, 100, 8191, 8192, 8193, 20000]

RULE = (
    "a case = (payload spec, class zlib|gzip, level 1..9, write chunking, one operation sequence); payload lengths "
    "0,1,2,100,8191..8193,16383..16385,24576,24577 (+ up to 70000 and random lengths in thorough), kinds incompressible / "
    "one repeated byte / short period / text with many newlines / no newline at all; sequences of <= 25 (thorough <= 200) "
    "operations read(n)/read()/readinto/readline/tell/seek(off, 0|1|2) with boundary-biased arguments; every operation is "
    "compared three ways (implementation, io.BytesIO oracle, Lean model). evaluations = operations compared "
    "(read side and write side). Further groups: payloads built from segments of very different compression ratios "
    "(about 1 to about 1000 decompressed bytes per raw byte) with the dominating run at the start / middle / end / alone, "
    "lengths up to 600000 and a handful of 1.1-2.6 MiB; files with 1..20000 bytes after the end of the "
    "compressed stream (zeros, random, little-endian 32-bit integers near the payload size), reference stream = the payload; "
    "end-seek sequences: seek(-k, 2) in a chosen state (fresh, mid-stream, after EOF, after a rewind) followed by reads. "
    "non-trivial = payload non-empty and the sequence has at least one read-like "
    "operation (read/readinto/readline); distinct by sha1 of (payload spec, class, level, chunking, operations)"
)
ASSUMPTIONS = [
    "underlying file object is seekable and returns b'' only at end of file (io.BytesIO, or short reads of at most k bytes); single-threaded use",
    "chunk boundaries given to the model are those CPython's zlib.decompressobj produces on 8192-byte raw blocks",
    "readline is only generated where the model's cost (quadratic in the line length) fits the budget: lines up to "
    "about 9000 bytes in the quick tier, 14000 in thorough",
    "compressed input is well-formed (written by the class under test and accepted by the standard decoder, else by "
    "zlib.compressobj with the same parameters), possibly followed by bytes that are not part of the stream (the standard "
    "decoder reports them as unused_data; a second gzip member is not generated); damaged files are property C14",
]


# ----------------------------------------------------------------------------- payloads


def _seg_pattern(seg):
    """(pattern, length) of one segment of a `segs` payload: the segment is the pattern repeated cyclically."""
    kind, ln, seed = seg
    if kind == "run":
        return bytes([seed % 256]), ln
    r = random.Random(seed)
    if kind == "period":
        return r.randbytes(2 + seed % 8), ln
    if kind == "noise":  # incompressible: about one decompressed byte per raw byte
        return r.randbytes(max(ln, 1)), ln
    if kind == "nib":  # 16 symbols: about two decompressed bytes per raw byte
        return bytes(r.choices(b"0123456789abcdef", k=max(ln, 1))), ln
    if kind == "text":  # short lines over a small alphabet
        out = bytearray()
        while len(out) < max(ln, 1):
            out += bytes(r.choices(b"etaoin shrdlu", k=r.choice([0, 1, 5, 30, 79]))) + b"\n"
        return bytes(out[:max(ln, 1)]), ln
    raise core.InfraError(f"unknown segment kind {kind!r}")


def _payload(spec):
    kind, n, seed = spec["kind"], spec["length"], spec["seed"]
    if kind == "segs":
        out = []
        for seg in spec["segs"]:
            pat, ln = _seg_pattern(seg)
            out.append((pat * (ln // len(pat) + 1))[:ln])
        return b"".join(out)
    if n == 0:
        return b""
    if kind == "random":
        return random.Random(seed).randbytes(n)
    if kind == "nonl":
        return random.Random(seed).randbytes(n).replace(b"\n", b"\x0b")
    if kind == "rep":
        return bytes([seed % 256]) * n
    if kind == "period":
        r = random.Random(seed)
        pat = r.randbytes(2 + seed % 7)
        return (pat * (n // len(pat) + 1))[:n]
    if kind == "text":
        r = random.Random(seed)
        out = bytearray()
        alphabet = b"abcdefghijklmnopqrstuvwxyz ,."
        while len(out) < n:
            ln = r.choice([0, 0, 0, 1, 1, 2, 3, 5, 10, 40, 79, 80, 81, 200, 1000, 1000, 8191, 8192, 8193])
            out += bytes(r.choices(alphabet, k=ln)) + b"\n"
        out = out[:n]
        out[-1] = 10 if seed % 2 == 0 else ord("x")
        return bytes(out)
    raise core.InfraError(f"unknown payload kind {kind!r}")


def _ref_compress(payload, cls, level):
    c = zlib.compressobj(level, zlib.DEFLATED, _WBITS[cls], zlib.DEF_MEM_LEVEL, 0)
    return c.compress(payload) + c.flush()


class _Chunky(io.RawIOBase):
    """A seekable raw stream over `raw` whose read(n) hands out at most `k` bytes at a time, as raw files, pipes and
    sockets legitimately do (io.RawIOBase.read: "fewer than size bytes may be returned"); b"" only at the end."""

    def __init__(self, raw, k):
        self._b = io.BytesIO(raw)
        self._k = k

    def readable(self):
        return True

    def seekable(self):
        return True

    def read(self, n=-1):
        return self._b.read(self._k if n is None or n < 0 else min(n, self._k))

    def readinto(self, b):
        data = self.read(len(b))
        b[:len(data)] = data
        return len(data)

    def seek(self, pos, whence=0):
        return self._b.seek(pos, whence)

    def tell(self):
        return self._b.tell()


def _under(raw, k):
    """The file object handed to the compressor class for reading: io.BytesIO, or short reads of at most k bytes."""
    return io.BytesIO(raw) if not k else _Chunky(raw, k)


def _chunk_lens(raw, wbits, k=None, rawlens=None):
    """Lengths of the decompressed chunks exactly as `_fill_buffer` produces them (zeros kept) when the underlying file
    object returns at most k bytes per read (None: full reads). `rawlens`, if a list, receives the raw block lengths."""
    d = zlib.decompressobj(wbits)
    fp = _under(raw, k)
    lens = []
    while True:
        if d.eof:
            break  # end-of-stream marker seen: whatever follows in the file is not part of the stream
        rawblock = d.unused_data or fp.read(_BLOCK)
        if not rawblock:
            break
        lens.append(len(d.decompress(rawblock)))
        if rawlens is not None:
            rawlens.append(len(rawblock))
    return lens


def _bounds(lens):
    out, t = [0], 0
    for x in lens:
        t += x
        out.append(t)
    return out


# ----------------------------------------------------------------------------- canonical text


def _cb(tag, data):
    n = len(data)
    return f"{tag} {n} x{data.hex()}" if n <= 16 else f"{tag} {n} a{zlib.adler32(data)}"


def _hex(payload):
    return payload.hex() if payload else "-"


def _ptoken(spec, payload):
    """The payload as the driver reads it: hex, or for `segs` payloads the compact description LEN*PATTERN,… (a run of
    megabytes costs a few characters; both sides expand it the same way)."""
    if spec["kind"] != "segs" or not payload:
        return _hex(payload)
    return "@" + ",".join("%d*%s" % (ln, pat.hex()) for pat, ln in map(_seg_pattern, spec["segs"]))


def _trail_bytes(trail, n):
    """Bytes that follow the compressed stream in the file (not part of it: the standard decoders stop at the
    end-of-stream marker and report them as unused data)."""
    if not trail:
        return b""
    kind, k, seed = trail["kind"], trail["length"], trail["seed"]
    if kind == "zeros":
        return bytes(k)
    if kind == "random":
        return random.Random(seed).randbytes(k)
    if kind == "le32":  # little-endian 32-bit integers: plausible but wrong sizes / checksums
        vals = [0, 1, max(n - 1, 0), n + 1, n // 2, 2 * n + 1, seed]
        r = random.Random(seed)
        return b"".join((r.choice(vals) & 0xFFFFFFFF).to_bytes(4, "little") for _ in range(k))
    raise core.InfraError(f"unknown trail kind {kind!r}")


def _op_line(op):
    k = op[0]
    if k == "read":
        return "read -1" if len(op) == 1 else f"read {op[1]}"
    if k == "readinto":
        return f"readinto {op[1]}"
    if k in ("readline", "tell", "close", "wclose"):
        return k
    if k == "seek":
        return f"seek {op[1]} {op[2] if len(op) > 2 else 0}"
    if k == "write":
        return f"write {op[1]} {op[2]}"
    raise core.InfraError(f"unknown op {op!r}")


class _Hang(BaseException):
    pass


def _on_alarm(signum, frame):
    raise _Hang()


def _apply_impl(f, op, payload):
    """One method call on the implementation → (canonical line, value for the oracle)."""
    k = op[0]
    try:
        if k == "read":
            r = f.read() if len(op) == 1 else f.read(op[1])
            if type(r) is not bytes:
                return f"? read -> {type(r).__name__}", ("other",)
            return _cb("b", r), ("bytes", r)
        if k == "readline":
            r = f.readline()
            if type(r) is not bytes:
                return f"? readline -> {type(r).__name__}", ("other",)
            return _cb("b", r), ("bytes", r)
        if k == "readinto":
            buf = bytearray(op[1])
            n = f.readinto(buf)
            if type(n) is not int or not 0 <= n <= len(buf):
                return f"? readinto -> {n!r}"[:60], ("other",)
            return _cb("i", bytes(buf[:n])), ("into", n, bytes(buf))
        if k == "tell":
            r = f.tell()
            if type(r) is not int or r < 0:
                return f"? tell -> {r!r}"[:60], ("other",)
            return f"n {r}", ("num", r)
        if k == "seek":
            r = f.seek(op[1]) if len(op) == 2 else f.seek(op[1], op[2])
            if type(r) is not int or r < 0:
                return f"? seek -> {r!r}"[:60], ("other",)
            return f"n {r}", ("num", r)
        if k == "close":
            r = f.close()
            return ("none" if r is None else f"? close -> {r!r}"[:60]), ("none",)
        if k == "write":
            how = op[3] if len(op) > 3 else "bytes"
            chunk = payload[op[1]:op[1] + op[2]]
            arg = memoryview(chunk) if how == "memoryview" else bytearray(chunk) if how == "bytearray" else chunk
            r = f.write(arg)
            if type(r) is not int or r < 0:
                return f"? write -> {r!r}"[:60], ("other",)
            return f"n {r}", ("num", r)
    except Exception as e:  # noqa: BLE001
        return "exc " + type(e).__name__, ("exc", type(e).__name__)
    raise core.InfraError(f"unknown op {op!r}")


class _RecCompressor:
    """Recording proxy around the file object's `zlib.compressobj`."""

    def __init__(self, inner):
        self._inner = inner
        self.handed = []
        self.flushes = 0

    def compress(self, data):
        self.handed.append(bytes(data))
        return self._inner.compress(data)

    def flush(self, *a):
        self.flushes += 1
        return self._inner.flush(*a)


# ----------------------------------------------------------------------------- generators


def _gen_chunking(rng, n, cap):
    if n == 0:
        return rng.choice([[], [], [0], [0, 0]])
    style = rng.choice(["whole", "uniform", "uniform", "mixed", "mixed"])
    if style == "whole":
        return [n]
    out, left = [], n
    uni = rng.choice(_CHUNK_SIZES)
    while left > 0:
        if len(out) >= cap - 1:
            s = left
        elif style == "uniform":
            s = uni
        else:
            s = rng.choice(_CHUNK_SIZES + ["whole", 0] + _CHUNK_SIZES)
            s = left if s == "whole" else s
        s = min(s, left)
        out.append(s)
        left -= s
    return out


def _compositions(n):
    if n == 0:
        return [[]]
    out = []
    for mask in range(1 << (n - 1)):
        parts, cur = [], 1
        for i in range(n - 1):
            if mask >> i & 1:
                parts.append(cur)
                cur = 1
            else:
                cur += 1
        parts.append(cur)
        out.append(parts)
    return out


_SPRINKLE = [["read", 1], ["readline"], ["seek", 0, 0], ["readinto", 3], ["read"], ["read", 0], ["readinto", 0], ["seek", 0, 2]]


def _gen_wops(rng, chunking):
    wops, off = [], 0
    for ln in chunking:
        if rng.random() < 0.12:
            wops.append(list(rng.choice(_SPRINKLE)))
        wops.append(["write", off, ln, rng.choice(["bytes", "bytes", "memoryview", "bytearray"])])
        wops.append(["tell"])
        off += ln
    if rng.random() < 0.5:
        wops.append(list(rng.choice(_SPRINKLE)))
    wops += [["wclose"], ["wclose"], ["tell"]]
    if rng.random() < 0.3:
        wops.append(list(rng.choice(_SPRINKLE + [["write", 0, 0, "bytes"], ["write", 0, min(1, off), "bytes"], ["tell"]])))
    return wops


def _line_cost(payload, bounds, pos):
    """(new position, model cost) of a readline at `pos`."""
    i = payload.find(b"\n", pos)
    new = i + 1 if i >= 0 else len(payload)
    ln = new - pos
    lo = 0
    for b in bounds:
        if b <= pos:
            lo = b
        else:
            break
    return new, ln * ln + ln * (pos - lo)


def _sizes(n, pos, bounds):
    d = next((b - pos for b in bounds if b > pos), 0)
    near = [0, 1, 1, 2, 5, 100, d, d, d - 1, d + 1]
    far = [8191, 8192, 8193, 40000, n - 1, n, n + 1, n - pos, n - pos - 1, n - pos + 1]
    return [x for x in near + near + far if x >= 0]


def _gen_seek(rng, n, pos, bounds, negative=False):
    if negative:
        t = rng.choice([-1, -1, -2, -5, -100, -8192, -8193])
    else:
        b = rng.choice(bounds)
        r = rng.random()
        if r < 0.35:
            cand = [rng.randint(0, n), rng.randint(min(pos, n), n), rng.randint(0, max(0, pos))]
        elif r < 0.60:
            cand = [b, b - 1, b + 1, b + 2, b - 100]
        elif r < 0.80:
            cand = [pos, pos - 1, pos + 1, pos - 5, pos + 100, pos - 8192, pos + 8192]
        elif r < 0.90:
            cand = [0, 1, n - 1, n, n]
        else:
            cand = [n + 1, n + 100, 2 * n + 5, pos + 40000]
        t = rng.choice([x for x in cand if x >= 0] or [0])
    w = rng.choice([0, 0, 1, 1, 2])
    off = t if w == 0 else t - pos if w == 1 else t - n
    if w == 0 and rng.random() < 0.3:
        return ["seek", off], t
    return ["seek", off, w], t


def _gen_seq(rng, payload, bounds, maxlen, budget, neg_prob=None):
    n, pos, ops = len(payload), 0, []
    want = rng.choice([maxlen, maxlen, rng.randint(1, maxlen)])
    kinds = ["read", "readall", "readinto", "readline", "tell", "seek"]
    if neg_prob is None:
        neg_prob = 0.4 / maxlen  # about one sequence in ten leaves the property's scope (negative seek target)
    while len(ops) < want:
        k = rng.choices(kinds, weights=[34, 6, 16, 16, 8, 20])[0]
        if pos >= n and k != "seek" and k != "tell" and rng.random() < 0.45:
            k = "seek"
        if k == "readline":
            new, cost = _line_cost(payload, bounds, pos)
            if cost > budget:
                k = "read"
            else:
                budget -= cost
                ops.append(["readline"])
                pos = new
                continue
        if k == "read":
            x = rng.choice(_sizes(n, pos, bounds))
            ops.append(["read", x])
            pos = min(n, pos + x)
        elif k == "readall":
            ops.append(rng.choice([["read"], ["read", -1]]))
            pos = n
        elif k == "readinto":
            x = rng.choice(_sizes(n, pos, bounds))
            ops.append(["readinto", x])
            pos = min(n, pos + x)
        elif k == "tell":
            ops.append(["tell"])
        else:
            neg = rng.random() < neg_prob
            op, t = _gen_seek(rng, n, pos, bounds, negative=neg)
            ops.append(op)
            pos = 0 if t < 0 else min(t, n)
    return ops


_END_STATES = ["fresh", "fresh", "mid", "mid", "mid-seek", "eof", "eof", "rewound", "eof-rewound", "eof-rewound"]


def _gen_endseq(rng, payload, bounds):
    """A seek relative to the END issued in a chosen state of the object (fresh; mid-stream after reads or after a
    forward seek; after EOF was seen; after a rewind, with or without EOF seen before), followed by reads that show
    where the object really is. All targets are >= 0 (inside the property)."""
    n, pos, ops = len(payload), 0, []
    state = rng.choice(_END_STATES)
    if rng.random() < 0.3:
        ops.append(["tell"])
    if state in ("mid", "rewound"):
        for _ in range(rng.randint(1, 3)):
            x = rng.choice(_sizes(n, pos, bounds))
            ops.append([rng.choice(["read", "read", "readinto"]), x])
            pos = min(n, pos + x)
    elif state == "mid-seek":
        op, t = _gen_seek(rng, n, pos, bounds)
        while len(op) > 2 and op[2] == 2:
            op, t = _gen_seek(rng, n, pos, bounds)
        ops.append(op)
        pos = min(t, n)
    elif state in ("eof", "eof-rewound"):
        how = rng.choice(["readall", "readall", "big", "steps", "seek-past"])
        if how == "readall":
            if rng.random() < 0.5:
                ops.append(["read", rng.choice([1, 100, 8193])])
            ops.append(rng.choice([["read"], ["read", -1]]))
        elif how == "big":
            ops.append(["read", n + rng.choice([1, 1, 5, 8192])])
        elif how == "steps":
            ops += [["read", max(1, n // 2 + 1)], ["read", max(1, n // 2 + 1)], ["read", 3]]
        else:
            ops += [["seek", n + rng.choice([0, 1, 100]), 0], ["read", 1]]
        pos = n
    if state in ("rewound", "eof-rewound"):
        t = rng.choice([0, 0, 1, pos // 2, max(pos - 1, 0)])
        ops.append(rng.choice([["seek", t], ["seek", t, 0], ["seek", t - pos, 1]]))
        pos = min(t, n)
        if rng.random() < 0.5:
            x = rng.choice([1, 5, 100, 8192])
            ops.append(["read", x])
            pos = min(n, pos + x)
    for j in range(rng.randint(1, 3)):
        k = rng.choice([0, 0, 1, 2, 5, 100, 8192, n, n // 2, n - 1, n // 3, rng.randint(0, n), -1, -7, -8192])
        k = min(k, n)  # k < 0: a target past the end (clamps to the end)
        ops.append(["seek", -k, 2])
        pos = n - max(k, 0)
        for _ in range(rng.randint(1, 3)):
            r = rng.random()
            if r < 0.25:
                ops.append(["tell"])
            elif r < 0.65:
                x = rng.choice([1, 2, 5, 100, 8193, max(k, 0), max(k, 0) + 1, max(k - 1, 0)])
                ops.append([rng.choice(["read", "readinto"]), x])
                pos = min(n, pos + x)
            elif r < 0.85:
                ops.append(["read"])
                pos = n
            else:
                t = rng.randint(0, n)
                ops.append(["seek", t - pos, 1])
                pos = t
    return ops


def _gen_malformed_seq(rng, payload, bounds, typ, readline_ok):
    n = len(payload)
    small = [["read", 1], ["read", 2], ["read", 3], ["read", 5], ["read", 100], ["read", 8193], ["read"], ["read", -1],
             ["read", 0], ["readinto", 0], ["readinto", 1], ["readinto", 4], ["readinto", 9000], ["tell"], ["tell"],
             ["seek", 0, 1], ["seek", 1, 1], ["seek", 0, 2], ["seek", 3, 0], ["seek", n, 0], ["seek", -1, 2]]
    if readline_ok:
        small += [["readline"], ["readline"]]
    pre = _gen_seq(rng, payload, bounds, rng.randint(1, 6), 2_000_000, neg_prob=0.0) if rng.random() < 0.7 else []
    ops = list(pre)
    if typ == "neg":
        for _ in range(rng.randint(1, 3)):
            t = rng.choice([-1, -1, -2, -3, -5, -7, -100, -8192])
            w = rng.choice([0, 1, 2])
            # `pos` is not tracked here: whence 1 offsets are simply negative
            ops.append(["seek", t, 0] if w == 0 else ["seek", t - rng.choice([0, 0, n]), 1] if w == 1 else ["seek", t - n, 2])
            a = abs(t)
            for _ in range(rng.randint(1, 6)):
                ops.append(list(rng.choice(small + [["read", a], ["read", a - 1], ["read", a + 1], ["readinto", a], ["read", 1]])))
    elif typ == "whence":
        for _ in range(rng.randint(2, 6)):
            ops.append(["seek", rng.choice([0, 1, -1, n, 100]), rng.choice([3, -1, 7, 3, -1])])
            ops.append(list(rng.choice(small)))
    elif typ == "close":
        ops.append(["close"])
        tail = [["read", 1], ["read"], ["read", 0], ["readinto", 3], ["readinto", 0], ["readline"], ["tell"], ["seek", 0, 0],
                ["seek", 0, 1], ["seek", 0, 2], ["seek", 0, 3], ["seek", -1, 0], ["write", 0, 0], ["write", 0, min(n, 2)],
                ["close"], ["tell"]]
        rng.shuffle(tail)
        ops += tail
    elif typ == "write":
        for _ in range(rng.randint(1, 4)):
            o = rng.randint(0, n)
            ops.append(["write", o, rng.choice([0, 0, min(3, n - o), n - o])])
            ops.append(list(rng.choice(small)))
    else:
        raise core.InfraError(typ)
    return ops


def _gen_file(rng, spec, cls, level, nseq, maxlen, budget, cap, chunking=None, stream="main", trail=None, endseqs=0,
              under="draw"):
    payload = _payload(spec)
    if chunking is None:
        chunking = _gen_chunking(rng, len(payload), cap)
    bounds = _bounds(_chunk_lens(_ref_compress(payload, cls, level), _WBITS[cls]))
    if stream == "main":
        seqs = [_gen_seq(rng, payload, bounds, maxlen, budget) for _ in range(nseq)]
        seqs += [_gen_endseq(rng, payload, bounds) for _ in range(endseqs)]
    else:
        ok = spec["kind"] == "text" or len(payload) <= 2048
        types = ["neg", "whence", "close", "write", "neg", "neg"]
        seqs = [_gen_malformed_seq(rng, payload, bounds, types[i % len(types)], ok) for i in range(nseq)]
    # the underlying file object of the read side: full reads (io.BytesIO) or short reads of at most k bytes
    if under in ("draw", "tame"):
        tame = under == "tame"
        under = rng.choice([1, 7, 1000, 4096, 8191, rng.randint(1, 9000)]) if rng.random() < 0.3 else None
        if tame and under and under < 1000 and len(payload) > _BLOCK and spec["kind"] not in ("rep", "period"):
            under += 1000  # thousands of one-byte chunks of a long payload: the model's read() is quadratic in them
    case = dict(stream=stream, payload=spec, cls=cls, level=level, chunking=chunking, wops=_gen_wops(rng, chunking), seqs=seqs,
                under=under)
    if trail:
        case["trail"] = trail
    return case


def _gen_trail(rng):
    kind = rng.choice(["zeros", "zeros", "random", "random", "le32", "le32"])
    if kind == "le32":
        k = rng.choice([1, 1, 2, 2, 3])
    else:
        k = rng.choice([1, 2, 3, 4, 4, 5, 8, 8, 9, 100, 511, 512, 8191, 8192, 8193, 20000])
    return dict(kind=kind, length=k, seed=rng.randrange(1 << 30))


def _gen_segs(rng, big, where):
    """A payload made of segments whose compression ratios differ by orders of magnitude: about 1 (noise), about 2
    (nib), about 5 (text), hundreds to a thousand (period, run). `big`: the length of the dominating run/period segment;
    `where`: its place (start | middle | end | all)."""
    def small():
        k = rng.choice(["noise", "noise", "nib", "text", "run", "period"])
        ln = rng.choice([1, 2, 100, 3000, 8192, 8193, _SEG_HEX_CAP]) if k in ("noise", "nib", "text") else \
            rng.choice([1, 100, 8192, 70000])
        return [k, ln, rng.randrange(1 << 30)]

    def dominant():
        k = rng.choice(["run", "run", "period"])
        seed = rng.randrange(1 << 30)
        if k == "run" and rng.random() < 0.4:
            seed -= seed % 256  # zeros
        elif k == "run" and rng.random() < 0.15:
            seed = seed - seed % 256 + 10  # newlines only
        return [k, big, seed]

    before = [small() for _ in range(rng.randint(1, 2))] if where in ("middle", "end") else []
    after = [small() for _ in range(rng.randint(1, 2))] if where in ("middle", "start") else []
    segs = before + [dominant()] + after
    return dict(kind="segs", length=sum(x[1] for x in segs), seed=0, segs=segs)


def _spec(rng, kind, n):
    seed = rng.randrange(1 << 30)
    if kind == "rep" and rng.random() < 0.25:
        seed = seed - seed % 256 + 10  # a file of newlines only
    return dict(kind=kind, length=n, seed=seed)


def _tuned_len(rng, cls, level, k):
    """A length whose incompressible payload compresses to 8192*k + r bytes with only (part of) the trailer in the
    last raw block, so that `_fill_buffer` sees an empty decompressed chunk. None when not found."""
    seed = rng.randrange(1 << 30)
    trailer = 4 if cls == "zlib" else 8
    target = _BLOCK * k + rng.randint(1, trailer)
    n = target - 20
    for _ in range(8):
        if n < 1:
            return None
        spec = dict(kind="random", length=n, seed=seed)
        c = len(_ref_compress(_payload(spec), cls, level))
        if c == target:
            return spec
        n += target - c
    return None


def _combos(rng):
    c = [(cls, lv) for cls in ("zlib", "gzip") for lv in range(1, 10)]
    rng.shuffle(c)
    while True:
        yield from c


def _gen_cases(rng, mode):
    """mode: quick | thorough | search"""
    if mode == "quick":
        rounds, lengths, nseq, maxlen, budget, cap = 5, _LEN_QUICK, 3, 25, 80_000_000, 48
        n_random, n_tuned, n_mal, tiny_rounds = 100, 16, 80, 1
        n_mid, n_big, n_trail = 24, 6, 60
    elif mode == "thorough":
        rounds, lengths, nseq, maxlen, budget, cap = 4, _LEN_QUICK + _LEN_MORE, 4, 200, 200_000_000, 300
        n_random, n_tuned, n_mal, tiny_rounds = 220, 40, 300, 2
        n_mid, n_big, n_trail = 30, 6, 90  # (120 / 24 / 240, then 60 / 10 / 160, made the thorough tier run > 30 min under load: the model driver dominates)
    else:
        rounds, lengths, nseq, maxlen, budget, cap = 7, _LEN_QUICK + _LEN_MORE[:9], 4, 60, 80_000_000, 64
        n_random, n_tuned, n_mal, tiny_rounds = 200, 36, 300, 3
        n_mid, n_big, n_trail = 60, 8, 150
    combos = _combos(rng)
    cases = []
    # 1. grid: every boundary length x every kind
    for _ in range(rounds):
        for n in lengths:
            for kind in _KINDS:
                cls, lv = next(combos)
                cases.append(_gen_file(rng, _spec(rng, kind, n), cls, lv, nseq, maxlen, budget, cap))
    # 2. larger / random lengths
    extra = [("rep", 70000), ("random", 40000), ("text", 70000), ("period", 49152)] if mode == "quick" else []
    for i in range(n_random):
        if i < len(extra):
            kind, n = extra[i]
        else:
            kind = rng.choice(_KINDS + ["random", "nonl", "text"])  # favour files of several raw blocks
            n = rng.choice([rng.randint(3, 70000), rng.randint(16000, 50000), rng.randint(3, 30000), rng.randint(8100, 8300),
                            rng.randint(7, 600)])
        cls, lv = next(combos)
        cases.append(_gen_file(rng, _spec(rng, kind, n), cls, lv, nseq, maxlen, budget, cap))
    # 3. tiny payloads: every write chunking
    for _ in range(tiny_rounds):
        for n in range(0, 7):
            for comp in _compositions(n):
                cls, lv = next(combos)
                kind = rng.choice(["random", "text", "rep", "period"])
                cases.append(_gen_file(rng, _spec(rng, kind, n), cls, lv, 2, maxlen, budget, cap, chunking=comp))
    # 4. raw size tuned so that the last raw block holds only trailer bytes (empty decompressed chunk)
    for i in range(n_tuned):
        cls, lv = next(combos)
        spec = _tuned_len(rng, cls, lv, 1 + i % 4)
        if spec is not None:
            cases.append(_gen_file(rng, spec, cls, lv, nseq, maxlen, budget, cap))
    # 5. malformed stream
    for i in range(n_mal):
        cls, lv = next(combos)
        n = rng.choice([0, 1, 2, 5, 100, 100, 8192, 8193, 8193, 24577])
        kind = rng.choice(_KINDS)
        cases.append(_gen_file(rng, _spec(rng, kind, n), cls, lv, 4, maxlen, budget, cap, stream="malformed"))
    # 6. every regime of "decompressed bytes per raw block" (about 1, a few, hundreds, a thousand) at the start, in the
    #    middle and at the END of the stream; a handful of payloads of megabytes (one raw block inflates to megabytes)
    places = ["end", "start", "middle", "all", "end", "middle"]
    for i in range(n_mid):
        cls, lv = next(combos)
        big = rng.choice([9000, 70000, 70000, 200000, 300000, 600000])
        spec = _gen_segs(rng, big, places[i % len(places)])
        trail = _gen_trail(rng) if i % 4 == 3 else None
        under = "tame" if big <= 70000 else rng.choice([None, None, 1000, 4096, 8191])  # model cost: chunks x length
        cases.append(_gen_file(rng, spec, cls, lv, 2, min(maxlen, 25), budget // 2, 12, trail=trail, endseqs=1, under=under))
    for i in range(n_big):
        cls, lv = next(combos)
        # (payloads of ~4 MiB were tried in the thorough tier: one such case costs the MODEL driver 10-16 CPU-minutes - its read()
        # is quadratic in chunks x length - and adds no regime that 2.6 MiB does not reach)
        hi = 2_600_000
        spec = _gen_segs(rng, rng.randint(_MIB + 100_000, hi), places[i % len(places)])
        trail = _gen_trail(rng) if i % 3 == 2 else None
        under = rng.choice([None, None, 4096, 8191])  # few chunks: the model's cost is (chunks x length)
        cases.append(_gen_file(rng, spec, cls, lv, 2, min(maxlen, 20), budget // 2, 6, trail=trail, endseqs=1, under=under))
    # 7. bytes after the end of the compressed stream (padding, container remainder, plausible-but-wrong sizes): the
    #    reference stream is still the payload; seeks from the end in every state of the object
    tl = [0, 1, 2, 100, 5000, 8192, 8193, 16384, 24577, 40000, 70000]
    for i in range(n_trail):
        cls, lv = next(combos)
        kind = _KINDS[i % len(_KINDS)]
        n = tl[(i // len(_KINDS)) % len(tl)] if i % 3 else rng.randint(1, 70000)
        cases.append(_gen_file(rng, _spec(rng, kind, n), cls, lv, 1, maxlen, budget, cap, trail=_gen_trail(rng), endseqs=2,
                               under="tame"))
    return cases


def _neighbours(rng, case, k):
    """Cases around a differing one: same file with fresh sequences, its prefix with random continuations,
    lengths +-1, other class / level."""
    out = []
    try:
        _check_case(case)
    except core.InfraError:
        return out
    base_spec = case["payload"]
    seq0 = case["seqs"][0] if case["seqs"] else []
    for i in range(k):
        spec = dict(base_spec)
        how = i % 4
        if spec["kind"] == "segs":
            segs = [list(x) for x in spec["segs"]]
            if how == 1 and segs:
                j = rng.randrange(len(segs))
                cap_j = _SEG_HEX_CAP if segs[j][0] not in ("run", "period") else _MAX_LEN // 4
                segs[j][1] = min(cap_j, max(0, segs[j][1] + rng.choice([-2, -1, 1, 2, 8192, -8192])))
            if how == 2 and segs:
                segs[rng.randrange(len(segs))][2] = rng.randrange(1 << 30)
            spec["segs"], spec["length"] = segs, sum(x[1] for x in segs)
        elif how == 1:
            spec["length"] = max(0, spec["length"] + rng.choice([-2, -1, 1, 2]))
        elif how == 2:
            spec["seed"] = rng.randrange(1 << 30)
        cls = case["cls"] if how != 3 else rng.choice(["zlib", "gzip"])
        lv = case["level"] if how != 3 else rng.randint(1, 9)
        large = spec["length"] > 100000
        c = _gen_file(rng, spec, cls, lv, 2 if large else 4, 20 if large else 40, 40_000_000 if large else 80_000_000,
                      6 if large else 64, stream="main", trail=case.get("trail") if i % 3 else None, endseqs=1,
                      under=case.get("under") if large else "draw")
        if how == 0 and seq0 and case.get("stream") != "malformed":
            payload = _payload(spec)
            bounds = _bounds(_chunk_lens(_ref_compress(payload, cls, lv), _WBITS[cls]))
            cut = rng.randint(0, len(seq0))
            c["seqs"][0] = [list(o) for o in seq0[:cut]] + _gen_seq(rng, payload, bounds, 12, 20_000_000)
            if case.get("trail"):
                c["trail"] = case["trail"]
            c["chunking"], c["wops"] = case["chunking"], case["wops"]
        out.append(c)
    return out


# ----------------------------------------------------------------------------- execution of one case


def _check_case(case):
    try:
        spec = case["payload"]
        assert spec["kind"] in _KINDS + ["segs"] and isinstance(spec["length"], int) and 0 <= spec["length"] <= _MAX_LEN
        assert isinstance(spec["seed"], int)
        if spec["kind"] == "segs":
            for seg in spec["segs"]:
                assert len(seg) == 3 and seg[0] in _SEG_KINDS and isinstance(seg[1], int) and seg[1] >= 0
                assert isinstance(seg[2], int) and (seg[0] in ("run", "period") or seg[1] <= _SEG_HEX_CAP)
            assert sum(seg[1] for seg in spec["segs"]) == spec["length"]
        if case.get("trail"):
            t = case["trail"]
            assert t["kind"] in ("zeros", "random", "le32") and isinstance(t["length"], int) and 0 < t["length"] <= 1 << 16
            assert isinstance(t["seed"], int)
        assert case["cls"] in _WBITS and isinstance(case["level"], int)
        assert case.get("stream", "main") in ("main", "malformed")
        n, off, closed = spec["length"], 0, False
        for op in case["wops"]:
            assert isinstance(op, (list, tuple)) and op and isinstance(op[0], str)
            assert all(isinstance(x, int) for x in op[1:3])
            if op[0] == "write":
                assert len(op) >= 3 and 0 <= op[1] and 0 <= op[2] and op[1] + op[2] <= n
                if not closed:
                    assert op[1] == off
                    off += op[2]
            elif op[0] == "wclose":
                closed = True
            else:
                assert op[0] in ("read", "readinto", "readline", "tell", "seek")
            _op_line(op)
        assert off == n and closed, "the writes must cover the payload and be followed by wclose"
        assert sum(case["chunking"]) == n
        for seq in case["seqs"]:
            for op in seq:
                assert isinstance(op, (list, tuple)) and op and isinstance(op[0], str)
                assert all(isinstance(x, int) for x in op[1:3])
                assert op[0] in ("read", "readinto", "readline", "tell", "seek", "close", "write")
                if op[0] == "readinto":
                    assert op[1] >= 0
                if op[0] == "write":
                    assert 0 <= op[1] and 0 <= op[2] and op[1] + op[2] <= n
                if op[0] == "seek":
                    assert len(op) in (2, 3)
                _op_line(op)
    except (AssertionError, KeyError, TypeError, IndexError) as e:
        raise core.InfraError(f"malformed C13 case: {e!r}") from None


def _len_bucket(n):
    for hi, name in [(0, "0"), (2, "1-2"), (6, "3-6"), (8190, "7-8190"), (8193, "8191-8193"), (16382, "8194-16382"),
                     (16385, "16383-16385"), (24575, "16386-24575"), (24577, "24576-24577")]:
        if n <= hi:
            return name
    return ">24577"


def _small_bucket(n):
    return str(n) if n <= 4 else "5-16" if n <= 16 else "17-64" if n <= 64 else ">64"


def _reduced(case, seq_index=None, op_index=None):
    c = {k: v for k, v in case.items() if k != "seqs"}
    if seq_index is None:
        c["seqs"] = []
    else:
        c["seqs"] = [case["seqs"][seq_index][: op_index + 1]]
        c["seq_index"], c["op_index"] = seq_index, op_index
    return c


def _exec_case(case, classes, limit):
    """Runs the implementation on one case. Returns dict(segs, fails, counts, evals, keys)."""
    _check_case(case)
    stream = case.get("stream", "main")
    cls = classes[case["cls"]]
    payload = _payload(case["payload"])
    n = len(payload)
    hexp = _ptoken(case["payload"], payload)
    counts, fails, segs, keys = {}, [], [], []
    use_alarm = threading.current_thread() is threading.main_thread()

    def count(k, v=1):
        counts[k] = counts.get(k, 0) + v

    count("files")
    count("stream:" + stream)
    count("len:" + _len_bucket(n))
    if n > 24577:
        count("len>24577:" + ("<=70000" if n <= 70000 else "<=1MiB" if n <= _MIB else ">1MiB"))
    count("kind:" + case["payload"]["kind"])
    count("cls:" + case["cls"])
    count("level:%d" % case["level"])
    count("write-chunks:" + _small_bucket(sum(1 for o in case["wops"] if o[0] == "write")))

    # ------------------------------------------------------------------ write side
    lines, impl = ["wopen " + hexp], ["ok"]
    raw = io.BytesIO()
    produced = None
    wfail = []

    def wf(sig, detail):
        if not any(s == sig for s, _ in wfail):
            wfail.append((sig, detail))

    if use_alarm:
        signal.setitimer(signal.ITIMER_PROF, limit)
        signal.setitimer(signal.ITIMER_REAL, 15 * limit)  # wall-clock backstop: an operation that BLOCKS burns no CPU
    try:
        w = proxy = None
        try:
            w = cls(raw, "wb", compresslevel=case["level"])
            proxy = _RecCompressor(w._compressor)
            w._compressor = proxy
        except Exception as e:  # noqa: BLE001
            wf("write:raises:" + type(e).__name__, "opening for writing: " + repr(e)[:200])
        total, closed, expect = 0, False, []
        after_first_close = None
        if w is not None:
            for op in case["wops"]:
                k = op[0]
                lines.append(_op_line(op))
                if k == "wclose":
                    try:
                        r = w.close()
                        txt = "closed handed=%d %s flushes=%d" % (len(proxy.handed), _cb("", b"".join(proxy.handed))[1:], proxy.flushes)
                        if r is not None:
                            txt = f"? close -> {r!r}"[:60]
                    except Exception as e:  # noqa: BLE001
                        txt = "exc " + type(e).__name__
                        wf("write:raises:" + type(e).__name__, "close() raised")
                    impl.append(txt)
                    if not closed:
                        closed = True
                        produced = raw.getvalue()
                        after_first_close = (produced, proxy.flushes, len(proxy.handed))
                        try:
                            dec = zlib.decompress(produced) if case["cls"] == "zlib" else gzip.decompress(produced)
                            if dec != payload:
                                wf("write:decoder-mismatch", dict(decoded_len=len(dec), payload_len=n,
                                                                 decoded=_cb("b", dec), payload=_cb("b", payload)))
                        except Exception as e:  # noqa: BLE001
                            wf("write:decoder-mismatch", "standard decoder raised " + type(e).__name__)
                        if b"".join(proxy.handed) != payload or proxy.handed != expect:
                            wf("write:handed-differs", dict(compress_calls=len(proxy.handed), writes=len(expect),
                                                            handed=_cb("b", b"".join(proxy.handed)), payload=_cb("b", payload)))
                        if proxy.flushes != 1:
                            wf("write:flush-count", dict(flushes=proxy.flushes))
                    elif (raw.getvalue(), proxy.flushes, len(proxy.handed)) != after_first_close or txt.startswith(("exc", "?")):
                        wf("write:close-not-idempotent", txt)
                    count("wop:wclose")
                    continue
                canon, val = _apply_impl(w, op, payload)
                impl.append(canon)
                count("wop:" + k + ("" if k != "write" else ":" + (op[3] if len(op) > 3 else "bytes")))
                if closed:
                    continue
                if k == "write":
                    total += op[2]
                    expect.append(payload[op[1]:op[1] + op[2]])
                    if val[0] == "exc":
                        wf("write:raises:" + val[1], f"write of {op[2]} bytes at {op[1]}")
                    elif val != ("num", op[2]):
                        wf("write:position", dict(op=op, returned=canon, expected=op[2]))
                elif k == "tell":
                    if val[0] == "exc":
                        wf("write:raises:" + val[1], "tell() in write mode")
                    elif val != ("num", total):
                        wf("write:position", dict(op=op, returned=canon, expected_position=total))
    except _Hang:
        if len(impl) < len(lines):
            impl.append("hang")
        wf("write:hangs", f"no answer within {limit} s of CPU time")
    finally:
        if use_alarm:
            signal.setitimer(signal.ITIMER_PROF, 0)
            signal.setitimer(signal.ITIMER_REAL, 0)
    for sig, detail in wfail:
        fails.append(dict(signature=sig, case=_reduced(case), detail=detail))
    segs.append(dict(stream="write", lines=lines, impl=impl, seq_index=None, first_oos=None))

    # ------------------------------------------------------------------ the bytes the readers get
    lens = None
    rawbytes = produced
    if rawbytes is not None and not any(s == "write:decoder-mismatch" for s, _ in wfail):
        try:
            lens = _chunk_lens(rawbytes, cls.wbits, case.get("under"))
        except Exception:  # noqa: BLE001
            lens = None
    if lens is None or sum(lens) != n:
        # the writer is broken (already reported above): read from what zlib itself produces
        count("read-side-on-reference-bytes")
        rawbytes = _ref_compress(payload, case["cls"], case["level"])
        lens = _chunk_lens(rawbytes, _WBITS[case["cls"]], case.get("under"))
        if sum(lens) != n:
            raise core.InfraError("reference compressor round trip failed")
    trail = _trail_bytes(case.get("trail"), n)
    if trail:
        # bytes after the end-of-stream marker: the standard decoder expands the file to the payload and reports them
        # as unused data; the reference stream stays io.BytesIO(payload)
        d = zlib.decompressobj(cls.wbits)
        if d.decompress(rawbytes + trail) != payload or not d.eof or d.unused_data != trail:
            raise core.InfraError("the standard decoder does not stop at the end of the stream")
        rawbytes = rawbytes + trail
        rl = []
        lens = _chunk_lens(rawbytes, _WBITS[case["cls"]], case.get("under"), rl)
        if sum(lens) != n:
            raise core.InfraError("reference decoder round trip with trailing bytes failed")
    else:
        rl = []
        _chunk_lens(rawbytes, _WBITS[case["cls"]], case.get("under"), rl)
    count("trailing-bytes:" + ("none" if not trail else case["trail"]["kind"] + (":<=8" if len(trail) <= 8 else ":<=512" if len(trail) <= 512 else ":>512")))

    def ratio(i):
        if not rl[i]:
            return "-"
        q = lens[i] / rl[i]
        return "0" if q == 0 else "<0.5" if q < 0.5 else "<=1.1" if q <= 1.1 else "<=4" if q <= 4 else "<=100" if q <= 100 else \
            "<=1000" if q <= 1000 else ">1000"

    if rl and not case.get("under"):
        # decompressed bytes per raw byte of the first / a middle / the last raw block that carries data
        data = [i for i, x in enumerate(lens) if x] or [0]
        count("inflation-first-block:" + ratio(data[0]))
        count("inflation-middle-block:" + (ratio(data[len(data) // 2]) if len(data) > 2 else "-"))
        count("inflation-last-block:" + ratio(data[-1]))
    bounds = _bounds(lens)
    count("raw-blocks:" + _small_bucket((len(rawbytes) + _BLOCK - 1) // _BLOCK))
    count("underlying-reads:" + ("full" if not case.get("under") else "short<=%s" % ("8" if case["under"] <= 8 else "4096" if case["under"] <= 4096 else "8191+")))
    count("decompressed-chunks:" + _small_bucket(len(lens)))
    count("empty-chunk:" + ("yes" if 0 in lens and n else "no"))
    count("max-chunk:" + ("<=8192" if max(lens, default=0) <= _BLOCK else "8193-32768" if max(lens) <= 32768 else
                          "32769-1MiB" if max(lens) <= _MIB else ">1MiB"))
    openline = "open " + hexp + "".join(" %d" % x for x in lens)

    # ------------------------------------------------------------------ read side
    for si, seq in enumerate(case["seqs"]):
        lines, impl = [openline], ["ok"]
        first_oos = None
        judge = stream == "main"
        ref = io.BytesIO(payload)
        f = cls(_under(rawbytes, case.get("under")), "rb")
        readlike = False
        touched = seen_eof = rewound = False  # the state of the object as far as the reference stream shows it
        if use_alarm:
            signal.setitimer(signal.ITIMER_PROF, limit)
            signal.setitimer(signal.ITIMER_REAL, 15 * limit)
        signal.setitimer(signal.ITIMER_REAL, 15 * limit)  # wall-clock backstop: an operation that BLOCKS burns no CPU
        try:
            for i, op in enumerate(seq):
                k = op[0]
                lines.append(_op_line(op))
                before = ref.tell()
                canon, val = _apply_impl(f, op, payload)
                impl.append(canon)
                count("op:" + k)
                readlike = readlike or k in ("read", "readinto", "readline")
                if not judge:
                    continue
                sig = exp = None
                if k == "read":
                    e = ref.read() if len(op) == 1 or op[1] < 0 else ref.read(op[1])
                    if val != ("bytes", e):
                        sig, exp = "read:bytes-differ", _cb("b", e)
                    if len(op) == 1 or op[1] < 0:
                        count("read:to-end")
                        seen_eof = True
                    elif op[1] and not e:
                        count("read:at-eof")
                    elif any(before < b < before + len(e) for b in bounds):
                        count("read:crosses-chunk-boundary")
                    if len(op) > 1 and op[1] > len(e):
                        seen_eof = True
                    touched = touched or len(op) == 1 or op[1] != 0
                elif k == "readline":
                    e = ref.readline()
                    if val != ("bytes", e):
                        sig, exp = "readline:bytes-differ", _cb("b", e)
                    seen_eof = seen_eof or not e.endswith(b"\n")
                    touched = True
                    count("readline:" + ("empty" if not e else "no-newline" if not e.endswith(b"\n") else
                                         "len1" if len(e) == 1 else "len<=100" if len(e) <= 100 else "len>100"))
                elif k == "readinto":
                    buf = bytearray(op[1])
                    m = ref.readinto(buf)
                    if val != ("into", m, bytes(buf)):
                        sig, exp = "readinto:bytes-differ", _cb("i", bytes(buf[:m]))
                    seen_eof = seen_eof or op[1] > m
                    touched = touched or op[1] != 0
                elif k == "tell":
                    if val != ("num", before):
                        sig, exp = "tell:position-differs", f"n {before}"
                elif k == "seek":
                    wh = op[2] if len(op) > 2 else 0
                    t = op[1] if wh == 0 else before + op[1] if wh == 1 else n + op[1] if wh == 2 else None
                    if t is None or t < 0:
                        # outside the property: implementation vs model only, from here to the end
                        first_oos, judge = i, False
                        count("seek:out-of-scope")
                        continue
                    e = ref.seek(min(t, n))
                    if val != ("num", e):
                        sig, exp = "seek:position-differs", f"n {e}"
                    count("seek:whence=%d" % wh)
                    if wh == 2:
                        count("seek-from-end:" + ("fresh" if not touched else "eof-seen" if seen_eof else "mid-stream")
                              + ("+rewound" if rewound else "") + ("+trailing-bytes" if trail else ""))
                    seen_eof = seen_eof or wh == 2 or t > n
                    rewound = rewound or t < before
                    touched = True
                    count("seek:" + ("rewinds" if t < before else "stays" if t == before else "past-end" if t > n else "forward"))
                else:
                    raise core.InfraError(f"operation {op!r} in a main-stream sequence")
                if sig is None and val[0] != "exc":
                    # the position is part of the abstraction: `tell` is pure, ask after every operation
                    try:
                        p = f.tell()
                    except Exception as ex:  # noqa: BLE001
                        p = "exc " + type(ex).__name__
                    if p != ref.tell():
                        sig, exp, canon = "tell:position-differs", f"n {ref.tell()}", f"tell() right after the operation: {p}"
                if sig is not None:
                    if val[0] == "exc":
                        sig = "op-raises:" + val[1]
                    fails.append(dict(signature=sig, case=_reduced(case, si, i),
                                      detail=dict(op=list(op), implementation=canon, reference=exp, position_before=before)))
                    judge = False  # the states differ from here on: one report per sequence
        except _Hang:
            if len(impl) < len(lines):
                impl.append("hang")
            if stream == "main" and first_oos is None:
                fails.append(dict(signature="op-hangs", case=_reduced(case, si, len(lines) - 2),
                                  detail=f"no answer within {limit} s of CPU time"))
        finally:
            if use_alarm:
                signal.setitimer(signal.ITIMER_PROF, 0)
                signal.setitimer(signal.ITIMER_REAL, 0)
            signal.setitimer(signal.ITIMER_REAL, 0)
        segs.append(dict(stream=stream, lines=lines, impl=impl, seq_index=si, first_oos=first_oos))
        count("seq-len:" + ("1-5" if len(seq) <= 5 else "6-25" if len(seq) <= 25 else "26-100" if len(seq) <= 100 else "101-200"))
        if n and readlike and stream == "main":
            key = json.dumps([case["payload"], case["cls"], case["level"], case["chunking"], case.get("trail"), seq], sort_keys=True)
            keys.append(hashlib.sha1(key.encode()).hexdigest()[:20])
    return dict(segs=segs, fails=fails, counts=counts, keys=keys)


def _run_batch(arg):
    """Worker: implementation + model driver on a batch of cases; returns plain data."""
    prop, cases, limit = arg
    core.use_repo()
    from joblib.compressor import BinaryGzipFile, BinaryZlibFile

    classes = dict(zlib=BinaryZlibFile, gzip=BinaryGzipFile)
    if threading.current_thread() is threading.main_thread():
        signal.signal(signal.SIGPROF, _on_alarm)  # CPU time of this process: a loaded machine is not a hang
        signal.signal(signal.SIGALRM, _on_alarm)  # wall-clock backstop (15x), for operations that block
    out = dict(fails=[], divs=[], counts={}, keys=[], evals=0, traces=0)
    recs, lines = [], []
    for case in cases:
        r = _exec_case(case, classes, limit)
        recs.append((case, r))
        for s in r["segs"]:
            lines += s["lines"]
    replies = core.Driver(prop).run(lines, timeout=3000)
    at = 0
    for case, r in recs:
        out["fails"] += r["fails"]
        out["keys"] += r["keys"]
        for k, v in r["counts"].items():
            out["counts"][k] = out["counts"].get(k, 0) + v
        for s in r["segs"]:
            m = replies[at: at + len(s["lines"])]
            at += len(s["lines"])
            for ln, rep in zip(s["lines"], m):
                if rep == "bad-op":
                    raise core.InfraError(f"driver rejected the request {ln[:80]!r}")
            out["traces"] += 1
            out["evals"] += len(s["lines"]) - 1
            if m != s["impl"]:
                j = next(i for i, (a, b) in enumerate(zip(s["impl"], m)) if a != b)
                if s["seq_index"] is None:
                    stream, rc = "write", _reduced(case)
                    rc["wop_index"] = j - 1
                else:
                    oos = s["first_oos"]
                    stream = "malformed" if s["stream"] == "malformed" else "ops" if oos is None or j - 1 < oos else "ops-out-of-scope"
                    rc = _reduced(case, s["seq_index"], max(j - 1, 0))
                out["divs"].append((stream, rc, dict(request=s["lines"][j][:100], outputs=s["impl"][1: j + 1][-12:]),
                                    dict(outputs=m[1: j + 1][-12:])))
    return out


def _describe(case):
    return dict(payload=case["payload"], cls=case["cls"], level=case["level"], chunking=case["chunking"][:8],
                n_chunks=len(case["chunking"]), stream=case.get("stream", "main"), trail=case.get("trail"),
                first_sequence=[list(o) for o in (case["seqs"][0][:10] if case["seqs"] else [])])


def _explore(ctx, cases, limit=20.0, inline=False):
    res = Result()
    res.rule = RULE
    res.assumptions = list(ASSUMPTIONS)
    if not cases:
        return res
    # batches: small, so that the 16 workers stay busy; results are merged in case order
    size = 1 if len(cases) < 64 else 3
    batches = [(ctx.prop, cases[i: i + size], limit) for i in range(0, len(cases), size)]
    if inline or len(batches) == 1:
        outs = [_run_batch(b) for b in batches]
    else:
        workers = max(1, min(16, os.cpu_count() or 1, len(batches)))
        with ProcessPoolExecutor(max_workers=workers) as pool:
            outs = list(pool.map(_run_batch, batches))
    for o in outs:
        res.evaluations += o["evals"]
        res.traces_validated += o["traces"]
        res.nontrivial.update(o["keys"])
        for k, v in o["counts"].items():
            res.count(k, v)
        for f in o["fails"]:
            res.fail(f["signature"], f["case"], f["detail"])
        for stream, rc, impl, model in o["divs"]:
            res.diverge(stream, rc, impl, model)
    for c in cases:
        if c["seqs"] and c["payload"]["length"] > 2:
            res.sample(_describe(c))
    return res


# ----------------------------------------------------------------------------- entry points


def _replay_cases(replay):
    if isinstance(replay.get("case"), dict):
        return [replay["case"]]
    cases = []
    for w in replay.get("no_longer_checks", []) or []:
        for d in w.get("divergences", []) or []:
            if isinstance(d.get("case"), dict):
                cases.append(d["case"])
    return cases


def run(ctx):
    core.use_repo()
    if ctx.replay:
        cases = _replay_cases(ctx.replay)
        if cases:
            for c in cases:
                c.setdefault("stream", "main")
                c.setdefault("seqs", [])
                _check_case(c)
            return _explore(ctx, cases, inline=True)
        # a replay file without an input (proof-only breakage): run the normal exploration
    mode = "thorough" if ctx.thorough else "quick"
    return _explore(ctx, _gen_cases(ctx.rng("main-" + mode), mode))


def search(ctx, res):
    rng = ctx.rng("search")
    cases = []
    seen = 0
    for d in res.divergences[:12]:
        if isinstance(d.get("case"), dict):
            cases += _neighbours(rng, d["case"], 40)
            seen += 1
    cases += _gen_cases(rng, "search")
    out = _explore(ctx, cases)
    out.notes.append(f"search: {len(cases)} files, {seen} divergences used as centres")
    return out
