"""C03 — dump/load round-trips every picklable object under every compressor/target.

Model: lean/JoblibModel/DumpLoad.lean (+ Generated/Tables.lean, regenerated from the live objects on every
run by harness/gen_tables.py); theorems: lean/JoblibProofs/C03.lean; driver: lean/Driver/C03.lean.

Implementation side (real joblib from VERIF_REPO, /venv/bin/python, no numpy):
 (a) tables   : the regenerated table file is what the driver/proofs were built from (`tables` request).
 (b) resolve  : EXHAUSTIVE product of compress-argument forms x file names/extensions x target kinds; for
                each the real `joblib.dump` is run and what is observed is the exception CLASS or the ACTUAL
                bytes written: which CPython codec decodes them to the raw pickle, the level signature in the
                codec header, the magic prefix; plus `_detect_compressor` on the bytes (peekable and not).
 (c') targets : file objects opened BY THE CALLER (joblib's BinaryZlibFile/BinaryGzipFile, gzip.GzipFile, bz2.BZ2File,
                lzma.LZMAFile, raw unbuffered files, a 16-byte io.BufferedWriter, a raw stream fed memoryviews) with
                single bytes/str/bytearray leaves of 1 MiB +- 1, 2 MiB, 5 MiB handed to write() in ONE call.
 (d) offsets  : open file objects with the cursor past 0: a header of k bytes then one dump (every codec), 2-3 dumps
                back to back; read through buffered files, raw files, BytesIO and a peek-less wrapper. Oracle for
                PEEKABLE (buffered) files: each load returns the object dumped at that position and (after an
                uncompressed dump) leaves the cursor right after it. For file objects WITHOUT peek the code rewinds to
                byte 0 by design (joblib's own tests do `f = BytesIO(); dump(obj, f); load(f)`): demanded there is the
                dump that starts at offset 0 with the cursor at 0 or — uncompressed — at the end, and "dump; load
                without rewinding" on the same object. `_detect_compressor`'s answer and cursor are compared with the
                model's `sniff` at every position for every kind.
 (c) roundtrip: objects from the recursive generator harness/objs.py (scalars/containers/user classes, shared
                and recursive references, sizes around 8 KiB / 64 KiB / 1 MiB, 1000-item batches) x protocols
                0-5 x every available compressor x target kinds; the file is RENAMED to another extension
                before loading. Oracle: canon(load(...)) == canon(x) (values, types, order, identity structure).
 (e) histories: SEQUENCES of dump / load operations in ONE process (harness/c03_hist.py, a fresh interpreter per
                history) with the state of the process changing in between: module globals re-bound (the class
                statement run again in the same module object and in `__main__`, an edited file + importlib.reload,
                del sys.modules + import, the sys.modules entry replaced, attribute assignment; classes with a
                class-checking __eq__, dataclasses, __slots__, namedtuples, enums, nested classes, functions pickled
                by reference), compressors registered / re-registered with `register_compressor` (magic numbers
                longer than any built-in one), protocols 0-5, the same file name rewritten with another compressor,
                failed dumps in between. Oracle (no model): every load must agree with `pickle.loads(pickle.dumps(x))`
                evaluated AT THE SAME INSTANT — `type(a) is type(b)` at every node, values, globals by identity,
                sharing. Tie: the histories without registrations are replayed by the model (`hist`: `hreplies
                histEnv`), which predicts, per load, which dump comes back and under WHICH binding of its class.
"""

from __future__ import annotations

import bz2
import gzip
import io
import lzma
import os
import pathlib
import pickle
import warnings
import zlib

from .. import core, gen_tables, objs
from ..core import Result

REQUIRED_THEOREMS = [
    "C03.table_prefix_free",
    "C03.table_disjoint_from_compat",
    "C03.table_disjoint_from_pickle",
    "C03.table_names",
    "C03.table_extensions_suffix_free",
    "C03.table_documented_extensions",
    "C03.table_max_prefix_len",
    "C03.detect_after_write",
    "C03.detect_pickle",
    "C03.roundtrip",
    "C03.resolve_total",
    "C03.resolve_error_class",
    "C03.tuple_ignores_filename",
    "C03.level_zero_rule",
    "C03.extension_implies_method",
    "C03.sniff_keeps_cursor",
    "C03.sniff_nonseekable_partial",
    "C03.sniff_short_peek_counterexample",
    "C03.load_after_dump_at_offset",
    "C03.sniff_peekless_rewinds",
    "C03.load_peekless_from_start",
    "C03.load_peekless_without_rewinding",
    "C03.history_frame",
    "C03.load_history_independent",
    "C03.load_after_history",
    "C03.roundtrip_in_history",
    "C03.old_file_follows_current_bindings",
]
TRUSTED_EXTRA = [
    "parameters of C03.roundtrip (modelled, not verified; laws C03.Laws): CPython's pickle._Pickler/_Unpickler "
    "(unpickle(pickle(x)) = x incl. memo-based sharing/recursion — tested here by identity structure, not proved), "
    "the first bytes of a protocol 0-5 pickle follow pickletools.opcodes (every pickle produced in this run is "
    "checked against isPickleStart), zlib/gzip/bz2/lzma/xz streams start with their magic number and "
    "decompress(compress(b)) = b (every file written in this run is decoded with CPython's own codec)",
    "the constant tables are read from the live objects by harness/gen_tables.py (trusted extractor); "
    "lz4 is not installed here: the lz4 entry is exercised only through its rejections",
    "`compat` files (ZF prefix, joblib < 0.10) are outside the model (load_compatibility)",
    "classification of Python values into the model's CompressArg/Target (harness/props/c03.py: arg_token, target_token)",
    "histories: `envOf` (what CPython's pickle does under given bindings of the module globals) is a parameter; that "
    "joblib.dump/load keep no state between calls is what the history stream tests (every load against pickle.loads "
    "at the same instant), the model has no such state by construction; `register_compressor` is outside the model "
    "(its tables are constants regenerated per run) and is exercised by the oracle only",
]

warnings.simplefilter("ignore")

# ----------------------------------------------------------------------------- JSON-able Python values


def enc(v):
    """Tagged JSON encoding of a compress argument (tuples, lists, bytes, floats are kept apart)."""
    if v is None or isinstance(v, (bool, int, str)):
        return v
    if isinstance(v, float):
        return {"t": "float", "v": repr(v)}
    if isinstance(v, tuple):
        return {"t": "tuple", "v": [enc(x) for x in v]}
    if isinstance(v, list):
        return {"t": "list", "v": [enc(x) for x in v]}
    if isinstance(v, bytes):
        return {"t": "bytes", "v": v.hex()}
    if isinstance(v, dict):
        return {"t": "dict"}
    return {"t": "object"}


def dec(j):
    if not isinstance(j, dict):
        return j
    t = j["t"]
    if t == "float":
        return float(j["v"])
    if t == "tuple":
        return tuple(dec(x) for x in j["v"])
    if t == "list":
        return [dec(x) for x in j["v"]]
    if t == "bytes":
        return bytes.fromhex(j["v"])
    if t == "dict":
        return {}
    return object()


# ----------------------------------------------------------------------------- model tokens


def s_tok(s):
    return ".".join(str(ord(c)) for c in s) if s else "-"


def lvl_token(v):
    if v is None:
        return "none"
    if v is True:
        return "true"
    if v is False:
        return "false"
    if isinstance(v, int):
        return f"int={v}"
    if isinstance(v, float) and v == v and v not in (float("inf"), float("-inf")) and v.is_integer():
        return f"float={int(v)}"
    return "other"


def arg_token(c):
    if isinstance(c, tuple):
        if len(c) != 2:
            return f"tupleN:{len(c)}"
        m, l = c
        if isinstance(m, str):
            mt = "s=" + s_tok(m)
        else:
            try:
                hash(m)
                mt = "hashable"
            except TypeError:
                mt = "unhashable"
        return f"tuple2:{mt}:{lvl_token(l)}"
    if isinstance(c, str):
        return "str:" + s_tok(c)
    return "val:" + lvl_token(c)


def arg_label(at):
    """Short label of an argument token for the input-distribution counters."""
    parts = at.split(":")
    if parts[0] == "val":
        return "val:" + parts[1].split("=")[0]
    if parts[0] == "str":
        return "str"
    if parts[0] == "tuple2":
        return "tuple2:" + parts[1].split("=")[0] + ":" + parts[2].split("=")[0]
    return "tupleN"


def target_token(kind, name):
    if kind == "str":
        return "path:" + s_tok(name)
    if kind == "pathlib":
        return "pathlib:" + s_tok(name)
    if kind in OPENED_TARGETS:
        return "file"
    return {"file": "file", "bytesio": "bytesio", "other": "other"}[kind]


# ----------------------------------------------------------------------------- independent observation of a file

def _codecs(zlevel):
    def zc(wbits):
        def f(data, level):
            c = zlib.compressobj(zlevel if level is None else level, zlib.DEFLATED, wbits)
            return c.compress(data) + c.flush()

        return f

    def bz(data, level):
        return bz2.compress(data) if level is None else bz2.compress(data, level)

    def lz(fmt):
        def f(data, level):
            return lzma.compress(data, format=fmt) if level is None else lzma.compress(data, format=fmt, preset=level)

        return f

    return {
        "zlib": (zlib.decompress, zc(15)),
        "gzip": (gzip.decompress, zc(31)),
        "bz2": (bz2.decompress, bz),
        "lzma": (lambda d: lzma.decompress(d, format=lzma.FORMAT_ALONE), lz(lzma.FORMAT_ALONE)),
        "xz": (lambda d: lzma.decompress(d, format=lzma.FORMAT_XZ), lz(lzma.FORMAT_XZ)),
    }


def level_sig(name, data):
    """The part of the codec header that depends on the compression level."""
    try:
        if name == "zlib":
            return data[1]
        if name == "gzip":
            return data[8]
        if name == "bz2":
            return data[3]
        if name == "lzma":
            return data[1:5].hex()
        if name == "xz":
            return data[16]
    except IndexError:
        return "short"
    return None


def identify(data, raw_ref, codecs):
    """Which CPython codec turns these bytes into the reference raw pickle (independent of joblib's tables)."""
    if data == raw_ref:
        return "raw"
    for name, (dec_, _) in codecs.items():
        try:
            if dec_(data) == raw_ref:
                return name
        except Exception:  # noqa: BLE001
            continue
    return "unknown"


# ----------------------------------------------------------------------------- running the implementation


class Impl:
    def __init__(self, ctx, tables):
        self.joblib = core.use_repo()
        from joblib import numpy_pickle_utils

        self.npu = numpy_pickle_utils
        self.ctx = ctx
        self.tables = tables
        self.codecs = _codecs(tables["zlibDefaultLevel"])
        self.n = 0
        import tempfile

        pathlib.Path(ctx.scratch).mkdir(parents=True, exist_ok=True)
        self.dir = pathlib.Path(tempfile.mkdtemp(prefix="c03-", dir=str(ctx.scratch)))  # one per Impl (run, search, shards)

    def fresh(self, name):
        self.n += 1
        d = self.dir / f"d{self.n}"
        d.mkdir()
        return d / name

    def dump(self, obj, compress, kind, name, protocol=None):
        """Returns ("err", ClassName) or ("ok", bytes_written, path_or_None)."""
        j = self.joblib
        path = None
        try:
            if kind in ("str", "pathlib"):
                path = self.fresh(name)
                target = str(path) if kind == "str" else pathlib.Path(str(path))
                ret = j.dump(obj, target, compress=compress, protocol=protocol)
                if ret != [str(path)]:
                    return ("ok-badreturn", repr(ret), path)
                data = path.read_bytes()
            elif kind == "file":
                path = self.fresh(name)
                with open(path, "wb") as f:
                    ret = j.dump(obj, f, compress=compress, protocol=protocol)
                if ret is not None:
                    return ("ok-badreturn", repr(ret), path)
                data = path.read_bytes()
            elif kind == "bytesio":
                b = io.BytesIO()
                ret = j.dump(obj, b, compress=compress, protocol=protocol)
                if ret is not None:
                    return ("ok-badreturn", repr(ret), None)
                data = b.getvalue()
            elif kind == "namedtemp":
                # tempfile.NamedTemporaryFile(): a _TemporaryFileWrapper (has write(), is not an io.IOBase instance)
                import tempfile
                path = self.fresh(name)
                with tempfile.NamedTemporaryFile(dir=str(path.parent), delete=False) as f:
                    ret = j.dump(obj, f, compress=compress, protocol=protocol)
                    tmpname = f.name
                os.replace(tmpname, path)
                if ret is not None:
                    return ("ok-badreturn", repr(ret), path)
                data = path.read_bytes()
            elif kind == "duckwriter":
                # the least a file-object target has: write()
                sink = _DuckWriter()
                ret = j.dump(obj, sink, compress=compress, protocol=protocol)
                if ret is not None:
                    return ("ok-badreturn", repr(ret), None)
                data = bytes(sink.data)
            elif kind in OPENED_TARGETS:
                # a file object opened BY THE CALLER: joblib's own compressor files, CPython's, raw / tiny-buffer files
                path = self.fresh(name)
                with open_target(kind, str(path)) as f:
                    ret = j.dump(obj, f, compress=compress, protocol=protocol)
                if ret is not None:
                    return ("ok-badreturn", repr(ret), path)
                data = path.read_bytes()
            else:
                j.dump(obj, 5 if name == "int" else None, compress=compress, protocol=protocol)
                return ("ok-noerror", b"", None)
            return ("ok", data, path)
        except Exception as e:  # noqa: BLE001
            return ("err", type(e).__name__, path)

    def raw_ref(self, obj, protocol=None):
        b = io.BytesIO()
        self.joblib.numpy_pickle.NumpyPickler(b, protocol=protocol).dump(obj)
        return b.getvalue()

    def detect(self, data, peekable):
        f = io.BufferedReader(io.BytesIO(data)) if peekable else io.BytesIO(data)
        return self.npu._detect_compressor(f)

    def load_variants(self, data, path, load_ext, reopen_kind=None):
        """Load the bytes every way the property names: from a path renamed to another extension, from an open
        file object, from a BytesIO."""
        j = self.joblib
        out = []
        p = self.fresh("renamed" + load_ext)
        if path is not None and os.path.exists(path):
            os.replace(path, p)
        else:
            p.write_bytes(data)
        out.append(("path", j.load(str(p))))
        out.append(("pathlib", j.load(pathlib.Path(str(p)))))
        with open(p, "rb") as f:
            out.append(("file", j.load(f)))
        out.append(("bytesio", j.load(io.BytesIO(data))))
        # a member of a zip archive: zipfile.ZipExtFile (binary, peekable, seekable, .mode == 'r')
        import threading
        import zipfile
        zp = self.fresh("arch.zip")
        with zipfile.ZipFile(zp, "w") as z:
            z.writestr("member.pkl", data)
        with zipfile.ZipFile(zp) as z, z.open("member.pkl") as f:
            out.append(("zip-member", j.load(f)))
        # a pipe: BufferedReader over a non-seekable descriptor (tell() raises OSError(ESPIPE)); the writer delivers
        # the bytes from another thread
        if len(data) <= (1 << 20):
            r, w = os.pipe()

            def feed():
                with os.fdopen(w, "wb") as fw:
                    fw.write(data)

            t = threading.Thread(target=feed)
            t.start()
            try:
                with os.fdopen(r, "rb") as f:
                    out.append(("pipe", j.load(f)))
            finally:
                t.join()
        if reopen_kind in ("jzlib", "jgzip", "gzipfile", "bz2file", "lzmafile"):
            # through the caller's own (de)compressing file object, opened for reading
            from joblib.compressor import BinaryGzipFile, BinaryZlibFile

            cls = dict(jzlib=BinaryZlibFile, jgzip=BinaryGzipFile, gzipfile=gzip.GzipFile, bz2file=bz2.BZ2File,
                       lzmafile=lzma.LZMAFile)[reopen_kind]
            with cls(str(p), "rb") as f:
                out.append(("same-class-reader", j.load(f)))
        try:
            os.unlink(p)
            os.rmdir(p.parent)
        except OSError:
            pass
        return out


OPENED_TARGETS = ("jzlib", "jgzip", "gzipfile", "bz2file", "lzmafile", "rawfile", "tinybuf", "rawio-mv")


class _DuckWriter:
    """A file-object target that only has write() (no io.IOBase, no name, no mode)."""

    def __init__(self):
        self.data = bytearray()

    def write(self, b):
        self.data += bytes(b)
        return len(b)


class _RecordingRaw(io.RawIOBase):
    """A raw stream under an io.BufferedWriter: its write() is called with memoryviews; everything goes to a file."""

    def __init__(self, path):
        super().__init__()
        self._f = open(path, "wb", buffering=0)

    def writable(self):
        return True

    def write(self, b):
        assert isinstance(b, (memoryview, bytes, bytearray))
        return self._f.write(b)

    def close(self):
        if not self.closed:
            self._f.close()
        super().close()


def open_target(kind, path):
    from joblib.compressor import BinaryGzipFile, BinaryZlibFile

    if kind == "jzlib":
        return BinaryZlibFile(path, "wb")
    if kind == "jgzip":
        return BinaryGzipFile(path, "wb")
    if kind == "gzipfile":
        return gzip.GzipFile(path, "wb")
    if kind == "bz2file":
        return bz2.BZ2File(path, "wb")
    if kind == "lzmafile":
        return lzma.LZMAFile(path, "wb")
    if kind == "rawfile":
        return open(path, "wb", buffering=0)
    if kind == "tinybuf":
        return io.BufferedWriter(io.FileIO(path, "wb"), buffer_size=16)
    if kind == "rawio-mv":
        return io.BufferedWriter(_RecordingRaw(path), buffer_size=64)
    raise ValueError(kind)


def det_str(name):
    return {"not-compressed": "not-compressed", "compat": "compat"}.get(name, "method " + name)


# ----------------------------------------------------------------------------- (b) exhaustive resolve correspondence

PROBE_OBJ = {"a": list(range(40)), "b": ("x", 1.5, None, b"bytes" * 20)}


def compress_forms(tables):
    names = [c["name"] for c in tables["compressors"]]
    forms = [True, False, None] + list(range(-1, 11)) + [99, 2**40, -(2**40)]
    forms += [0.0, 3.0, 9.0, 10.0, -1.0, 2.5, float("nan"), float("inf")]
    forms += [[1], [], {}, b"zlib", object()]
    forms += names + ["ZLIB", "", "foo", "zlib ", "z", "gz", ".gz"]
    levels = [None, True, False, 0, 1, 3, 9, 10, -1, 3.0, 0.0, 2.5, "3", [1]]
    for n in names + ["foo", "", "GZIP"]:
        for l in levels:
            forms.append((n, l))
    for m in (None, 3, 2.5, b"zlib", ("zlib",), ["zlib"], {}, {"zlib"}):
        for l in (None, 3, 0, 99, False, "3", 3.0):
            forms.append((m, l))
    forms += [(), ("zlib",), ("zlib", 3, 1), (3,), ("zlib", 3, None, None)]
    return forms


def file_names(tables):
    exts = [c["ext"] for c in tables["compressors"]]
    names = ["data", "data.pkl", "data.joblib"] + ["data" + e for e in exts]
    names += ["data.gz.z", "data.z.gz", "data.tar.gz", "data.pkl.xz", "data.Z", "data.GZ", "datagz", "data.gz ", "data.gzz",
              ".gz", ".z", "bz2", "data.xz.pkl", "data.lzma.bak", "dätá.bz2", "data.z.lzma"]
    return names


def targets(tables, thorough):
    out = []
    for n in file_names(tables):
        out.append(("str", n))
        out.append(("pathlib", n))
    out += [("file", "fobj.gz"), ("file", "fobj"), ("bytesio", ""), ("other", "int"), ("other", "none")]
    return out


class _ShardCtx:
    """What `Impl` needs of a ctx, picklable, for the worker processes of the resolve product."""

    def __init__(self, scratch):
        self.scratch = scratch


def all_resolve_cases(tables):
    forms = compress_forms(tables)
    tg = targets(tables, False)
    return [(c, k, n) for c in forms for (k, n) in tg]


def observe_resolve(impl, tables, cases):
    """Runs the real dump/load on each case. Returns plain records (no model involved):
    ("resolve", case, impl_outcome) / ("detect", case, detected) / ("fail", sig, case, detail) /
    ("diverge", stream, case, impl, model) / ("count", key)."""
    out = []
    raw = impl.raw_ref(PROBE_OBJ)
    zf = bytes(tables["zfilePrefix"])
    for c, kind, name in cases:
        at, tt = arg_token(c), target_token(kind, name)
        o = impl.dump(PROBE_OBJ, c, kind, name)
        case = dict(kind="resolve", compress=enc(c), target=kind, name=name, arg_token=at, target_token=tt)
        out.append(("count", "arg=" + arg_label(at)))
        out.append(("count", "target=" + kind))
        if o[0] == "err":
            impl_s = "err " + o[1]
            out.append(("count", "outcome=err:" + o[1]))
        elif o[0] != "ok":
            impl_s = o[0] + " " + str(o[1])
        else:
            data = o[1]
            who = identify(data, raw, impl.codecs)
            if who == "raw":
                impl_s = "ok raw"
            elif who == "unknown":
                impl_s = "ok unknown " + data[:8].hex()
            else:
                impl_s = f"ok codec {who} sig={level_sig(who, data)}"
            out.append(("count", "outcome=ok:" + who))
            # ---- oracle on the implementation (no model): the file loads, identically, whatever it is called
            try:
                lext = ".pkl" if name.endswith(".gz") else ".gz"
                for how, back in impl.load_variants(data, o[2], lext):
                    if back != PROBE_OBJ:
                        out.append(("fail", "load-differs-after-dump", case, dict(how=how, got=repr(back)[:200])))
            except Exception as e:  # noqa: BLE001
                out.append(("fail", "load-raises-after-dump:" + type(e).__name__, case, repr(e)[:300]))
            # ---- sniffing on the actual bytes, against the model's detect
            d1, d2 = impl.detect(data, True), impl.detect(data, False)
            if d1 != d2:
                out.append(("fail", "detect-peek-vs-read-differ", case, dict(peek=d1, read=d2)))
            out.append(("detect", case, det_str(d1), data[:24].hex() or "-"))
            # magic law of the codec parameter: the stream starts with the prefix joblib lists for that codec
            if who not in ("raw", "unknown"):
                pfx = bytes(next(cc["pfx"] for cc in tables["compressors"] if cc["name"] == who))
                if not data.startswith(pfx):
                    out.append(("diverge", "codec-law-magic", case, data[:8].hex(), pfx.hex()))
            if who == "raw" and data.startswith(zf):
                out.append(("diverge", "pickle-starts-with-ZF", case, data[:8].hex(), "-"))
        out.append(("resolve", case, impl_s))
        if o[2] is not None:
            try:
                if os.path.exists(o[2]):
                    os.unlink(o[2])
                os.rmdir(os.path.dirname(o[2]))
            except OSError:
                pass
    return out


def _resolve_shard(args):
    scratch, tables, i, n = args
    warnings.simplefilter("ignore")
    impl = Impl(_ShardCtx(pathlib.Path(scratch) / f"shard{i}"), tables)
    return observe_resolve(impl, tables, all_resolve_cases(tables)[i::n])


RESOLVE_SHARDS = 8


def run_resolve(ctx, res, impl, tables, cases=None):
    drv = ctx.driver()
    if cases is None:
        import concurrent.futures
        import multiprocessing

        with concurrent.futures.ProcessPoolExecutor(RESOLVE_SHARDS, mp_context=multiprocessing.get_context("fork")) as ex:
            parts = list(ex.map(_resolve_shard, [(str(ctx.scratch), tables, i, RESOLVE_SHARDS) for i in range(RESOLVE_SHARDS)]))
        records = [r for part in parts for r in part]
        n_cases = len(all_resolve_cases(tables))
    else:
        records = observe_resolve(impl, tables, cases)
        n_cases = len(cases)
    raw = impl.raw_ref(PROBE_OBJ)
    reqs, pend = [], []
    for r in records:
        if r[0] == "count":
            res.count(r[1])
        elif r[0] == "fail":
            res.fail(r[1], r[2], r[3])
        elif r[0] == "diverge":
            res.diverge(r[1], r[2], r[3], r[4])
        elif r[0] == "detect":
            reqs.append("detect " + r[3])
            pend.append(("detect", r[1], r[2]))
        else:
            case = r[1]
            res.evaluations += 1
            res.nontrivial.add((case["arg_token"], case["target_token"]))
            if res.evaluations % 997 == 0:
                res.sample(dict(case=case, impl=r[2]))
            reqs.append(f"resolve {case['arg_token']} {case['target_token']}")
            pend.append(("resolve", case, r[2]))
    replies = drv.run(reqs)
    for (what, case, impl_s), rep in zip(pend, replies):
        res.traces_validated += 1
        if rep == "bad-op":
            raise core.InfraError(f"driver rejected request for {case}")
        if what == "detect":
            if rep != impl_s:
                res.diverge("detect", case, impl_s, rep)
            continue
        model_s = rep
        parts = rep.split()
        if parts[:2] == ["ok", "codec"]:
            name, lvl = parts[2], parts[3]
            level = None if lvl == "default" else int(lvl)
            try:
                ref = impl.codecs[name][1](raw, level)
                model_s = f"ok codec {name} sig={level_sig(name, ref)}"
            except Exception as e:  # noqa: BLE001
                model_s = f"ok codec {name} level={lvl} (reference codec raised {type(e).__name__})"
        if model_s != impl_s:
            res.diverge("resolve", case, impl_s, rep + " => " + model_s)
    return n_cases


def run_detect_synthetic(ctx, res, impl, tables):
    """`_detect_compressor` on synthetic heads: every prefix, its truncations, with/without tails, pickle starts."""
    rng = ctx.rng("detect")
    heads = [b"", b"Z", b"ZF", b"ZFx", b"\x80", b"\x80\x04", b"]q\x00", b"]\x00", b"]", b"(lp0", b"N.", b"x", b"\x78\x9c"]
    for c in tables["compressors"]:
        p = bytes(c["pfx"])
        for k in range(1, len(p) + 1):
            heads.append(p[:k])
        heads.append(p[:-1] + bytes([(p[-1] + 1) % 256]))
    for proto in range(0, 6):
        for v in (None, 1, "a", [], [1], (), {}, 1.5, b"x", True, 2**70, {1}, (1, 2, 3, 4), objs.Plain, objs.Plain(a=1)):
            try:
                heads.append(pickle._dumps(v, proto))
            except Exception:  # noqa: BLE001
                pass
    cases = []
    for h in heads:
        cases.append(h)
        cases.append(h + bytes(rng.getrandbits(8) for _ in range(rng.randint(1, 12))))
    for _ in range(400 if ctx.thorough else 120):
        cases.append(bytes(rng.getrandbits(8) for _ in range(rng.randint(0, 8))))
    reqs = ["detect " + (c[:32].hex() or "-") for c in cases]
    replies = ctx.driver().run(reqs)
    for c, rep in zip(cases, replies):
        res.evaluations += 1
        res.traces_validated += 1
        a, b = impl.detect(c, True), impl.detect(c, False)
        case = dict(kind="detect", head=c[:32].hex())
        if a != b:
            res.fail("detect-peek-vs-read-differ", case, dict(peek=a, read=b))
        if det_str(a) != rep:
            res.diverge("detect-synthetic", case, det_str(a), rep)
        res.count("detect=" + a)
        res.nontrivial.add(("detect", c[:32]))


# ----------------------------------------------------------------------------- (c) round trips


def stdlib_roundtrips(obj, proto):
    """Is the object picklable (and faithfully so) by CPython's own pickle under this protocol? Defines
    "every picklable object" without joblib."""
    try:
        back = pickle.loads(pickle.dumps(obj, proto))
        return objs.canon(back) == objs.canon(obj)
    except Exception:  # noqa: BLE001
        return False


def make_object(gen):
    rng = core.random.Random(f"C03-obj/{gen['salt']}/{gen['idx']}")
    cls = gen["cls"]
    if cls == "small":
        return objs.gen_object(rng, max_depth=gen.get("depth", 4))
    if cls == "batch":
        return objs.batch_object(rng)
    if cls in objs.BIG_SIZES:
        return objs.big_leaf_object(rng, cls)
    return objs.sized_object(rng, cls)


def roundtrip_case(res, impl, tables, case, drv_reqs, drv_pend):
    obj = make_object(case["gen"])
    proto = case["proto"]
    compress = dec(case["compress"])
    if not stdlib_roundtrips(obj, 4 if proto is None else (pickle.HIGHEST_PROTOCOL if proto < 0 else proto)):
        res.count("skipped-not-picklable-under-protocol")
        return
    want = objs.canon(obj)
    res.evaluations += 1
    res.count("proto=" + str(proto))
    res.count("size=" + case["gen"]["cls"])
    res.count("compress=" + repr(compress))
    res.count("target=" + case["target"])
    out = impl.dump(obj, compress, case["target"], case["name"], protocol=proto)
    if out[0] != "ok":
        res.fail("dump-raises-on-valid-input:" + str(out[1]), case, str(out))
        return
    data, path = out[1], out[2]
    res.nontrivial.add((hash(repr(want)), proto, arg_token(compress), case["target"], case["name"]))
    try:
        backs = impl.load_variants(data, path, case["load_ext"], case["target"])
    except Exception as e:  # noqa: BLE001
        res.fail("load-raises-after-dump:" + type(e).__name__, case, repr(e)[:300])
        return
    for how, back in backs:
        try:
            got = objs.canon(back)
        except Exception as e:  # noqa: BLE001
            got = ("canon-failed", repr(e))
        if got != want:
            sig = "roundtrip-differs"
            if repr(got).replace("'ref', ", "") != repr(want).replace("'ref', ", "") and _strip_refs(got) == _strip_refs(want):
                sig = "roundtrip-identity-structure-differs"
            res.fail(sig, case, dict(how=how, want=repr(want)[:300], got=repr(got)[:300]))
            break
    # parameters' laws on this interpreter: the raw pickle starts as the table says; sniffing agrees with the model
    raw = impl.raw_ref(obj, proto)
    drv_reqs.append("start " + raw[:2].hex())
    drv_pend.append(("start", case, "yes"))
    drv_reqs.append("detect " + (data[:24].hex() or "-"))
    drv_pend.append(("detect", case, det_str(impl.detect(data, True))))
    who = identify(data, raw, impl.codecs)
    if who == "unknown":
        res.diverge("codec-law-inverse", case, data[:8].hex(), "a CPython codec decoding the file to the raw pickle")
    res.count("written-as=" + who)
    if len(res.samples) < 4:
        res.sample(dict(case=case, obj=objs.describe(obj), written_as=who, nbytes=len(data)))


def _strip_refs(c):
    if isinstance(c, tuple):
        if len(c) == 2 and c[0] == "ref":
            return "ref"
        return tuple(_strip_refs(x) for x in c)
    return c


def roundtrip_plan(ctx, tables, salt, scale):
    rng = ctx.rng("plan" + salt)
    avail = [c["name"] for c in tables["compressors"] if c["available"]]
    exts = [c["ext"] for c in tables["compressors"] if c["available"]] + [".pkl", "", ".joblib"]
    cfgs = [0, False, True, 1, 3, 6, 9] + avail + [(n, l) for n in avail for l in (1, 3, 9)] + [(avail[0], 0)]
    tkinds = ["str", "pathlib", "file", "bytesio", "namedtemp", "duckwriter"]
    protos = [0, 1, 2, 3, 4, 5, None, -1]
    plan = []

    def add(cls, idx, **kw):
        c = rng.choice(cfgs)
        plan.append(dict(kind="roundtrip", gen=dict(salt=salt, idx=idx, cls=cls, **kw), proto=rng.choice(protos),
                         compress=enc(c), target=rng.choice(tkinds), name="obj" + rng.choice(exts),
                         load_ext=rng.choice(exts)))

    for i in range(int(260 * scale)):
        add("small", i, depth=rng.choice([2, 3, 4, 5]))
    for i in range(int(24 * scale)):
        add("batch", 10_000 + i)
    for i in range(int(30 * scale)):
        add("8k", 20_000 + i)
    for i in range(int(18 * scale)):
        add("64k", 30_000 + i)
    for i in range(max(6, int(8 * scale))):
        add("1m", 40_000 + i)
    # caller-opened file objects as targets (compress falsy: the file object does the work), small objects and single
    # leaves of 1 MiB +- 1, 2 MiB, 5 MiB handed to write() in one call
    big = [("1m+", 60_000), ("1m+", 60_001), ("2m", 60_002), ("5m", 60_003)]
    k = 0
    for kind in OPENED_TARGETS:
        for proto in (0, 2, 3, 4, 5):
            plan.append(dict(kind="roundtrip", gen=dict(salt=salt, idx=61_000 + k, cls="small", depth=3), proto=proto,
                             compress=rng.choice([0, False]), target=kind, name="opened" + rng.choice(exts), load_ext=rng.choice(exts)))
            k += 1
        for cls, idx in big:
            if kind in ("lzmafile", "bz2file") and cls == "5m" and scale < 2:
                continue
            for proto in ((0, 4, 5) if scale < 2 else (0, 1, 2, 3, 4, 5)):
                if proto < 2 and cls == "5m":
                    continue
                plan.append(dict(kind="roundtrip", gen=dict(salt=salt, idx=idx + 10 * k, cls=cls), proto=proto,
                                 compress=0, target=kind, name="big.bin", load_ext=rng.choice(exts)))
                k += 1
    for cls, idx in big:  # the same payloads through the ordinary targets and every codec
        for c in [0] + [(n, 1) for n in avail]:
            plan.append(dict(kind="roundtrip", gen=dict(salt=salt, idx=idx + 7000, cls=cls), proto=rng.choice([2, 4, 5]),
                             compress=enc(c), target=rng.choice(tkinds), name="big" + rng.choice(exts), load_ext=rng.choice(exts)))
    # systematic sweep: one fixed mid-size object through EVERY compressor config x protocol x target kind
    for ci, c in enumerate(cfgs):
        for pi, p in enumerate([0, 1, 2, 3, 4, 5]):
            k = tkinds[(ci + pi) % 4]
            plan.append(dict(kind="roundtrip", gen=dict(salt=salt, idx=50_000, cls="8k"), proto=p, compress=enc(c),
                             target=k, name="sweep" + exts[(ci + pi) % len(exts)], load_ext=exts[(ci * 3 + pi) % len(exts)]))
    return plan


def run_roundtrips(ctx, res, impl, tables, plan):
    reqs, pend = [], []
    for case in plan:
        roundtrip_case(res, impl, tables, case, reqs, pend)
    replies = ctx.driver().run(reqs)
    for (what, case, impl_s), rep in zip(pend, replies):
        res.traces_validated += 1
        if rep != impl_s:
            res.diverge("pickle-start-table" if what == "start" else "detect", case, impl_s, rep)


# ----------------------------------------------------------------------------- open file objects, cursor past 0

READ_KINDS = ("buffered", "raw", "bytesio", "nopeek")
PEEKLESS = ("raw", "bytesio", "nopeek")


class NoPeek:
    """A seekable binary reader without `peek` around a real file."""

    def __init__(self, f):
        self._f = f

    def read(self, n=-1):
        return self._f.read(n)

    def readline(self):
        return self._f.readline()

    def readinto(self, b):
        return self._f.readinto(b)

    def seek(self, *a):
        return self._f.seek(*a)

    def tell(self):
        return self._f.tell()

    def seekable(self):
        return True

    def close(self):
        self._f.close()


def open_reader(kind, path, data):
    if kind == "buffered":
        return open(path, "rb")
    if kind == "raw":
        return open(path, "rb", buffering=0)
    if kind == "bytesio":
        return io.BytesIO(data)
    return NoPeek(open(path, "rb"))


def offset_plan(ctx, tables, salt, scale):
    rng = ctx.rng("offsets" + salt)
    avail = [c["name"] for c in tables["compressors"] if c["available"]]
    plan = []
    idx = 0
    # (1) an application header of k bytes, then ONE dump (every codec), written through one open file object
    for k in [1, 2, 4, 5, 19, 8191, 8192, 70000]:
        for c in [0] + [(n, rng.choice([1, 3, 9])) for n in avail]:
            for wkind in (("file", "bytesio") if scale >= 2 or k in (5, 19) else (rng.choice(["file", "bytesio"]),)):
                idx += 1
                plan.append(dict(kind="offset", header=k, items=[dict(gen=dict(salt=salt, idx=70_000 + idx, cls="small", depth=3),
                                                                      compress=enc(c), proto=rng.choice([0, 1, 2, 3, 4, 5, None]))],
                                 writer=wkind))
    # (2) 2-3 dumps back to back; all but the last uncompressed (a compressed stream is read ahead of its end: the
    #     cursor is only demanded right after UNCOMPRESSED dumps), the last one with any codec
    for _ in range(int(14 * scale)):
        n = rng.choice([2, 3, 3])
        items = []
        for j in range(n):
            idx += 1
            last = j == n - 1
            c = rng.choice([0] + [(m, 3) for m in avail]) if last else 0
            items.append(dict(gen=dict(salt=salt, idx=70_000 + idx, cls=rng.choice(["small", "small", "8k"]), depth=3),
                              compress=enc(c), proto=rng.choice([0, 2, 4, 5, None])))
        plan.append(dict(kind="offset", header=rng.choice([0, 0, 7]), items=items, writer=rng.choice(["file", "bytesio"])))
    # (3) one dump at offset 0 (every codec): peek-less readers with the cursor at 0 / at the end; buffered at 0
    for c in [0, 0] + [(n, 3) for n in avail]:
        idx += 1
        plan.append(dict(kind="offset", header=0, items=[dict(gen=dict(salt=salt, idx=70_000 + idx, cls=rng.choice(["small", "8k"]), depth=3),
                                                              compress=enc(c), proto=rng.choice([0, 2, 4, 5, None]))],
                         writer=rng.choice(["file", "bytesio"])))
    # (4) dump, then load from the SAME object without rewinding
    for holder in ("bytesio", "rawfile"):
        for proto in (0, 1, 2, 3, 4, 5, None):
            idx += 1
            plan.append(dict(kind="norewind", gen=dict(salt=salt, idx=70_000 + idx, cls=rng.choice(["small", "small", "8k"]), depth=3),
                             proto=proto, holder=holder))
    return plan


def offset_case(res, impl, case, reqs, pend):
    j = impl.joblib
    header = bytes((37 * i + 11) % 251 for i in range(case["header"]))
    objs_ = [make_object(it["gen"]) for it in case["items"]]
    for o, it in zip(objs_, case["items"]):
        p = it["proto"]
        if not stdlib_roundtrips(o, 4 if p is None else p):
            res.count("skipped-not-picklable-under-protocol")
            return
    # ---- write: header, then the dumps, through ONE open file object
    path = impl.fresh("container.bin")
    starts, ends = [], []
    try:
        f = open(path, "wb") if case["writer"] == "file" else io.BytesIO()
        f.write(header)
        for o, it in zip(objs_, case["items"]):
            starts.append(f.tell())
            j.dump(o, f, compress=dec(it["compress"]), protocol=it["proto"])
            ends.append(f.tell())
        data = f.getvalue() if case["writer"] == "bytesio" else None
        f.close()
        if data is None:
            data = path.read_bytes()
        else:
            path.write_bytes(data)
    except Exception as e:  # noqa: BLE001
        res.fail("dump-at-offset-raises:" + type(e).__name__, case, repr(e)[:300])
        return
    wants = [objs.canon(o) for o in objs_]
    maxlen = impl.tables["prefixesMaxLen"]
    for rkind in READ_KINDS:
        sub = dict(case, reader=rkind)
        res.evaluations += 1
        res.count("offset-reader=" + rkind)
        res.count("offset-dumps=" + str(len(objs_)))
        res.nontrivial.add(("offset", case["header"], repr(case["items"]), case["writer"], rkind))
        if rkind in PEEKLESS:
            peekless_reader_case(res, impl, sub, rkind, path, data, header, starts, wants, reqs, pend)
            continue
        f = open_reader(rkind, path, data)
        try:
            f.read(len(header))
            for i, (want, it) in enumerate(zip(wants, case["items"])):
                pos = f.tell()
                if pos != starts[i]:
                    break  # an earlier failure was already reported
                # ---- sniffing alone: what it says and where it leaves the cursor. For a buffered reader `peeked` is
                # what peek() returns in the state the reader is in (peek is idempotent: it refills only an empty buffer)
                peeked = len(f.peek(1)) if rkind == "buffered" else 0
                d = impl.npu._detect_compressor(f)
                after = f.tell()
                window = data[: pos + max(24, min(peeked, 64))]
                if len(window) <= 20000:
                    reqs.append(f"sniff {1 if rkind == 'buffered' else 0} {peeked} {pos} {window.hex() or '-'}")
                    pend.append(("sniff", dict(sub, index=i), f"{det_str(d)} pos={after}"))
                # stable classification of the input (what known_findings match on)
                if peeked < maxlen and pos + peeked < len(data):
                    sig = "load-at-offset:buffered-file:magic-number-straddles-the-read-buffer"
                else:
                    sig = "load-at-offset:buffered-file"
                if after != pos:
                    f.seek(pos)  # the load below is judged on its own
                try:
                    back = j.load(f)
                except Exception as e:  # noqa: BLE001
                    res.fail(sig, dict(sub, index=i), dict(outcome="load raises " + type(e).__name__, pos=pos, peeked=peeked))
                    break
                try:
                    got = objs.canon(back)
                except Exception as e:  # noqa: BLE001
                    got = ("canon-failed", repr(e))
                if got != want:
                    res.fail(sig, dict(sub, index=i), dict(outcome="another object is returned", pos=pos, got=repr(got)[:160]))
                    break
                if dec(it["compress"]) in (0, False) and f.tell() != ends[i]:
                    res.fail(sig + ":cursor-not-after-the-dump", dict(sub, index=i), dict(want=ends[i], got=f.tell()))
                    break
        finally:
            f.close()
    try:
        os.unlink(path)
        os.rmdir(path.parent)
    except OSError:
        pass


def peekless_reader_case(res, impl, sub, rkind, path, data, header, starts, wants, reqs, pend):
    """File objects WITHOUT peek() (io.BytesIO, raw unbuffered files, wrappers): `_detect_compressor` reads the magic
    number at the cursor and rewinds the object to byte 0 — intended, and pinned by joblib's own
    test_in_memory_persistence (`f = io.BytesIO(); dump(obj, f); load(f)`). So what is demanded here is what the code
    promises: `load(f)` returns the dump that STARTS AT OFFSET 0 when the cursor is at 0, and — for an uncompressed
    first dump — also when the cursor is at the END of the object ("dump; load without rewinding"). Loads of a dump
    that starts at a non-zero offset are NOT demanded of these objects. The sniffing itself (answer, cursor
    afterwards) is compared with the model at every position."""
    j = impl.joblib
    case = sub
    first_uncompressed = dec(case["items"][0]["compress"]) in (0, False)
    positions = sorted(set([0, len(data)] + starts + [len(header)]))
    for pos in positions:
        g = open_reader(rkind, path, data)
        try:
            g.seek(pos)
            d = impl.npu._detect_compressor(g)
            after = g.tell()
        finally:
            g.close()
        window = data[: pos + 24]
        if len(window) <= 20000:
            reqs.append(f"sniff 0 0 {pos} {window.hex() or '-'}")
            pend.append(("sniff", dict(sub, cursor=pos), f"{det_str(d)} pos={after}"))
    if len(header) != 0:
        res.count("peekless:dump-not-at-0:not-demanded")
        return
    demanded = [0] + ([len(data)] if first_uncompressed else [])
    for pos in demanded:
        f = open_reader(rkind, path, data)
        sig = "load-peekless-file-object:dump-at-0:cursor-at-" + ("0" if pos == 0 else "end")
        try:
            f.seek(pos)
            try:
                back = j.load(f)
            except Exception as e:  # noqa: BLE001
                res.fail(sig, dict(sub, cursor=pos), dict(outcome="load raises " + type(e).__name__))
                continue
            try:
                got = objs.canon(back)
            except Exception as e:  # noqa: BLE001
                got = ("canon-failed", repr(e))
            if got != wants[0]:
                res.fail(sig, dict(sub, cursor=pos), dict(outcome="another object is returned", got=repr(got)[:160]))
            res.count("peekless:" + sig.rsplit(":", 1)[1])
        finally:
            f.close()


def norewind_case(res, impl, case):
    """`f = io.BytesIO(); dump(obj, f); load(f)` on the SAME object, without rewinding (joblib's own
    test_in_memory_persistence), and the same with a raw unbuffered file opened 'w+b'."""
    j = impl.joblib
    obj = make_object(case["gen"])
    if not stdlib_roundtrips(obj, 4 if case["proto"] is None else case["proto"]):
        res.count("skipped-not-picklable-under-protocol")
        return
    res.evaluations += 1
    res.count("norewind=" + case["holder"])
    res.nontrivial.add(("norewind", repr(case["gen"]), case["proto"], case["holder"]))
    want = objs.canon(obj)
    path = impl.fresh("norewind.bin")
    f = io.BytesIO() if case["holder"] == "bytesio" else open(path, "w+b", buffering=0)
    try:
        j.dump(obj, f, protocol=case["proto"])
        back = j.load(f)
        got = objs.canon(back)
    except Exception as e:  # noqa: BLE001
        res.fail("dump-then-load-without-rewinding:raises-" + type(e).__name__, case, repr(e)[:200])
        return
    finally:
        f.close()
    if got != want:
        res.fail("dump-then-load-without-rewinding:differs", case, dict(got=repr(got)[:160]))


def run_offsets(ctx, res, impl, tables, plan):
    reqs, pend = [], []
    for case in plan:
        if case["kind"] == "norewind":
            norewind_case(res, impl, case)
        else:
            offset_case(res, impl, case, reqs, pend)
    replies = ctx.driver().run(reqs) if reqs else []
    for (what, case, impl_s), rep in zip(pend, replies):
        res.traces_validated += 1
        if rep == "bad-op":
            raise core.InfraError(f"driver rejected a sniff request for {case}")
        if rep != impl_s:
            res.diverge("sniff", case, impl_s, rep)


# ----------------------------------------------------------------------------- (e) histories in one process

HIST_HELPER = str(pathlib.Path(__file__).resolve().parent.parent / "c03_hist.py")
HIST_SLOTS = ["h0.pkl", "h1.gz", "h2", "h3.z", "h4.xz", "h5.joblib", "h6.bz2"]
HIST_VALID = [0, 0, 0, 3, True, 1, "zlib", "gzip", "bz2", "lzma", "xz", ("zlib", 1), ("gzip", 9), ("bz2", 1), ("lzma", 3),
              ("xz", 1), ("zlib", 0)]
HIST_INVALID = [("foo", 3), 10, ("zlib", "3"), "ZLIB", ("hist9", 1)]


def hist_modes(g):
    from .. import c03_hist as H

    mod = H.GLOBALS[g][0]
    if mod == H.FMOD:
        return ["reload", "reimport"]
    if mod == H.SYN:
        return ["exec", "setattr", "newmodule"]
    return ["exec", "setattr"]


def hist_spec(rng, depth):
    from .. import c03_hist as H

    inst = [g for g, x in enumerate(H.GLOBALS) if x[2] in H.INSTANCE_SHAPES]
    k = rng.randrange(11 if depth > 0 else 5)
    if k == 0:
        return ["n"]
    if k == 1:
        return ["i", rng.choice([0, 1, -1, 255, 2**31, 2**70, rng.randint(-999, 999)])]
    if k == 2:
        return ["s", rng.choice(["", "a", "é", "x" * 300, "line\nbreak"])]
    if k == 3:
        return ["glob", rng.randrange(len(H.GLOBALS))]
    if k == 4:
        return ["enum", 7, rng.choice(["A", "B"])]
    if k in (5, 6):
        return ["inst", rng.choice(inst), hist_spec(rng, depth - 1), hist_spec(rng, depth - 1)]
    if k == 7:
        return ["l", [hist_spec(rng, depth - 1) for _ in range(rng.randint(0, 3))]]
    if k == 8:
        return ["t", [hist_spec(rng, depth - 1) for _ in range(rng.randint(0, 3))]]
    if k == 9:
        return ["d", [[["s", "k%d" % i], hist_spec(rng, depth - 1)] for i in range(rng.randint(0, 3))]]
    return ["ref", rng.randrange(4)]


def hist_top(rng, g, tag, focus=None):
    payload = hist_spec(rng, 3)
    if focus is not None:  # make sure the global in focus is mentioned by the file
        payload = ["l", [payload, ["glob", focus], ["ref", 0]]]
    return ["inst", g, ["i", tag], payload]


def hist_systematic(rng):
    """For every global and every way of re-binding it: dump, load, RE-BIND, load the old file, dump, load."""
    from .. import c03_hist as H

    inst = [g for g, x in enumerate(H.GLOBALS) if x[2] in H.INSTANCE_SHAPES]
    ops, ver = [], 0
    for g in range(len(H.GLOBALS)):
        for mode in hist_modes(g):
            top = g if g in inst else rng.choice(inst)
            s1, s2 = rng.sample(HIST_SLOTS, 2)
            ver += 1
            ops.append(["dump", s1, hist_top(rng, top, len(ops), g), enc(rng.choice(HIST_VALID)), rng.choice([0, 1, 2, 3, 4, 5, None]),
                        rng.choice(["path", "pathlib", "file", "bytesio"]), "valid"])
            ops.append(["load", s1, rng.choice(["path", "file", "bytesio"])])
            ops.append(["rebind", g, mode, ver])
            ops.append(["load", s1, rng.choice(["path", "file", "bytesio"])])
            ops.append(["dump", s2, hist_top(rng, top, len(ops), g), enc(rng.choice(HIST_VALID)), rng.choice([0, 1, 2, 3, 4, 5, None]),
                        rng.choice(["path", "pathlib", "file", "bytesio"]), "valid"])
            ops.append(["load", s2, rng.choice(["path", "file", "bytesio"])])
    return ops


def hist_systematic_registry(rng):
    """Registrations between operations: a built-in codec first (whatever is remembered from the first calls is
    remembered now), a compressor with a magic number LONGER than every built-in one, the same name registered again
    (force=True) with another magic number / key, a second compressor with a short magic number; then ONE file name
    rewritten with every compressor in turn, loaded after each rewrite."""
    from .. import c03_hist as H

    inst = [g for g, x in enumerate(H.GLOBALS) if x[2] in H.INSTANCE_SHAPES]
    ops = []

    def dl(slot, c):
        ops.append(["dump", slot, hist_top(rng, rng.choice(inst), len(ops)), enc(c), rng.choice([0, 1, 2, 3, 4, 5, None]),
                    rng.choice(["path", "pathlib", "file", "bytesio"]) if isinstance(c, (tuple, str)) else rng.choice(["path", "pathlib"]),
                    "valid"])
        # a buffered file (peek() hands out its whole read buffer) and an object without peek (read(max_prefix_len))
        ops.append(["load", slot, rng.choice(["path", "file"])])
        ops.append(["load", slot, "bytesio"])

    def reg(name, n, key):
        first = 0xC3 if name == "hist1" else 0xC5
        ops.append(["reg", name, (bytes([first]) + bytes((29 * key + 5 * i) % 251 for i in range(n - 1))).hex(),
                    ".h1" if name == "hist1" else ".h2", key])

    dl("h1.gz", 0)
    dl("h4.xz", ("xz", 1))
    reg("hist1", 12, 90)
    dl("h2", ("hist1", 3))
    dl("h7.h1", 3)
    ops.append(["load", "h1.gz", "path"])
    ops.append(["load", "h4.xz", "bytesio"])
    reg("hist1", 19, 7)
    dl("h3.z", "hist1")
    dl("h7.h1", True)
    reg("hist2", 3, 201)
    dl("h8.h2", 1)
    dl("h0.pkl", ("hist2", 1))
    ops.append(["load", "h3.z", "file"])
    reg("hist1", 5, 33)
    dl("h5.joblib", ("hist1", None))
    ops.append(["load", "h0.pkl", "path"])
    cycle = [0, "zlib", ("gzip", 3), "hist1", "bz2", ("hist2", 3), ("lzma", 1), "xz", 0, ("hist1", 1), ("zlib", 9)]
    rng.shuffle(cycle)
    for c in cycle:
        ops.append(["dump", "same.pkl", hist_top(rng, rng.choice(inst), len(ops)), enc(c), rng.choice([0, 2, 4, 5, None]),
                    rng.choice(["path", "pathlib", "file", "bytesio"]), "valid"])
        ops.append(["load", "same.pkl", "path"])
        ops.append(["load", "same.pkl", rng.choice(["file", "bytesio"])])
    return ops


def hist_random(rng, n_ops, registry):
    from .. import c03_hist as H

    inst = [g for g, x in enumerate(H.GLOBALS) if x[2] in H.INSTANCE_SHAPES]
    ops, ver, written, regs, nreg = [], 0, [], {}, 0
    slots = list(HIST_SLOTS) + (["h7.h1", "h8.h2"] if registry else [])
    while len(ops) < n_ops:
        r = rng.random()
        if registry and (r < 0.08 or (not regs and r < 0.3)):
            name = rng.choice(["hist1", "hist2"])
            nreg += 1
            first = 0xC3 if name == "hist1" else 0xC5
            pfx = bytes([first]) + bytes((17 * nreg + 3 * i) % 251 for i in range(rng.choice([2, 6, 11, 19])))
            regs[name] = True
            ops.append(["reg", name, pfx.hex(), ".h1" if name == "hist1" else ".h2", rng.randrange(1, 256)])
        elif r < 0.38 or not written:
            slot = rng.choice(slots)
            tk = rng.choice(["path", "pathlib", "file", "bytesio"])
            pool = list(HIST_VALID) + [(n, 3) for n in regs] + list(regs)
            if rng.random() < 0.06 and tk != "file":
                c, ok = rng.choice(HIST_INVALID), "invalid"
            else:
                c, ok = rng.choice(pool), "valid"
            ops.append(["dump", slot, hist_top(rng, rng.choice(inst), len(ops)), enc(c), rng.choice([0, 1, 2, 3, 4, 5, None]), tk, ok])
            if ok == "valid" and slot not in written:
                written.append(slot)
        elif r < 0.78:
            ops.append(["load", rng.choice(written if rng.random() < 0.95 else slots), rng.choice(["path", "file", "bytesio"])])
        else:
            g = rng.randrange(len(H.GLOBALS))
            ver += 1
            ops.append(["rebind", g, rng.choice(hist_modes(g)), ver])
    return ops


def history_plan(ctx, salt, scale):
    rng = ctx.rng("histories" + salt)
    plan = [dict(kind="history", flavour="bindings", ops=hist_systematic(rng)),
            dict(kind="history", flavour="registry", ops=hist_systematic_registry(rng))]
    for _ in range(max(2, int(3 * scale))):
        plan.append(dict(kind="history", flavour="bindings", ops=hist_random(rng, 60, False)))
    for _ in range(max(1, int(1.4 * scale))):
        plan.append(dict(kind="history", flavour="registry", ops=hist_random(rng, 60, True)))
    return plan


def run_history_process(args):
    scratch, k, ops = args
    import json
    import subprocess
    import sys as _sys

    env = dict(os.environ, PYTHONPATH=str(core.REPO))
    p = subprocess.run([_sys.executable, HIST_HELPER], input=json.dumps(dict(dir=os.path.join(scratch, f"hist{k}"), ops=ops)),
                       capture_output=True, text=True, env=env, timeout=600)
    if p.returncode != 0:
        raise core.InfraError("c03_hist.py failed: " + p.stderr[-800:])
    return json.loads(p.stdout)


def hist_model_line(ops, recs):
    """The `hist` request for the driver and the implementation's replies in the model's vocabulary (None: this history
    holds an operation the model does not speak about)."""
    from .. import c03_hist as H

    toks, impl = [], []
    for op, rec in zip(ops, recs):
        out = rec["out"]
        if op[0] == "reg":
            return None, None
        if out.startswith("skip"):
            if op[0] == "dump":
                continue  # CPython's pickle does not take this object under this protocol: the dump was not attempted
            break
        if op[0] == "rebind":
            toks.append(f"r,{op[1]},{op[3]}")
            impl.append("rebound")
        elif op[0] == "dump":
            _, slot, spec, c, proto, tk, _ok = op
            tt = {"path": "path:" + s_tok(slot), "pathlib": "pathlib:" + s_tok(slot), "file": "file", "bytesio": "bytesio"}[tk]
            toks.append(f"d,{s_tok(slot)},{arg_token(dec(c))},{tt},{pickle.DEFAULT_PROTOCOL if proto is None else proto},{spec[1]},{spec[2][1]}")
            impl.append("ok" if out == "ok" else "err:" + out.split()[1])
        else:
            toks.append(f"l,{s_tok(op[1])}")
            if out == "nofile":
                impl.append("nofile")
            elif out == "raises":
                impl.append("raises:" + rec["exc"])
            else:
                impl.append(f"loaded:g={rec['g']}:v={rec['ver']}:id={rec['tag']}")
    return f"hist {len(H.GLOBALS)} " + "|".join(toks), impl


def run_histories(ctx, res, plan):
    import concurrent.futures

    with concurrent.futures.ThreadPoolExecutor(3) as ex:
        outs = list(ex.map(run_history_process, [(str(ctx.scratch), k, h["ops"]) for k, h in enumerate(plan)]))
    reqs, pend = [], []
    for h, recs in zip(plan, outs):
        ops = h["ops"]
        res.count("history=" + h["flavour"])
        since_rebind = None
        for i, (op, rec) in enumerate(zip(ops, recs)):
            out = rec["out"]
            case = dict(kind="history", flavour=h["flavour"], ops=ops[: i + 1])
            if out in ("harness-error", "bad-op"):
                raise core.InfraError(f"c03_hist.py: {rec}")
            res.count("history-op=" + op[0] + ":" + out.split(":")[0].split()[0])
            if op[0] == "rebind":
                since_rebind = op[2]
                res.count("history-rebind=" + op[2])
            elif op[0] == "dump":
                res.evaluations += 1
                if out.startswith("err") and op[6] == "valid":
                    res.fail("history:dump-raises-on-valid-input:" + out.split()[1], case, rec.get("detail"))
            elif op[0] == "load" and not out.startswith("skip") and out != "nofile":
                res.evaluations += 1
                res.nontrivial.add(("history", repr(ops[: i + 1])))
                if out == "raises":
                    res.fail("history:load-raises:" + rec["exc"], case, rec.get("detail"))
                elif rec["mismatch"]:
                    res.fail("history:load-differs-from-pickle-at-the-same-instant:" + rec["mismatch"][0]
                             + (":after-a-rebinding" if since_rebind else ":no-rebinding"), case,
                             dict(where=rec["mismatch"][1], last_rebind=since_rebind, **rec.get("detail", {})))
        if len(res.samples) < 6:
            res.sample(dict(history=h["flavour"], n_ops=len(ops), first_ops=ops[:3]))
        line, impl = hist_model_line(ops, recs)
        if line is not None:
            reqs.append(line)
            pend.append((h, impl))
    replies = ctx.driver().run(reqs) if reqs else []
    for (h, impl), rep in zip(pend, replies):
        if rep == "bad-op":
            raise core.InfraError("driver rejected a hist request")
        model = rep.split("|")
        for i, (a, b) in enumerate(zip(impl, model)):
            res.traces_validated += 1
            if a != b:
                res.diverge("history", dict(kind="history", flavour=h["flavour"], ops=h["ops"][: i + 1]), a, b)
                break


# ----------------------------------------------------------------------------- tables


def check_tables(ctx, res, tables):
    rep = ctx.driver().run(["tables"])[0]
    cs = ",".join(
        f"{c['name']}:{bytes(c['pfx']).hex()}:{c['ext']}:{1 if c['available'] else 0}:{c['floatLevelErr']}" for c in tables["compressors"]
    )
    want = (f"tables {cs};zf={bytes(tables['zfilePrefix']).hex()};max={tables['prefixesMaxLen']};"
            f"lz4={1 if tables['lz4Installed'] else 0};zlevel={tables['zlibDefaultLevel']};hp={tables['pickleHighestProtocol']}")
    res.traces_validated += 1
    if rep != want:
        res.diverge("generated-tables", dict(kind="tables"), want, rep)


RULE = ("resolve: every (compress-argument form, target) pair of the exhaustive product is distinct and counted "
        "(forms: True/False/None, ints -1..10 and huge, floats, unrelated objects, every registered name and near-misses, "
        "(name|non-string|unhashable, level) tuples over 14 level values, tuples of length 0/1/3/4; targets: 27 file names "
        "x {str, pathlib.Path}, open file objects, BytesIO, non-files); roundtrip: distinct by (canonical form of the "
        "object incl. identity structure, protocol, compress argument, target kind, file name); an object is used only if "
        "CPython's own pickle round-trips it under that protocol (that is what 'picklable' means here); histories: every "
        "load of a history is one evaluation, distinct by the sequence of operations before it")


def _explore(ctx, scale, salt):
    res = Result()
    res.rule = RULE
    tables = gen_tables.ensure(res, "C03", REQUIRED_THEOREMS)
    impl = Impl(ctx, tables)
    check_tables(ctx, res, tables)
    n = run_resolve(ctx, res, impl, tables)
    res.count("resolve-cases", n)
    run_detect_synthetic(ctx, res, impl, tables)
    run_roundtrips(ctx, res, impl, tables, roundtrip_plan(ctx, tables, salt, scale))
    run_offsets(ctx, res, impl, tables, offset_plan(ctx, tables, salt, scale))
    run_histories(ctx, res, history_plan(ctx, salt, scale))
    res.assumptions = ["single writer per file; targets are regular files / BytesIO", "lz4 package absent"]
    return res


def prepare(ctx):
    """Called by core.run_check before the proof audit: the table-level theorems are then built against the
    tables VERIF_REPO has now."""
    gen_tables.regenerate()


def run(ctx):
    if ctx.replay:
        res = Result()
        res.rule = RULE
        tables = gen_tables.ensure(res, "C03", REQUIRED_THEOREMS)
        impl = Impl(ctx, tables)
        case = ctx.replay.get("case", {})
        if case.get("kind") == "roundtrip":
            run_roundtrips(ctx, res, impl, tables, [case])
        elif case.get("kind") in ("offset", "norewind"):
            case = {k: v for k, v in case.items() if k not in ("reader", "index", "cursor")}
            run_offsets(ctx, res, impl, tables, [case])
        elif case.get("kind") == "resolve":
            run_resolve(ctx, res, impl, tables, [(dec(case["compress"]), case["target"], case["name"])])
        elif case.get("kind") == "history":
            run_histories(ctx, res, [case])
        else:
            run_detect_synthetic(ctx, res, impl, tables)
        return res
    return _explore(ctx, 12.0 if ctx.thorough else 1.5, "main")


def search(ctx, res):
    return _explore(ctx, 8.0, "search")
