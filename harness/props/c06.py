"""C06 — Memory serves repeated calls from cache whatever the equivalent call form.

Model: lean/JoblibModel/MemoryCache.lean; theorems: lean/JoblibProofs/C06.lean; driver: lean/Driver/C06.lean
(= JoblibModel/MemoryDriver.lean). Shared machinery: harness/memcache.py (also used by C02).

* correspondence: as C02 (per step: outcome, executed?, value, key-equality class, md5 of the model stream);
* oracle (no model, execution counter kept by the generated functions; entries tracked by the implementation's own
  output.pkl files): once a call completed, a call binding the same arguments outside the ignore list — any call form, dict/set
  arguments in another insertion order, other values for ignored parameters, same or fresh process — does not execute the body
  while the entry file is still there; `check_call_in_cache` == "the next identical call does not execute"; a call the plain
  callable accepts is not rejected by the wrapper.

The model has two versions (`reset old|fixed`): the pinned tree, where MemorizedFunc.call stores without checking the function
code (F30: `cf.call(x)` on a fresh directory, then `cf(x)` executes again; `check_call_in_cache` says False while the next call is
served), and the tree with fixes/F30-forced-call-checks-func-code.diff. The harness asks for the version the tree under test shows
on a two-call probe, so the correspondence holds on both and the oracle reports F30 on the pinned one.
"""

from .. import core, memcache  # noqa: F401
from . import c02

REQUIRED_THEOREMS = [
    "C06.key_complete_partial",
    "C06.key_complete_nonfunction_counterexample",
    "C06.hit_after_call",
    "C06.hit_after_equivalent_call_partial",
    "C06.check_iff_hit",
    "C06.reachable_entriesCoded",
    "C06.hit_after_forced_call",
    "C06.wrapper_accepts",
    "C06.wrapper_accepts_nonfunction",
    "C06.old_forced_call_reexecuted_counterexample",
    "C06.old_check_false_but_hit_counterexample",
    "C06.fixed_on_the_F30_witnesses",
]
TRUSTED_EXTRA = c02.TRUSTED_EXTRA + [
    "a fresh process is the identity on this model (the key is a function of the call, the store is on disk); the harness runs such "
    "steps in another interpreter (new string-hash seed, empty in-memory function table)",
]


def run(ctx):
    if ctx.replay:
        return c02.replay(ctx, "C06")
    return memcache.explore(ctx, "C06", 12000 if ctx.thorough else 1000, "main")


def search(ctx, res):
    return memcache.explore(ctx, "C06", 4000, "search", with_corpus=False)
