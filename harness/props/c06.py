"""C06 — Memory serves repeated calls from cache whatever the equivalent call form.

Model: lean/JoblibModel/MemoryCache.lean; theorems: lean/JoblibProofs/C06.lean; driver: lean/Driver/C06.lean
(= JoblibModel/MemoryDriver.lean). Shared machinery: harness/memcache.py (also used by C02).

* correspondence: as C02 (per step: outcome, executed?, value, key-equality class, md5 of the model stream);
* oracle (no model, execution counter kept by the generated functions; entries tracked by the implementation's own
  output.pkl files): once a call completed, a call binding the same arguments outside the ignore list — any call form, dict/set
  arguments in another insertion order, other values for ignored parameters, same or fresh process — does not execute the body
  while the entry file is still there; `check_call_in_cache` == "the next identical call does not execute"; a call the plain
  callable accepts is not rejected by the wrapper.
  "The same arguments" are the arguments AS PASSED: 15 % of the histories are over functions that work IN PLACE on their list /
  dict / set / bytearray arguments (sort, pop, append, clear, reverse; ignored arguments too) after snapshotting their result,
  first completed through `call` (forced), `__call__` or `call_and_shelve`, then repeated with fresh equal arguments. A completed
  call that left NO entry file under the args id of the arguments it was passed is completed all the same (the one entry it did
  write is followed for eviction): its repeat must not execute — `equivalent-call-reexecuted:<kind>:mutating-function`
  (what the seeded change C06-r4-m3 does: MemorizedFunc.call hashing the arguments after the body ran).
  Model side: the functions' effect on their arguments goes to the driver as `mut` rows (observed on the PLAIN function);
  the code as it is never reads them (theorem C02.effect_on_arguments_irrelevant), the variant `reset … key-after-call` does.

  PARTIALLY ORDERED KEYS (seeded change seed5-C06-m1: `_holds_frozenset` with exact-type tests): + 4 % histories (`pord…`, oracle
  only — instances of tuple / frozenset subclasses are pickled through their class) whose dict / set / frozenset arguments have keys
  / elements on which `<` is a partial order — frozensets, instances of a frozenset subclass, namedtuples, tuple-subclass instances
  and tuples holding them at any depth, nested inside other containers — each call repeated with the EQUAL container built in
  reversed and shuffled insertion orders (`order` = None | "rev" | ["perm", n]), positional / keyword, same and fresh process; two
  corpus histories. Signature `equivalent-call-reexecuted:<kind>:partially-ordered-keys-in-another-insertion-order`. Model side:
  plain tuples holding frozensets are in the model's universe (GROUPS, `corpus-nested-frozenset-keys`); theorems
  `sorted_only_on_totally_ordered_keys` (the encoder hands `sorted()` totally ordered key lists only; everything holding a
  frozenset goes through the digests) and `reordered_partially_ordered_keys_witness`. `VERIF_MEMCACHE_PARTIAL_LT=1` adds keys of a
  USER class with a partial `__lt__` (harness/memcache_types.Lattice): the unchanged tree re-executes for those (reported; not in
  the default path).

The model has two versions (`reset old|fixed`): the pinned tree, where MemorizedFunc.call stores without checking the function
code (F30: `cf.call(x)` on a fresh directory, then `cf(x)` executes again; `check_call_in_cache` says False while the next call is
served), and the tree with fixes/F30-forced-call-checks-func-code.diff. The harness asks for the version the tree under test shows
on a two-call probe, so the correspondence holds on both and the oracle reports F30 on the pinned one.
"""

from .. import core, memcache  # noqa: F401
from . import c02

REQUIRED_THEOREMS = [
    "C06.key_complete_partial",
    "C06.key_complete_nonfunction_counterexample",
    "C06.hit_after_call",
    "C06.hit_after_equivalent_call_partial",
    "C06.check_iff_hit",
    "C06.reachable_entriesCoded",
    "C06.hit_after_forced_call",
    "C06.wrapper_accepts",
    "C06.wrapper_accepts_nonfunction",
    "C06.old_forced_call_reexecuted_counterexample",
    "C06.old_check_false_but_hit_counterexample",
    "C06.fixed_on_the_F30_witnesses",
    # functions that mutate their arguments in place (the key is that of the arguments AS PASSED)
    "C06.key_from_arguments_as_passed",
    "C06.hit_after_forced_call_mutating",
    "C06.hit_after_forced_call_mutating_equivalent_partial",
    "C06.check_true_after_call",
    "C06.key_after_call_counterexample",
    # dict keys / set elements that are only partially ordered (frozensets, tuples holding them)
    "C06.sorted_only_on_totally_ordered_keys",
    "C06.reordered_partially_ordered_keys_witness",
]
TRUSTED_EXTRA = c02.TRUSTED_EXTRA + [
    "results that cannot be pickled are outside the model (its values are storable): covered by the oracle-only probe "
    "`unpicklable_probe` (check_call_in_cache must say False: nothing can be stored, every call executes) — this is what found F48",
    "a fresh process is the identity on this model (the key is a function of the call, the store is on disk); the harness runs such "
    "steps in another interpreter (new string-hash seed, empty in-memory function table)",
]


UNPICKLABLE_LOG = []


def _unpicklable_result(x, shape):
    UNPICKLABLE_LOG.append(x)
    bad = (lambda: x)  # noqa: E731  (a local lambda cannot be pickled)
    if shape == "lock":  # TypeError rather than PicklingError
        import threading
        return [x, threading.Lock()]
    if shape == "alone":
        return bad
    if shape == "after-large-prefix":
        return ["p" * 100000, x, bad]
    if shape == "inside-dict":
        return {"x": x, "f": bad, "tail": list(range(50))}
    return (x, [bad])


def unpicklable_probe(ctx, res):
    """`check_call_in_cache` answers True exactly when the next identical call would not execute the function — also for a
    function whose result cannot be pickled (nothing can be stored for it: every call executes, so the answer must be False).
    Oracle only (the model's results are storable values)."""
    import warnings
    joblib = core.use_repo()
    for ci, compress in enumerate((False, True, ("gzip", 3))):
        for shape in ("alone", "after-large-prefix", "inside-dict", "in-tuple", "lock"):
            loc = ctx.scratch / f"unpicklable-{ci}-{shape}"
            case = dict(kind="unpicklable-result", shape=shape, compress=compress)
            import contextlib
            import io
            # joblib reports the failed load of a damaged entry on stdout/stderr
            with warnings.catch_warnings(), contextlib.redirect_stdout(io.StringIO()), contextlib.redirect_stderr(io.StringIO()):
                warnings.simplefilter("ignore")
                mem = joblib.Memory(str(loc), verbose=0, compress=compress)
                f = mem.cache(_unpicklable_result)
                UNPICKLABLE_LOG.clear()
                try:
                    f(3, shape)
                    flag = f.check_call_in_cache(3, shape)
                    n0 = len(UNPICKLABLE_LOG)
                    f(3, shape)
                    executed = len(UNPICKLABLE_LOG) > n0
                except Exception as e:  # noqa: BLE001
                    res.fail("wrapper-rejects-valid-call:unpicklable-result", case, repr(e)[:200])
                    continue
            res.evaluations += 1
            res.count("unpicklable-result-probes")
            res.nontrivial.add(("unpicklable", shape, str(compress)))
            if flag != (not executed):
                res.fail("check-call-in-cache-disagrees:unpicklable-result", case,
                         dict(check_call_in_cache=flag, next_call_executed=executed))


def run(ctx):
    if ctx.replay and ctx.replay.get("case", {}).get("kind") == "unpicklable-result":
        res = core.Result()
        res.rule = "replay: the unpicklable-result probe is re-run"
        unpicklable_probe(ctx, res)
        return res
    if ctx.replay:
        return c02.replay(ctx, "C06")
    res = memcache.explore(ctx, "C06", 12000 if ctx.thorough else 1000, "main")
    unpicklable_probe(ctx, res)
    return res


def search(ctx, res):
    return memcache.explore(ctx, "C06", 4000, "search", with_corpus=False)
