"""C01 — see DESIGN.md section 6/C01. Model M1 (lean/JoblibModel/ParallelProto.lean), theorems lean/JoblibProofs/C01.lean,
deterministic scenarios through harness/ctl.py, oracles in harness/m1.py."""

from .. import m1

REQUIRED_THEOREMS = [
    "C01.cfgOK_of",
    "C01.invariant_established",
    "C01.invariant_preserved",
    "C01.stale_callback_noop",
    "C01.dispatch_conservation",
    "C01.exactly_once",
    "C01.exactly_once_at_exit",
    "C01.return_correct",
    "C01.return_correct_unordered",
    "C01.no_hang",
    "C01.waiting_means_parked",
    "C01.initial_idle",
    "C01.pre_dispatch_zero_counterexample",
    "C01.auto_batch_size_ge_one",
    "C01.auto_batch_size_ge_one_across_calls",
    "C01.auto_batch_size_ignores_call_inputs",
    "C01.sequential_return_correct",
    "C01.sequential_exactly_once",
    "C01.sequential_leaves_idle",
    "M1L.reachable_inv",
    "M1L.reachable_inv2",
    "M1L.mutex",
    "M1L.dispatch_conservation",
    "M1L.exactly_once",
    "M1L.counters",
    "M1L.return_correct",
    "M1L.no_premature_exit",
    "M1L.no_deadlock",
    "M1L.callback_progress",
    "M1L.no_lost_wakeup",
    "M1L.quiet_exit",
    "M1L.reachable_inv4",
    "M1L.drain_step_decreases",
    "M1L.quiescent_termination",
    "M1L.quiescent_termination_bounded",
    "M1L.quiescent_termination_init",
    "M1L.quiescent_termination_after",
    "M1LSeq.reachable_inv",
    "M1LSeq.current_call_refines_M1L",
    "M1LSeq.finished_call_refines_M1L",
    "M1LSeq.step_refines",
    "M1LSeq.return_correct_seq",
    "M1LSeq.clean_call_returns_seq",
    "M1LSeq.exactly_once_seq",
    "M1LSeq.dispatch_conservation_seq",
    "M1LSeq.no_premature_exit_seq",
    "M1LSeq.stale_steps_are_noops",
]
EXTRA_LEAN_MODULES = ("JoblibProofs.M1L", "JoblibProofs.M1LSeq",)
EXTRA_LEAN_TARGETS = ("drv_m1l", "drv_m1lseq",)
TRUSTED_EXTRA = [
    "M1L-Seq (lean/JoblibModel/ParallelLockSeq.lean, theorems M1LSeq.*): sequences of calls on one object at M1L granularity; between two calls the caller thread does nothing but return/raise and call again (one atomic step up to the lock of _reset_run_tracking); uuid4 call ids are pairwise distinct (modelled by a counter); the backend keeps calling back for batches of earlier calls from threads it does not join (worst case); termination of sequences is checked, not proved",
    "M1L (lean/JoblibModel/ParallelLock.lean, theorems M1L.*): a second, small-step, multi-threaded model of the same protocol; one atomic step = the code of one thread between two scheduling points (outermost acquire/release of Parallel._lock, a backend call, time.sleep, an unlocked access to _aborting/_exception/_iterating/_original_iterator/n_dispatched_tasks/n_completed_tasks/_jobs/tracker status), any number of callback threads, every interleaving; scope: one call on a fresh object, ordered modes, no timeout; tied to the code by step-log equality of forced real-thread schedules (instrumented lock, controllable backend, descriptor-instrumented shared attributes, no line numbers); assumed: threading.RLock mutual exclusion, atomicity of a single attribute load/store under the GIL; accesses to attributes outside the list and the input iterator's __next__ are atomic with their segment; termination under the drain schedule (completions, then callbacks, then the caller) is PROVED from every reachable state with an explicit bound (quiescent_termination*, measure 1300*W+100*P+100*L+R); termination under other fair schedules is not stated",
    "M1 granularity: completion callbacks are atomic and happen at hook points of the caller (configure, compute_batch_size, sleep, consumer "
    "pauses, inside backend.abort_everything, between two calls and after the last one); interleavings inside a callback or between two bytecodes of the caller are not in the model",
    "oracle-only (not in the Lean model M1, judged by the sequential-loop oracle and the wait-predicate probe): completion callbacks "
    "delivered INSIDE backend.submit (the batch's own callback, or earlier batches', re-entrantly under Parallel._lock, from the "
    "caller's and from a callback's dispatch); batch sizes computed by the real AutoBatchingMixin attached to the real Parallel "
    "object over several calls (these sizes ARE compared with the Lean model of the mixin, JoblibModel/AutoBatch.lean)",
    "modelled, not verified: the backend contract (each submitted batch executed at most once, its callback invoked at most once), "
    "threading.RLock, itertools.islice, queue.Queue, collections.deque, pickling of batches to worker processes",
]
FOCUSES = (None,)


def run(ctx):
    return m1.run_prop(ctx, "C01", FOCUSES)


def search(ctx, res):
    return m1.search_prop(ctx, "C01", res, FOCUSES)
