"""C01 — see DESIGN.md section 6/C01. Model M1 (lean/JoblibModel/ParallelProto.lean), theorems lean/JoblibProofs/C01.lean,
deterministic scenarios through harness/ctl.py, oracles in harness/m1.py."""

from .. import m1

REQUIRED_THEOREMS = [
    "C01.cfgOK_of",
    "C01.invariant_established",
    "C01.invariant_preserved",
    "C01.stale_callback_noop",
    "C01.dispatch_conservation",
    "C01.exactly_once",
    "C01.exactly_once_at_exit",
    "C01.return_correct",
    "C01.return_correct_unordered",
    "C01.no_hang",
    "C01.waiting_means_parked",
    "C01.initial_idle",
    "C01.pre_dispatch_zero_counterexample",
    "C01.auto_batch_size_ge_one",
    "C01.sequential_return_correct",
    "C01.sequential_exactly_once",
    "C01.sequential_leaves_idle",
]
TRUSTED_EXTRA = [
    "M1 granularity: completion callbacks are atomic and happen at hook points of the caller (configure, compute_batch_size, sleep, consumer "
    "pauses, inside backend.abort_everything, between two calls and after the last one); interleavings inside a callback or between two bytecodes of the caller are not in the model",
    "modelled, not verified: the backend contract (each submitted batch executed at most once, its callback invoked at most once), "
    "threading.RLock, itertools.islice, queue.Queue, collections.deque, pickling of batches to worker processes",
]
FOCUSES = (None,)


def run(ctx):
    return m1.run_prop(ctx, "C01", FOCUSES)


def search(ctx, res):
    return m1.search_prop(ctx, "C01", res, FOCUSES)
