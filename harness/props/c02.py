"""C02 — a Memory-cached function never returns a value belonging to other arguments.

Model: lean/JoblibModel/MemoryCache.lean (composition of FilterArgs and HashStream); theorems: lean/JoblibProofs/C02.lean;
driver: lean/Driver/C02.lean (= JoblibModel/MemoryDriver.lean). Shared machinery: harness/memcache.py (also used by C06).

* correspondence, per step of every history: outcome class, executed?, the returned value, the key-equality class of the
  call (real args id ↔ model stream), and md5(model stream) == real args id;
* oracle (no model): every value returned by the cached callable / a shelved `.get()` equals what the plain callable
  returns for the same arguments (type-aware comparison: 1, 1.0 and True are different values).
  ALIASING between what the cache hands out and what it keeps (seeded change seed5-C02-m2: `MemorizedResult.get()` keeping the
  loaded object): + 5 % histories (`cons…`) in which the CONSUMER works IN PLACE (append / sort / pop / clear / reverse, on the
  returned dict and on every mutable value inside, never on an object the plain callable itself shares between calls) on the value
  handed out by `__call__` (miss and hit), `call`, `call_and_shelve().get()`, a kept reference's `get()` and the `get()` of a
  reference that went through pickle — then the same request comes again (references are dereferenced repeatedly, also after the
  entry was cleared / recomputed): every hand-out must still equal the plain function's result on fresh arguments. Signature
  `handed-out-value-aliased:<call|get|shelveget|force>`. The model's values have no identity, so "hand-outs do not alias" is true
  of it by construction (C02.lean says so); what it contributes is what each hand-out must EQUAL (`get_reads_only`,
  `get_repeatable`, `served_value_is_the_stored_one`) — the independence of the real objects is the correspondence's and the
  oracle's business. Two corpus histories (compress off / on).
"""

from .. import core, memcache
from ..core import Result  # noqa: F401

REQUIRED_THEOREMS = [
    "C02.key_sound_partial",
    "C02.key_sound_nonfunction_partial",
    "C02.cached_call_correct_partial",
    "C02.cached_call_correct_from_partial",
    "C02.shared_entry_same_args_partial",
    "C02.stored_under_own_id",
    "C02.fallback_collision_counterexample",
    "C02.shared_function_id_stale_reference_counterexample",
    # functions that mutate their arguments in place
    "C02.effect_on_arguments_irrelevant",
    "C02.cached_call_correct_mutating_partial",
    "C02.key_after_call_wrong_value_counterexample",
    # values handed out vs values kept (a reference dereferenced repeatedly; a hit)
    "C02.get_reads_only",
    "C02.get_repeatable",
    "C02.served_value_is_the_stored_one",
]
TRUSTED_EXTRA = [
    "modelled, not verified: md5 (the digest is the parameter H; the theorems assume no collision among the finitely many keys of the "
    "history; the harness checks md5(model stream) == the real args id on every call)",
    "modelled, not verified: pickle round trip of cached values (C03), the file-system store as a finite map (C05/C11 own its crash and "
    "concurrency behaviour), Python's binding (validated by C07), the validation callback's answer and the set evicted by reduce_size "
    "(inputs of the model; the latter is C18's model)",
    "bound methods: the instance is hashed through pickle's class-instance reduction, modelled as an injective stand-in (its state); "
    "for them only the key-equality classes are compared, not the stream",
    "async def functions are driven with asyncio.run; AsyncMemorizedFunc differs from MemorizedFunc only by awaiting the result",
]


def run(ctx):
    from .. import poison_probe
    if ctx.replay and (ctx.replay.get("case") or {}).get("kind") == "poison-probe":
        res = core.Result()
        res.rule = "replay: the unpicklable-component probe is re-run"
        poison_probe.run_memory(res, core.use_repo())
        return res
    if ctx.replay:
        return replay(ctx, "C02")
    res = memcache.explore(ctx, "C02", 12000 if ctx.thorough else 1000, "main")
    poison_probe.run_memory(res, core.use_repo())
    poison_probe.run_twins(res, core.use_repo())
    return res


def replay(ctx, want):
    joblib = core.use_repo()
    res = core.Result()
    res.rule = memcache.RULE
    case = (ctx.replay.get("case") or {}).get("case")
    if not case:
        raise core.InfraError("replay file has no history")
    memcache.run_one(case, ctx.scratch / "replay", ctx.prop, joblib, ctx.driver(), res, want)
    return res


def search(ctx, res):
    return memcache.explore(ctx, "C02", 4000, "search", with_corpus=False)
