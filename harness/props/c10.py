"""C10 — a dying loky worker yields a prompt error, never a hang, and workers heal.   (PARTIAL by design)

Model: lean/JoblibModel/LokyMgr.lean; theorems: lean/JoblibProofs/C10.lean; driver: lean/Driver/C10.lean.

Implementation side: fault injection on the REAL loky backend through `joblib.Parallel(n_jobs=2..3, backend='loky')`,
each scenario in its own SUBPROCESS (own session, hard watchdog far above normal latency; a scenario that does not
finish is killed — process group — and classified `hang`).  A scenario (harness/c10rt/c10_scenario.py) is a sequence of
Parallel calls, inside one `with Parallel(...)` block or not, with
  * in-task faults placed WITHOUT source changes by the pickle / finaliser hooks of harness objects
    (harness/c10rt/c10_faults.py): argument unpickling, task start, mid-task, result pickling, after the result was
    sent, [thorough] while the result is being sent (watcher thread) / by timer on a 600 MB result (the F15 probe);
  * kills of idle workers between calls (with or without letting the manager thread notice first);
  * kills from the call's input generator ("during the next call's start-up"), also with the death DETECTED while the caller is
    still dispatching (futures pending, more submits to come);
  * way of dying: SIGKILL, SIGTERM, SIGSEGV, SIGABRT, SIGBUS, SIGUSR1, SIGHUP, the real-time signals SIGRTMIN, SIGRTMIN+1,
    SIGRTMAX-1 (the +k/-k ones have no name in signal.Signals), os._exit(3/0/1/255); victims 1..n_jobs;
    `sys.exit()` inside the worker (NOT a death: BrokenProcessPool when raised while unpickling, the task's own
    SystemExit otherwise);
  * placement of the CALLER thread against the MANAGER thread (both live in the scenario process; method wrappers
    installed there only, no source change): after an idle worker's death the manager thread is held at one step of its
    death handling (wait..., terminate_broken, flag_as_broken, kill_workers, join_executor_internals, enter/exit) while
    the next call runs its start-up up to configure / the first submit / all submits, then released (bounded hold);
  * a call on an executor whose workers have all LEFT by idle time-out (short `idle_worker_timeout`, the public backend
    parameter): the next call respawns them during its `submit`; a one-batch call whose worker dies must still fail promptly
    (F53: before the repair the error came only when ANOTHER worker's idle time-out woke the manager thread);
  * the manager thread's health: an exception escaping a thread of the scenario process is reported
    (threading.excepthook); from the executor manager thread it is a failure class of its own;
  * `_get_exitcode_name` (run by the manager thread while it builds the error message) against the model's
    `getExitcodeName`, exhaustively over the exit codes -64..255.
Observed per call: outcome class (ok / exception class name), latency, results complete+correct, id of the executor
that served it (healed?), all canonicalised to a trace `ok@0 TerminatedWorkerError@0 ok@1 …`.

  (a) correspondence: the model driver explores EVERY interleaving of manager iterations and worker runs for the same
      fault schedule and answers the SET of possible traces; the observed trace must be a member        -> res.diverge
  (b) oracle (no model): every call returns exactly the correct results or raises a worker-termination error
      (TerminatedWorkerError / BrokenProcessPool) within LAT_BOUND; at most one call fails per fault; a failed call is
      followed by a correct one                                                                           -> res.fail
"""

import concurrent.futures as cf
import ctypes
import itertools
import json
import os
import signal
import subprocess
import threading
import time
from pathlib import Path

from .. import core
from ..core import Result

REQUIRED_THEOREMS = [
    "C10.death_wakes_manager",
    "C10.death_stays_visible",
    "C10.dead_worker_unblocks_manager_partial",
    "C10.broken_resolves_all_partial",
    "C10.terminate_broken_resolves_all",
    "C10.no_wrong_results",
    "C10.manager_never_crashes",
    "C10.heal",
    "C10.heal_for_every_history",
    "C10.fault_charged_to_pending_only",
    "C10.idle_death_costs_nothing_partial",
    "C10.idle_death_in_with_block_costs_one_call",
    "C10.idle_death_unobserved_is_reused_counterexample",
    "C10.f15_hazard_reachable",
    "C10.f15_hazard_blocks_forever",
    "C10.submit_after_flag_raises",
    "C10.no_orphan_future",
    "C10.flag_after_clear_orphans_counterexample",
    "C10.exitcode_message_never_raises",
    # fine-grained layer: wait set, wake-up pipe, shutdown lock (sections 8-10)
    "C10.wait_set_covers_live_workers",
    "C10.death_wakes_manager_wait_set",
    "C10.manager_first_hang_is_permanent",
    "C10.wait_set_covers_live_workers_partial",
    "C10.death_wakes_manager_wait_set_partial",
    "C10.death_wakes_manager_single_batch_partial",
    "C10.full_wait_set_is_manager_step",
    "C10.manager_first_counterexample",
    "C10.respawn_after_clean_exit_counterexample",
    "C10.wakeup_never_writes_to_closed_pipe",
    "C10.close_waits_for_the_writer",
    "C10.close_unlocked_counterexample",
    "C10.death_error_is_worker_termination",
    "C10.abort_raises_only_worker_termination",
]
TRUSTED_EXTRA = [
    "PARTIAL BY DESIGN (DESIGN C10): process death, pipes, sentinels, signals, process start-up are MODELLED, NOT VERIFIED: "
    "the theorems are about the manager thread's event loop and the reusable-executor decision as transcribed in "
    "JoblibModel/LokyMgr.lean; they say nothing about what the OS does. Assumed of the OS: a dead process's sentinel is and "
    "stays readable; the result pipe never reports EOF (parent and all workers hold the write end); a message is complete or "
    "partial (no byte-level model); writers serialise on _wlock; SIGKILL/SIGTERM/SIGSEGV/os._exit all mean 'dead'.",
    "hypothesis of every *_partial liveness theorem: no worker dies between the first and the last byte of its result message "
    "(NoTornMessage). Without it the property is FALSE of model and code (F15): C10.f15_hazard_reachable / f15_hazard_blocks_forever.",
    "the driver's exploration (Driver/C10.lean) is trusted: it composes the model's own events (take / sendResult / beginSend / kill / "
    "managerStep / getReusableExecutor / abortEverything) into joblib's call sequence, submits a call's tasks up front, identifies "
    "states up to renaming of worker pids (workers are interchangeable) and forgets executors whose manager has returned",
    "the manager/caller placement scenarios wrap methods of _ExecutorManagerThread, _ExecutorFlags, LokyBackend.configure and "
    "_ReusablePoolExecutor.submit INSIDE THE SCENARIO SUBPROCESS (pure delays / hand-offs around the original methods, bounded "
    "hold of 1.2 s); C10.no_orphan_future is about the ORDER flag_as_broken -> fail-and-clear of terminate_broken (model: "
    "terminateBrokenInterleaved); the model's managerStep still runs terminate_broken as one step",
    "signal.Signals (which signal numbers have a name) is an input of getExitcodeName, read from the running interpreter",
    "fine-grained layer (WState/wstep: wait set rebuilt at the entry of wait, wake-up pipe = counter + _closed, _shutdown_lock, submit / "
    "shutdown statement by statement): the granularity is the model's choice (one statement = one step; _adjust_process_count spawns one "
    "process per step; the manager's iteration after wait() returns is one step; the manager takes _shutdown_lock inside one step); "
    "_python_exit, the weakref callback and _on_queue_feeder_error (the other callers of wakeup()) are not modelled; tied to the code by "
    "OUTCOME of one call on a fresh executor, or on one whose workers have all left by idle time-out (the model's start state for it: one "
    "task served, then every worker announced its exit and was reaped), (request `fine`; the variant Cfg.wakeupBeforeRespawn is chosen "
    "by a behavioural probe of the tree under test, harness/c10rt/c10_probe.py; a worker-termination error that arrives only after "
    "idle_worker_timeout is read as the model's `hang`: the exploration has no idle time-out event; full interleaving of caller statements / manager statements / workers for calls "
    "of <= 4 tasks; for larger calls the workers move only once every task is submitted, the coarse explorer's assumption) and by "
    "the `wakeup-write-held` hook events (close() entered while the caller stands between the _closed test and the write: excluded by "
    "C10.close_waits_for_the_writer)",
    "F53: wait_set_covers_live_workers / death_wakes_manager_wait_set are about the REPAIRED order of submit (wake-up after "
    "_ensure_executor_running, fixes/F53-wakeup-after-respawn.diff). For the order before the repair (Cfg.preF53) only the *_partial "
    "theorems hold (hypothesis: no worker leaves cleanly in the history) and C10.respawn_after_clean_exit_counterexample is the witness; "
    "the oracle reports it as hang-or-late-error:worker-death-after-idle-respawn (family respawn:after-idle-timeout)",
    "the fault-injection runs tie the model to the code by OUTCOME CLASS only (exception class, executor id sequence, hang), "
    "not by event trace; racy schedules (a kill not followed by a pause) are checked by membership in the model's outcome set",
    "not modelled: Future.cancel, _on_queue_feeder_error (unpicklable task), interpreter shutdown and executor garbage collection, "
    "worker idle time-outs as a clock and memory-leak restarts (event announceExit stands for both), the busy-wait loops of "
    "_ReusablePoolExecutor._resize (a worker dying inside them is outside the model), nested parallelism (kill_process_tree), Windows",
]

PY = core.PY
RT = core.VERIF / "harness" / "c10rt"
KNOWN_SIG = "hang:worker-killed-while-sending-result"
RESPAWN_SIG = "hang-or-late-error:worker-death-after-idle-respawn"  # F53
RESPAWN_IDLE_TIMEOUT = 6.0  # s: idle_worker_timeout of the scenarios whose workers must leave by idle time-out
LAT_BOUND = 15.0  # s per call; fault-free calls take 0.02–0.7 s here, error paths 0.3–0.9 s
TERMINATION_ERRORS = ("TerminatedWorkerError", "BrokenProcessPool")

# ways of dying, from inside the worker (os.kill(os.getpid(), n) / os._exit(code)) ...
HOWS_TASK = ["SIGKILL", "SIGTERM", "SIGSEGV", "SIGABRT", "SIGBUS", "SIGUSR1", "SIGHUP",
             "SIGRTMIN", "SIGRTMIN+1", "SIGRTMAX-1",  # the +k / -k real-time signals have no name in signal.Signals
             "exit", "exit0", "exit1", "exit255"]
# ... and from the parent (os.kill(worker_pid, n))
HOWS_EXT = ["SIGKILL", "SIGTERM", "SIGSEGV", "SIGABRT", "SIGBUS", "SIGUSR1", "SIGHUP", "SIGRTMIN", "SIGRTMIN+1", "SIGRTMAX-1"]
INSTANTS = ["arg-unpickle", "task-start", "mid-task", "result-pickle", "after-send"]
CLASS_OF = {
    "arg-unpickle": ["nobytes"],
    "task-start": ["nobytes"],
    "mid-task": ["nobytes"],
    "result-pickle": ["nobytes"],
    "after-send": ["aftersend"],
    # the harness cannot choose on which side of the first / last byte the kill lands
    "mid-send": ["midsend", "nobytes", "aftersend"],
    "timer": ["midsend", "nobytes", "aftersend"],
}
# `sys.exit(7)` is not a death: a SystemExit raised where the hook stands
SYSEXIT_CLASS_OF = {"arg-unpickle": ["unpicklefail"], "task-start": ["taskexc"], "mid-task": ["taskexc"],
                    "result-pickle": ["taskexc"]}


def classes_of(fault):
    if fault.get("how") == "sysexit":
        return SYSEXIT_CLASS_OF[fault["instant"]]
    return CLASS_OF[fault["instant"]]


# manager-thread steps at which the thread can be held while the caller thread runs the next call's start-up
MGR_POINTS_EARLY = ["wait_result_broken_or_wakeup:exit", "terminate_broken:enter", "flag_as_broken:enter"]
MGR_POINTS_LATE = ["flag_as_broken:exit", "kill_workers:enter", "kill_workers:exit", "join_executor_internals:enter",
                   "join_executor_internals:exit", "terminate_broken:exit"]
MGR_POINTS_INCALL = ["process_result_item:enter", "process_result_item:exit", "add_call_item_to_queue:enter",
                     "add_call_item_to_queue:exit", "wait_result_broken_or_wakeup:enter"]
CALLER_POINTS = ["configured", "submit1", "submitted-all"]

# ----------------------------------------------------------------------------------------- process hygiene


def _become_subreaper():
    """Orphans of a killed scenario are re-parented to this process (so they can be reaped, not left as zombies)."""
    try:
        ctypes.CDLL(None, use_errno=True).prctl(36, 1, 0, 0, 0)  # PR_SET_CHILD_SUBREAPER
    except Exception:  # noqa: BLE001
        pass


def _procs():
    """pid -> (ppid, pgrp, state, cmdline)"""
    out = {}
    for d in os.listdir("/proc"):
        if not d.isdigit():
            continue
        try:
            st = Path(f"/proc/{d}/stat").read_text()
            rest = st[st.rindex(")") + 2:].split()
            cmd = Path(f"/proc/{d}/cmdline").read_bytes().replace(b"\0", b" ").decode("utf8", "replace")
            out[int(d)] = (int(rest[1]), int(rest[2]), rest[0], cmd)
        except (OSError, ValueError, IndexError):
            continue
    return out


def _reap_group(pgid):
    """Kill everything of the scenario's process group; let loky's resource tracker clean up first."""
    me = os.getpid()
    members = {p: v for p, v in _procs().items() if v[1] == pgid}
    trackers = {p for p, v in members.items() if "resource_tracker" in v[3]}
    for p in members:
        if p not in trackers:
            try:
                os.kill(p, signal.SIGKILL)
            except ProcessLookupError:
                pass
    t0 = time.time()
    while time.time() - t0 < 3.0:
        alive = {p for p, v in _procs().items() if v[1] == pgid and v[2] != "Z"}
        if not alive:
            break
        time.sleep(0.05)
    try:
        os.killpg(pgid, signal.SIGKILL)
    except (ProcessLookupError, PermissionError):
        pass
    t0 = time.time()
    while time.time() - t0 < 2.0:  # reap the orphans re-parented to this process (sub-reaper)
        mine = [p for p, v in _procs().items() if v[1] == pgid and v[0] == me and p != pgid]
        if not mine:
            break
        for p in mine:
            try:
                os.waitpid(p, os.WNOHANG)
            except ChildProcessError:
                pass
        time.sleep(0.02)


def _sweep_shm(main_pids):
    for name in os.listdir("/dev/shm"):
        for mp in main_pids:
            if name.startswith(f"sem.loky-{mp}-") or name.startswith(f"joblib_memmapping_folder_{mp}_"):
                p = Path("/dev/shm") / name
                try:
                    if p.is_dir():
                        import shutil

                        shutil.rmtree(p, ignore_errors=True)
                    else:
                        p.unlink()
                except OSError:
                    pass


# ----------------------------------------------------------------------------------------- running one scenario


def run_scenario(sc, scratch: Path, timeout: float):
    """Returns dict(events=[...], hang=bool, main_pid=int|None, wall=float)."""
    tmp = scratch / f"jl-{sc['id']}"
    tmp.mkdir(parents=True, exist_ok=True)
    env = dict(os.environ)
    env["PYTHONPATH"] = str(RT) + os.pathsep + str(core.REPO)
    env["JOBLIB_TEMP_FOLDER"] = str(tmp)
    env.pop("PYTHONFAULTHANDLER", None)
    payload = {k: sc[k] for k in ("n_jobs", "managed", "calls", "hooks", "idle_timeout") if k in sc}
    t0 = time.time()
    with open(tmp / "stderr.log", "wb") as err:
        p = subprocess.Popen([PY, "-B", str(RT / "c10_scenario.py"), json.dumps(payload)], env=env, stdout=subprocess.PIPE,
                             stderr=err, start_new_session=True, cwd=str(tmp))
        hang = False
        try:
            out, _ = p.communicate(timeout=timeout)
        except subprocess.TimeoutExpired:
            hang = True
            _reap_group(p.pid)
            out, _ = p.communicate()
        finally:
            _reap_group(p.pid)
    events = []
    for ln in out.decode("utf8", "replace").splitlines():
        if ln.startswith("{"):
            try:
                events.append(json.loads(ln))
            except ValueError:
                pass
    main_pid = next((e["pid"] for e in events if e.get("ev") == "start"), None)
    started_ok = any(e.get("ev") == "start" and Path(e["joblib"]).resolve().parent == core.REPO for e in events)
    done = any(e.get("ev") == "done" for e in events)
    return dict(events=events, hang=hang, main_pid=main_pid, wall=time.time() - t0, started_ok=started_ok, done=done,
                rc=p.returncode, stderr_tail=(tmp / "stderr.log").read_bytes()[-1500:].decode("utf8", "replace"))


# ----------------------------------------------------------------------------------------- scenario generation


def _clean_call(rng, lo=2, hi=5, ooo=False):
    c = dict(n_tasks=rng.randint(lo, hi), batch_size=1)
    if ooo:  # completion order differs from submission order
        c["faults"] = {"0": {"work": 0.25}}
        c["n_tasks"] = max(c["n_tasks"], 3)
    return c


def _fault_call(rng, n_jobs, inst, how, k=None, last=False):
    n_tasks = rng.randint(max(3, n_jobs + 1), 7)
    k = k if k is not None else (1 if rng.random() < 0.6 else rng.randint(1, n_jobs))
    if last:
        pos = [n_tasks - 1]
        f = {str(n_tasks - 1): dict(instant=inst, how=how, work=0.35)}
    else:
        pos = sorted(rng.sample(range(n_tasks), k))
        f = {str(t): dict(instant=inst, how=how) for t in pos}
        if inst == "mid-task":
            for t in pos:
                f[str(t)]["delay"] = rng.choice([0.02, 0.1])
    c = dict(n_tasks=n_tasks, faults=f, batch_size=1)
    if rng.random() < 0.3:
        c["pre_dispatch"] = "all"
    return c


def gen_scenarios(rng, thorough):
    scs = []

    def add(family, n_jobs, managed, calls, **kw):
        scs.append(dict(id=len(scs), family=family, n_jobs=n_jobs, managed=managed, calls=calls, **kw))

    reps = 8 if thorough else 2
    for _ in range(reps):
        # A. every way of dying at a random instant, every instant with a random way of dying
        #    (thorough: the full instant x way matrix)
        pairs = ([(rng.choice(INSTANTS), how) for how in HOWS_TASK] + [(inst, rng.choice(HOWS_TASK)) for inst in INSTANTS]
                 if not thorough else list(itertools.product(INSTANTS, HOWS_TASK)))
        for inst, how in pairs:
            n_jobs = rng.choice([2, 3])
            add("task:" + inst, n_jobs, rng.random() < 0.5,
                [_fault_call(rng, n_jobs, inst, how), _clean_call(rng, ooo=rng.random() < 0.3)] +
                ([_clean_call(rng)] if rng.random() < 0.5 else []))
        # A". a call that dispatches exactly ONE batch, on an executor that spawns its workers during that very submit (the
        #     first call of the process, and the call right after a fault): the manager thread gets a single wake-up
        for inst in ("task-start", "mid-task", "arg-unpickle"):
            n_jobs = rng.choice([2, 3])

            def one(inst=inst):
                f = dict(instant=inst, how=rng.choice(HOWS_TASK))
                if inst == "mid-task":
                    f["delay"] = rng.choice([0.02, 0.1])
                return dict(n_tasks=1, faults={"0": f}, batch_size=1)
            add("task:single-batch", n_jobs, rng.random() < 0.5, [one(), one(), _clean_call(rng)])
        # R. the caller's abort (executor.shutdown -> wakeup of the manager thread) against the manager thread closing the
        #    wake-up pipe at the end of its tear-down: the caller's write is held until close() of that pipe is entered
        for managed in (False, True):
            n_jobs = rng.choice([2, 3])
            add("race:wakeup-vs-close", n_jobs, managed,
                [_fault_call(rng, n_jobs, rng.choice(["mid-task", "task-start"]), rng.choice(["SIGKILL", "SIGTERM", "exit"])),
                 _clean_call(rng), _clean_call(rng)], hooks="wakeup-close")
        # R'. F53: every worker of the executor has left by idle time-out; the next call (ONE batch) respawns them during its
        #     submit and the worker that takes the task dies
        for managed in (False, True):
            n_jobs = rng.choice([2, 3])
            inst = rng.choice(["task-start", "mid-task"])
            f = dict(instant=inst, how=rng.choice(HOWS_TASK))
            if inst == "mid-task":
                f["delay"] = rng.choice([0.02, 0.1])
            c1 = dict(n_tasks=1, faults={"0": f}, batch_size=1, pre=dict(kind="idle-timeout", max_wait=RESPAWN_IDLE_TIMEOUT + 6.0))
            add("respawn:after-idle-timeout", n_jobs, managed, [_clean_call(rng, lo=2, hi=3), c1, _clean_call(rng)],
                idle_timeout=RESPAWN_IDLE_TIMEOUT)
        # A'. sys.exit() inside the worker: not a death (SystemExit where the hook stands)
        for inst in SYSEXIT_CLASS_OF:
            n_jobs = rng.choice([2, 3])
            add("sysexit:" + inst, n_jobs, rng.random() < 0.5,
                [_fault_call(rng, n_jobs, inst, "sysexit", k=1), _clean_call(rng), _clean_call(rng)])
        # B. faults in consecutive calls
        for _i in range(4):
            n_jobs = rng.choice([2, 3])
            i1, i2 = rng.choice(INSTANTS[:4]), rng.choice(INSTANTS[:4])
            add("consecutive", n_jobs, rng.random() < 0.5,
                [_fault_call(rng, n_jobs, i1, rng.choice(HOWS_TASK)), _fault_call(rng, n_jobs, i2, rng.choice(HOWS_TASK)),
                 _clean_call(rng)])
        # C. the victim's result is the last one of the call: the call itself succeeds
        for managed in (False, True):
            n_jobs = rng.choice([2, 3])
            add("task:after-send-last", n_jobs, managed,
                [_fault_call(rng, n_jobs, "after-send", rng.choice(HOWS_TASK), last=True), _clean_call(rng), _clean_call(rng)])
        # D. idle workers killed between calls
        for managed, settle in itertools.product((False, True), (0, 0.5)):
            for _j in range(2):
                n_jobs = rng.choice([2, 3])
                k = rng.randint(1, n_jobs)
                c1 = _clean_call(rng)
                c1["pre"] = dict(kind="idle", victims=k, how=rng.choice(HOWS_EXT), settle=settle)
                add("idle:" + ("observed" if settle else "race"), n_jobs, managed,
                    [_clean_call(rng, ooo=rng.random() < 0.3), c1, _clean_call(rng), _clean_call(rng)])
        # E. kill during the next call's start-up (from its input generator)
        for managed, settle in itertools.product((False, True), (0, 0.3)):
            n_jobs = rng.choice([2, 3])
            c1 = _clean_call(rng, lo=4, hi=6)
            at = rng.choice([0, 0, 1, n_jobs, c1["n_tasks"] - 1])
            c1["startup"] = dict(at_item=at, victims=rng.randint(1, n_jobs), how=rng.choice(HOWS_EXT), settle=settle)
            add("startup:" + ("observed" if settle else "race"), n_jobs, managed,
                [_clean_call(rng), c1, _clean_call(rng), _clean_call(rng)])
        # E'. a worker killed while it is starting (first call, fresh executor, right after the first submit)
        n_jobs = rng.choice([2, 3])
        c0 = _clean_call(rng, lo=n_jobs + 1, hi=n_jobs + 3)
        c0["startup"] = dict(at_item=n_jobs, victims=rng.randint(1, n_jobs), how=rng.choice(HOWS_EXT), settle=0)
        add("startup:worker-booting", n_jobs, rng.random() < 0.5, [c0, _clean_call(rng), _clean_call(rng)])
        # F. fault-free, completions out of submission order
        for managed in (False, True):
            add("baseline", rng.choice([2, 3]), managed, [_clean_call(rng, lo=4, hi=7, ooo=True), _clean_call(rng, ooo=True)])
        # E". the death is DETECTED (manager thread given time) while the caller is still dispatching: n_jobs futures pending,
        #     more submits to come, the input generator (consumed under Parallel's lock) pauses after the kill
        for managed in (False, True):
            n_jobs = rng.choice([2, 3])
            c1 = _clean_call(rng, lo=2 * n_jobs, hi=2 * n_jobs + 2)
            c1["startup"] = dict(at_item=n_jobs, victims=1, how=rng.choice(HOWS_EXT), settle=0.5)
            if rng.random() < 0.5:
                c1["pre_dispatch"] = "all"
            add("startup:while-dispatching", n_jobs, managed, [_clean_call(rng), c1, _clean_call(rng)])
        # A"'. a worker dying with exit status 0 while it holds a task (a death, not a graceful exit)
        n_jobs = rng.choice([2, 3])
        add("task:exit0-in-flight", n_jobs, rng.random() < 0.5,
            [_fault_call(rng, n_jobs, rng.choice(["task-start", "mid-task", "result-pickle"]), "exit0", k=1), _clean_call(rng)])
    # S. placement of the caller thread against the manager thread: an idle worker dies, the manager thread is held at one
    #    step of its death handling while the NEXT call starts (configure / first submit / all submits), then goes on.
    #    Early points (flag not yet set by the code as it is): every caller point; late points: the caller ends up
    #    waiting for the manager whatever its point, one is enough.   (x with / without a `with` block)
    placements = [(m, c) for m in MGR_POINTS_EARLY for c in CALLER_POINTS]
    placements += [(m, rng.choice(CALLER_POINTS)) for m in MGR_POINTS_LATE] if not thorough else \
                  [(m, c) for m in MGR_POINTS_LATE for c in CALLER_POINTS]
    for _rep in range(3 if thorough else 1):
        for (mp, cp), managed in itertools.product(placements, (False, True)):
            n_jobs = rng.choice([2, 3])
            c1 = dict(n_tasks=rng.randint(2, 2 * n_jobs), batch_size=1)
            c1["pre"] = dict(kind="idle", victims=rng.randint(1, n_jobs), how=rng.choice(HOWS_EXT), settle=0,
                             sync=dict(mgr=mp, caller=cp))
            add("sync:idle", n_jobs, managed, [_clean_call(rng), c1, _clean_call(rng)])
        # the same against a kill issued from the call's own input generator, tasks already in flight
        for mp in MGR_POINTS_INCALL + MGR_POINTS_EARLY[1:]:
            n_jobs = rng.choice([2, 3])
            c1 = dict(n_tasks=2 * n_jobs, batch_size=1)
            c1["startup"] = dict(at_item=n_jobs, victims=1, how=rng.choice(HOWS_EXT), settle=0,
                                 sync=dict(mgr=mp, caller=rng.choice(["submit1", "submitted-all"])))
            add("sync:startup", n_jobs, rng.random() < 0.5, [_clean_call(rng), c1, _clean_call(rng)])
    if thorough:
        # G. F15: the worker dies while its result message is being written
        for mb, how, managed in itertools.product((0.05, 0.2, 1, 8, 32), ("SIGKILL", "SIGTERM", "exit"), (False, True)):
            n_jobs = rng.choice([2, 3])
            c0 = dict(n_tasks=3, batch_size=1, faults={str(rng.randint(0, 2)): dict(instant="mid-send", how=how, payload_mb=mb)})
            add("task:mid-send", n_jobs, managed, [c0, _clean_call(rng)], timeout=20)
        # H. the design probe itself: 600 MB result, SIGKILL 1.3 s into the task
        add("task:timer-600MB", 2, False,
            [dict(n_tasks=4, faults={"0": dict(instant="timer", how="SIGKILL", delay=1.3, payload_mb=600)}), _clean_call(rng)],
            timeout=120)
    return scs


# ----------------------------------------------------------------------------------------- model side


def model_requests(sc, qs):
    """Driver request lines whose answers' UNION is the model's prediction for the scenario."""
    per_call_alternatives = []
    for c in sc["calls"]:
        faults = [(int(t), f) for t, f in sorted((c.get("faults") or {}).items(), key=lambda kv: int(kv[0]))
                  if f.get("instant")]
        pre, st = c.get("pre"), c.get("startup")
        if pre and pre.get("kind") != "idle":
            pre = None  # an idle time-out is not a kill; the coarse model has no worker leaving cleanly
        head = ["c", str(c["n_tasks"]),
                str(pre["victims"] if pre else 0), "1" if pre and pre.get("settle", 0) >= 0.3 else "0",
                # Parallel pulls its input n_jobs * batch_size items at a time (dispatch_one_batch); the scenarios use
                # batch_size=1, so when item j is pulled exactly the items below (j // n_jobs) * n_jobs are submitted
                str((st["at_item"] // sc["n_jobs"]) * sc["n_jobs"]) if st else "-", str(st["victims"] if st else 0),
                "1" if st and st.get("settle", 0) >= 0.25 else "0", str(len(faults))]
        alts = []
        for combo in itertools.product(*[classes_of(f) for _, f in faults]):
            alts.append(head + [x for (t, _), k in zip(faults, combo) for x in (str(t), k)])
        per_call_alternatives.append(alts)
    lines = []
    for combo in itertools.product(*per_call_alternatives):
        toks = ["scn", str(sc["n_jobs"]), str(qs), "1" if sc["managed"] else "0", str(len(sc["calls"]))]
        for call in combo:
            toks += call
        lines.append(" ".join(toks))
    return lines


def parse_outs(reply):
    if not reply.startswith("outs"):
        raise core.InfraError(f"driver reply {reply!r}")
    body = reply[4:].strip()
    return {tuple(t.split()) for t in body.split(" | ")} if body else {()}


# ----------------------------------------------------------------------------------------- observation -> trace, oracle


def impl_trace(sc, r):
    calls = [e for e in r["events"] if e.get("ev") == "call"]
    toks = []
    for e in calls:
        eid = e["exec_before"] if sc["managed"] else e["exec_after"]
        if e["outcome"] == "ok":
            cls = "ok" if e.get("results_correct") else "wrong"
        else:
            cls = e["outcome"][4:]
            if cls == "SystemExit" and _raises_sysexit(sc["calls"][e["call"]]):
                cls = "TaskError"  # the task's own exception (the model's name for it)
        toks.append(f"{cls}@{eid}")
    if not r["done"]:
        if any(e.get("ev") == "abort" for e in r["events"]):
            toks.append("manager-thread-died")
        else:
            toks.append("hang" if r["hang"] else "died")
    return tuple(toks)


def _raises_sysexit(c):
    """The call holds a task in which `sys.exit()` is raised as the TASK's exception (task body / result pickling)."""
    return any(f.get("how") == "sysexit" and f.get("instant") in ("task-start", "mid-task", "result-pickle")
               for f in (c.get("faults") or {}).values())


def _family_of_group(c):
    if c.get("faults"):
        insts = sorted({f["instant"] for f in c["faults"].values() if f.get("instant")})
        if insts:
            return "+".join(insts)
    if c.get("startup"):
        return "startup"
    if c.get("pre"):
        return "idle"
    return None


def oracle(sc, r):
    """Judges the run without the model. Returns a list of (signature, detail)."""
    bad = []
    ev = r["events"]
    calls = {e["call"]: e for e in ev if e.get("ev") == "call"}
    killed = {}  # call index -> workers really killed from the parent before / during that call
    for e in ev:
        if e.get("ev") in ("idle-kill", "startup-kill"):
            killed[e["call"]] = killed.get(e["call"], 0) + e["n"]
    n = len(sc["calls"])
    groups = []  # per call: family of the fault group placed at that call, or None
    for i, c in enumerate(sc["calls"]):
        fam = None
        if any(f.get("instant") for f in (c.get("faults") or {}).values()):
            fam = _family_of_group(c)
        elif killed.get(i, 0) > 0:
            fam = "startup" if c.get("startup") else "idle"
        groups.append(fam)

    def last_family(i):
        for j in range(min(i, n - 1), -1, -1):
            if groups[j]:
                return groups[j]
        return "no-fault"

    def respawn_call(i):
        return i < n and (sc["calls"][i].get("pre") or {}).get("kind") == "idle-timeout"

    def sig_hang(i):
        if respawn_call(i):
            return RESPAWN_SIG
        fam = last_family(i)
        return KNOWN_SIG if fam in ("mid-send", "timer") else "hang:" + fam

    # the executor manager thread lives in the scenario process: an exception escaping it is a failure by itself
    # (nothing will flag the executor or resolve the futures any more), whatever the calls then do
    mgr_died = [e for e in ev if e.get("ev") == "thread-exception" and e["thread"].startswith("ExecutorManagerThread")]
    for e in mgr_died[:1]:
        bad.append((f"manager-thread-died:{e['exc']}", f"{e['thread']}: {e['exc']}: {e.get('msg')} (last fault: {last_family(n - 1)})"))

    failures = 0
    prev_failed = False
    for i in range(n):
        e = calls.get(i)
        if e is None:
            if mgr_died:
                break
            if r["hang"]:
                bad.append((sig_hang(i), f"call {i} did not finish within the watchdog"))
            else:
                bad.append(("scenario-process-died", f"rc={r['rc']} (last fault: {last_family(i)}) {r['stderr_tail'][-400:]}"))
            break
        failed = e["outcome"] != "ok"
        if failed:
            cls = e["outcome"][4:]
            if cls == "SystemExit" and _raises_sysexit(sc["calls"][i]):
                pass  # the task's own exception, re-raised by Parallel: not a worker death (C04's business)
            elif cls not in TERMINATION_ERRORS:
                bad.append((f"unexpected-exception:{cls}", f"call {i} raised {cls} (last fault: {last_family(i)})"))
            failures += 1
            # F53: "prompt" — the error must not have waited for ANOTHER worker's idle time-out to wake the manager thread
            if respawn_call(i) and sc.get("idle_timeout") and e["elapsed"] >= sc["idle_timeout"]:
                bad.append((RESPAWN_SIG, f"call {i} (one batch, on an executor whose workers had left by idle time-out) raised {cls} only "
                                         f"after {e['elapsed']} s >= idle_worker_timeout = {sc['idle_timeout']} s"))
        else:
            if not e.get("results_correct"):
                bad.append(("wrong-or-partial-results", f"call {i}: n_results={e.get('n_results')} (last fault: {last_family(i)})"))
        # "bounded time" is relative to the fault-free latency of the same call: a call moving a large result gets
        # 0.1 s per MB on top (600 MB: 11 s fault-free here, up to 20 s under load)
        bound = LAT_BOUND + 0.1 * sum(f.get("payload_mb", 0) for f in (sc["calls"][i].get("faults") or {}).values())
        if e["elapsed"] > bound:
            bad.append(("slow-call", f"call {i} took {e['elapsed']} s (bound {bound} s; last fault: {last_family(i)})"))
        n_groups = sum(1 for g in groups[: i + 1] if g)
        if failures > n_groups:
            bad.append(("more-failed-calls-than-faults", f"{failures} failed calls after {n_groups} faults (call {i}; last fault: {last_family(i)})"))
            failures = n_groups  # report once
        if failed and prev_failed and not groups[i]:
            bad.append(("call-after-failed-call-fails", f"call {i} fails right after a failed call, with no new fault (last fault: {last_family(i)})"))
        prev_failed = failed
    return bad


def _lat_bucket(x):
    return "<1s" if x < 1 else "<5s" if x < 5 else "<15s" if x <= LAT_BOUND else ">15s"


# ----------------------------------------------------------------------------------------- fine-grained layer (wait set / lock)

FINE_FAMILIES = ("task:single-batch", "race:wakeup-vs-close", "respawn:after-idle-timeout")
FINE_MAX_TASKS = 7  # the generators' largest call; beyond 4 tasks the driver lets the workers move only once every task is submitted
# model self-test: (cfg = managerFirst closeUnlocked wakeupBeforeRespawn, start, must be possible, must be excluded, flag)
FINE_SELFTEST = [
    ("0 0 0", "fresh", {"TerminatedWorkerError"}, {"hang", "OSError"}, "0"),   # the code with the repair F53
    ("0 0 1", "fresh", {"TerminatedWorkerError"}, {"hang", "OSError"}, "0"),   # before F53, fresh executor: fine
    ("0 0 1", "idled", {"TerminatedWorkerError", "hang"}, {"OSError"}, "0"),   # before F53, workers left by idle time-out: F53
    ("0 0 0", "idled", {"TerminatedWorkerError"}, {"hang", "OSError"}, "0"),   # with F53
    ("1 0 1", "fresh", {"TerminatedWorkerError", "hang"}, {"OSError"}, "0"),   # manager thread started before the workers (pre-F53 order)
    ("0 1 0", "fresh", {"TerminatedWorkerError", "OSError"}, {"hang"}, "1"),   # close() of the wake-up pipe without the lock
]
_PROBE = {}


def probe_variant():
    """Which order `submit` of the tree under test has (`wakeup()` before / after `_ensure_executor_running()`): decided by
    RUNNING it (harness/c10rt/c10_probe.py), not by its source text.  -> "1" (before: pre-F53) | "0" (after)."""
    key = str(core.REPO)
    if key not in _PROBE:
        env = dict(os.environ)
        env["PYTHONPATH"] = str(core.REPO)
        p = subprocess.run([PY, "-B", str(RT / "c10_probe.py")], env=env, capture_output=True, timeout=120, start_new_session=True)
        line = next((ln for ln in p.stdout.decode("utf8", "replace").splitlines() if ln.startswith("{")), None)
        d = json.loads(line) if line else {}
        if "wakeup_before_respawn" not in d:
            raise core.InfraError(f"c10_probe failed: rc={p.returncode} {p.stdout[-300:]!r} {p.stderr[-600:]!r}")
        _PROBE[key] = "1" if d["wakeup_before_respawn"] else "0"
    return _PROBE[key]


def fine_calls(sc):
    """(index, start) of the calls of `sc` whose executor state at their start is known whatever happened before: `fresh`
    (a brand-new executor) or `idled` (every worker has left by idle time-out) — what the `fine` request models."""
    if sc["family"] not in FINE_FAMILIES:
        return []
    if sc["family"] == "respawn:after-idle-timeout":
        idx = [(1, "idled")]
    else:
        idx = [(0, "fresh")]
        if sc["family"] == "task:single-batch" and len(sc["calls"]) > 1:
            idx.append((1, "fresh"))  # call 0 holds a fault that fails it in every schedule: call 1 gets a brand-new executor
    return [(i, st) for i, st in idx if sc["calls"][i]["n_tasks"] <= FINE_MAX_TASKS and not sc["calls"][i].get("startup")
            and (st == "idled" or not sc["calls"][i].get("pre"))]


def fine_requests(sc, i, start, qs, wbr):
    c = sc["calls"][i]
    faults = [(int(t), f) for t, f in sorted((c.get("faults") or {}).items(), key=lambda kv: int(kv[0])) if f.get("instant")]
    lines = []
    for combo in itertools.product(*[classes_of(f) for _, f in faults]):
        toks = ["fine", "0", "0", wbr, start, str(sc["n_jobs"]), str(qs), str(c["n_tasks"]), str(len(faults))]
        toks += [x for (t, _), k in zip(faults, combo) for x in (str(t), k)]
        lines.append(" ".join(toks))
    return lines


def parse_fouts(reply):
    if not reply.startswith("fouts "):
        raise core.InfraError(f"driver reply {reply!r}")
    toks = reply.split(" ", 2)
    return toks[1], {t.strip() for t in (toks[2] if len(toks) > 2 else "").split(" | ") if t.strip()}


def impl_call_outcome(sc, r, i):
    e = next((e for e in r["events"] if e.get("ev") == "call" and e["call"] == i), None)
    if e is None:
        n_done = sum(1 for e in r["events"] if e.get("ev") == "call")
        return "hang" if (r["hang"] and i == n_done) else None
    if e["outcome"] == "ok":
        return "ok" if e.get("results_correct") else "wrong"
    cls = e["outcome"][4:]
    if cls == "SystemExit" and _raises_sysexit(sc["calls"][i]):
        cls = "TaskError"
    if (sc["calls"][i].get("pre") or {}).get("kind") == "idle-timeout" and sc.get("idle_timeout") and e["elapsed"] >= sc["idle_timeout"]:
        # nothing the manager thread waited on woke it: it slept until ANOTHER worker's idle time-out (an event the exploration
        # does not have) — the model's `hang` (manager asleep with a dead worker outside its wait set)
        return "hang"
    return cls


# ----------------------------------------------------------------------------------------- the check


def _queue_size():
    from joblib.externals.loky import cpu_count

    return 2 * cpu_count() + 1


def _canon(sc):
    def cc(c):
        return (c["n_tasks"], tuple(sorted((int(t), f.get("instant"), f.get("how"), f.get("payload_mb")) for t, f in
                                          (c.get("faults") or {}).items() if f.get("instant"))),
                json.dumps(c.get("pre"), sort_keys=True), json.dumps(c.get("startup"), sort_keys=True), c.get("pre_dispatch"))

    return (sc["n_jobs"], sc["managed"], tuple(cc(c) for c in sc["calls"]))


def _explore(ctx, scs, res, label):
    core.use_repo()
    _become_subreaper()
    qs = _queue_size()
    default_to = 60 if ctx.thorough else 45
    par = 10
    main_pids = []
    results = {}
    t0 = time.time()
    flood = threading.Event()  # enough unexpected hangs seen: the verdict is settled, do not wait 45 s for each of the rest
    n_unexpected_hangs = 0

    def guarded(sc):
        if flood.is_set():
            return None
        return run_scenario(sc, ctx.scratch / label, sc.get("timeout", default_to))

    with cf.ThreadPoolExecutor(max_workers=par) as ex:
        futs = {ex.submit(guarded, sc): sc for sc in scs}
        for f in cf.as_completed(futs):
            r = f.result()
            if r is None:
                continue
            results[futs[f]["id"]] = r
            if r["hang"] and not futs[f]["family"].startswith(("task:mid-send", "task:timer")):
                n_unexpected_hangs += 1
                if n_unexpected_hangs >= 5:
                    flood.set()
    if flood.is_set():
        res.notes.append(f"{len(scs) - len(results)} scenarios skipped after {n_unexpected_hangs} unexpected hangs")
    scs = [sc for sc in scs if sc["id"] in results]
    res.extra.setdefault("phase_wall_s", {})[label] = round(time.time() - t0, 1)
    requests, owners = [], []
    for sc in scs:
        r = results[sc["id"]]
        if r["main_pid"]:
            main_pids.append(r["main_pid"])
        if not r["started_ok"]:
            raise core.InfraError(f"scenario {sc['id']} did not start on {core.REPO}: {r['stderr_tail'][-600:]}")
        lines = model_requests(sc, qs)
        requests += lines
        owners += [sc["id"]] * len(lines)
    n_coarse = len(requests)
    fine_owners = []
    wbr = probe_variant()
    res.count("model-variant=" + ("pre-F53:wakeup-before-respawn" if wbr == "1" else "F53:wakeup-after-respawn"))
    for sc in scs:
        for i, start in fine_calls(sc):
            for ln in fine_requests(sc, i, start, qs, wbr):
                requests.append(ln)
                fine_owners.append((sc["id"], i))
    selftest = [f"fine {cfg} {start} 2 {qs} 1 1 0 nobytes" for cfg, start, _, _, _ in FINE_SELFTEST]
    requests += selftest
    replies = ctx.driver().run(requests)
    predicted = {}
    for sid, rep in zip(owners, replies[:n_coarse]):
        predicted.setdefault(sid, set()).update(parse_outs(rep))
    fine_pred = {}  # (scenario id, call index) -> (set of outcomes, flags seen)
    for key, rep in zip(fine_owners, replies[n_coarse:n_coarse + len(fine_owners)]):
        w, outs = parse_fouts(rep)
        cur = fine_pred.setdefault(key, (set(), set()))
        cur[0].update(outs)
        cur[1].add(w)
    # the switches of the fine layer do what the counterexample theorems say (a check of the driver, not of joblib)
    for (cfg, start, must, mustnot, flag), rep in zip(FINE_SELFTEST, replies[n_coarse + len(fine_owners):]):
        w, outs = parse_fouts(rep)
        if not (must <= outs) or (mustnot & outs) or w != flag:
            raise core.InfraError(f"fine-layer driver self-test failed for cfg {cfg} {start}: {rep!r}")
    res.count("fine-selftest=ok")
    for sc in scs:
        r = results[sc["id"]]
        tr = impl_trace(sc, r)
        case = dict(family=sc["family"], n_jobs=sc["n_jobs"], managed=sc["managed"], calls=sc["calls"],
                    timeout=sc.get("timeout", default_to))
        if sc.get("hooks"):
            case["hooks"] = sc["hooks"]
        if sc.get("idle_timeout"):
            case["idle_timeout"] = sc["idle_timeout"]
        waits = [e for e in r["events"] if e.get("ev") == "idle-timeout-wait"]
        if any(not e["left"] for e in waits):
            # the workers did not leave within the wait: the schedule's precondition (an executor with no process) is not met
            res.count("precondition-not-met:workers-still-there")
            continue
        surv = [e["survivors"] for e in r["events"] if e.get("survivors")]
        if surv:
            # a worker the harness signalled from outside is still running: the fault of the schedule did not happen,
            # so neither the oracle's fault count nor the model's prediction applies to this run
            res.count("fault-not-delivered")
            if len(res.notes) < 10:
                res.notes.append(dict(fault_not_delivered=case, survivors=surv[-1], trace=" ".join(tr),
                                      stderr_tail=r["stderr_tail"][-600:]))
            continue
        res.evaluations += 1
        res.count("family=" + sc["family"])
        res.count(f"n_jobs={sc['n_jobs']}")
        res.count(f"managed={sc['managed']}")
        for c in sc["calls"]:
            for f in (c.get("faults") or {}).values():
                if f.get("instant"):
                    res.count("instant=" + f["instant"])
                    res.count("how=" + f["how"])
            for key in ("pre", "startup"):
                if c.get(key) and "how" in c[key]:
                    res.count(f"{key}-how=" + c[key]["how"])
                    res.count(f"{key}-victims={c[key]['victims']}")
        for e in r["events"]:
            if e.get("ev") == "call":
                res.count("call-outcome=" + (e["outcome"] if e["outcome"] == "ok" else e["outcome"][4:]))
                res.count("latency" + _lat_bucket(e["elapsed"]))
        if r["hang"]:
            res.count("hang")
        for e in r["events"]:
            if e.get("ev") == "thread-exception":
                res.count("thread-exception=" + e["thread"].split("-")[0] + ":" + e["exc"])
            elif e.get("ev") == "sync-reached":
                res.count("sync-point=" + e["point"] + ("" if e["reached"] else ":not-reached"))
            elif e.get("ev") == "sync-held":
                res.count("sync-released-by=" + ("caller" if e["released_by_caller"] else "timeout"))
        if sc["family"] != "baseline":
            res.nontrivial.add(_canon(sc))
        res.sample(dict(case=case, trace=" ".join(tr), model=sorted(" ".join(t) for t in predicted[sc["id"]])[:6]))
        for sig, detail in oracle(sc, r):
            res.fail(sig, case, dict(detail=detail, trace=" ".join(tr)))
        res.traces_validated += 1
        pred = predicted[sc["id"]]
        res.count("model-set-size=" + ("1" if len(pred) == 1 else "2-4" if len(pred) <= 4 else "5+"))
        if tr not in pred:
            res.diverge("outcome-trace", case, " ".join(tr), sorted(" ".join(t) for t in pred))
            ds = res.extra.setdefault("divergence_samples", [])
            if len(ds) < 5:
                ds.append(dict(case=case, impl=" ".join(tr), model=sorted(" ".join(t) for t in pred)[:8],
                               events=[e for e in r["events"] if e.get("ev") != "start"],
                               stderr_tail=r["stderr_tail"][-1200:]))
        # fine-grained layer: the outcome of each call that runs on a fresh executor, against the statement-by-statement model
        for i, _start in fine_calls(sc):
            outs, flags = fine_pred.get((sc["id"], i), (set(), set()))
            got = impl_call_outcome(sc, r, i)
            if got is None:
                continue
            if "fuel" in outs:
                res.count("fine-tie=incomplete")
                continue
            res.count("fine-tie=" + sc["family"])
            res.traces_validated += 1
            if got not in outs:
                res.diverge("fine-outcome", case, f"call {i}: {got}", sorted(outs))
        if sc["family"] in FINE_FAMILIES and not fine_calls(sc):
            res.count("fine-tie=skipped-large-call")
        # step level: close() of the wake-up pipe entered while the caller stands between the `_closed` test and the write
        for e in r["events"]:
            if e.get("ev") == "wakeup-write-held":
                res.count(f"wakeup-write-held:close_entered={e['close_entered']}")
                res.traces_validated += 1
                if e["close_entered"]:
                    # the model (Cfg.code): excluded in every reachable state — C10.close_waits_for_the_writer; the `fine 0 0`
                    # exploration answers flag 0 (checked by the self-test above)
                    res.diverge("wakeup-step", case, "close() entered while the caller holds the lock between test and write",
                                "excluded: close waits for _shutdown_lock")
    _sweep_shm(main_pids)
    return res


def _exitcode_stream(ctx, res, codes=range(-64, 256)):
    """`_get_exitcode_name` (it runs in the manager thread while the TerminatedWorkerError message is built) against the
    model's `getExitcodeName`, exhaustively over the exit codes a worker can have: -64..-1 (killed by signal 1..64,
    the real-time ones included) and 0..255. Oracle: it returns a string for every code — it must never raise."""
    core.use_repo()
    import signal

    from joblib.externals.loky.backend import utils as U

    names = {}
    for n in range(1, 65):
        try:
            names[n] = signal.Signals(n).name
        except ValueError:
            pass
    table = " ".join(f"{n} {nm}" for n, nm in sorted(names.items()))
    codes = list(codes)
    replies = ctx.driver().run([f"exitname {e} {len(names)} {table}" for e in codes])
    for e, rep in zip(codes, replies):
        try:
            got = U._get_exitcode_name(e)
            impl = "name " + got if isinstance(got, str) and got else f"returns {got!r}"
        except Exception as ex:  # noqa: BLE001
            impl = "raises " + type(ex).__name__
        res.evaluations += 1
        res.traces_validated += 1
        res.count("exitcode=" + ("signal-named" if -e in names else "signal-unnamed" if e < 0 else "exit"))
        res.nontrivial.add(("exitcode", e))
        case = dict(family="exitcode-name", exitcode=e)
        if not impl.startswith("name "):
            res.fail("exitcode-name-" + impl.replace(" ", "-"), case,
                     f"_get_exitcode_name({e}) {impl}: in the manager thread this kills the thread before the executor is flagged")
        if impl != rep:
            res.diverge("exitcode-name", case, impl, rep)
    try:
        msg = U._format_exitcodes([-9, -35, -63, 0, 3, 255, None])
        if not isinstance(msg, str):
            res.fail("exitcode-message-not-a-string", dict(family="exitcode-name", exitcode="list"), repr(msg))
    except Exception as ex:  # noqa: BLE001
        res.fail("exitcode-message-raises-" + type(ex).__name__, dict(family="exitcode-name", exitcode="list"), repr(ex))


def _new_result():
    res = Result()
    res.rule = ("[exit codes: one evaluation per exit code -64..255 of _get_exitcode_name] one evaluation = one scenario subprocess (2-4 Parallel calls on the real loky backend, n_jobs 2..3, with/without a "
                "`with` block) with a fault schedule: victims 1..n_jobs, SIGKILL/SIGTERM/SIGSEGV/os._exit(3)/os._exit(0), instant in "
                "{arg-unpickle, task-start, mid-task, result-pickle, after-send, idle (observed / race), start-up of the next call "
                "(observed / race), worker booting; thorough: mid-send 0.05-32 MB, 600 MB timer}; non-trivial = at least one fault; "
                "distinct by (n_jobs, managed, per call: n_tasks, fault positions/instants/signals, idle and start-up kills)")
    res.assumptions = [
        "NoTornMessage for every liveness claim (violated by the mid-send scenarios on purpose: F15)",
        "a pause of >= 0.3 s lets the manager thread observe a death (scenarios marked 'observed')",
        "the model's prediction for a racy schedule is a SET of traces (the model lets the manager be arbitrarily slow)",
        f"latency bound per call {LAT_BOUND} s; watchdog per scenario 45-120 s",
    ]
    return res


def run(ctx):
    res = _new_result()
    if ctx.replay:
        case = ctx.replay.get("case") or {}
        if case.get("family") == "exitcode-name":
            _exitcode_stream(ctx, res, codes=[case["exitcode"]] if isinstance(case.get("exitcode"), int) else range(-64, 256))
            return res
        scs = [dict(id=i, family=case.get("family", "replay"), n_jobs=case["n_jobs"], managed=case["managed"],
                    calls=case["calls"], timeout=case.get("timeout", 60),
                    **{k: case[k] for k in ("hooks", "idle_timeout") if case.get(k)})
               for i in range(3)]
        return _explore(ctx, scs, res, "replay")
    corpus = []
    cdir = core.VERIF / "corpus" / "C10"
    if cdir.is_dir():
        for p in sorted(cdir.glob("*.json")):
            corpus.append(json.loads(p.read_text()))
    scs = []
    for c in corpus:
        scs.append(dict(id=len(scs), family=c.get("family", "corpus"), n_jobs=c["n_jobs"], managed=c["managed"], calls=c["calls"],
                        timeout=c.get("timeout", 60)))
    for sc in gen_scenarios(ctx.rng("main"), ctx.thorough):
        sc["id"] = len(scs)
        scs.append(sc)
    _exitcode_stream(ctx, res)
    return _explore(ctx, scs, res, "main")


def search(ctx, res0):
    """Failing-input search: same oracle, ~10x the quick budget, biased to the families that diverged."""
    res = _new_result()
    rng = ctx.rng("search")
    fams = {d["case"].get("family") for d in res0.divergences}
    scs = []
    for rep in range(6):
        for sc in gen_scenarios(rng, False):
            if rep < 3 or not fams or sc["family"] in fams:
                sc["id"] = len(scs)
                scs.append(sc)
    return _explore(ctx, scs, res, "search")
