"""C16 — see DESIGN.md section 6/C16. Model M1 (lean/JoblibModel/ParallelProto.lean), theorems lean/JoblibProofs/C16.lean,
deterministic scenarios through harness/ctl.py, oracles in harness/m1.py."""

from .. import m1

REQUIRED_THEOREMS = [
    "C16.promptness",
    "C16.ordered_yields_in_order_init",
    "C16.ordered_yields_in_order",
    "C16.pause_keeps_order",
    "C16.unordered_each_exactly_once",
    "C16.unordered_completion_order_partial",
    "C16.overlap_raises",
    "C16.close_stops_dispatch",
    "C16.close_leaves_clean",
    "C16.exit_block_effect",
    "C16.call_again_after_exit_raises",
    "C16.exit_stops_dispatch",
    "C16.sequential_promptness",
    "C16.sequential_overlap_raises",
    "C16.sequential_close_leaves_clean",
    "M1L.return_correct",
    "M1L.quiescent_termination",
    "M1LSeq.stale_steps_are_noops",
    "M1LSeq.current_call_refines_M1L",
    "M1LSeq.next_call_is_fresh",
    "M1LSeq.clean_call_returns_seq",
]
EXTRA_LEAN_MODULES = ("JoblibProofs.M1L", "JoblibProofs.M1LSeq")
EXTRA_LEAN_TARGETS = ("drv_m1l", "drv_m1lseq", "drv_m1lu")
TRUSTED_EXTRA = [
    "M1L / M1L-Seq (theorems M1L.*, M1LSeq.*): the ordered generator consumed to the end and sequences of calls with callback threads of earlier calls still alive, at lock-boundary granularity, every interleaving; tied by step-log equality of forced real-thread schedules (harness/m1_lock.py); abandoned generators and generator_unordered are NOT in these two models (M1 only)",
    "M1 granularity: completion callbacks are atomic and happen at hook points of the caller (configure, compute_batch_size, sleep, consumer "
    "pauses, inside backend.abort_everything, between two calls and after the last one); interleavings inside a callback or between two bytecodes of the caller are not in the model",
    "modelled, not verified: the backend contract (each submitted batch executed at most once, its callback invoked at most once), "
    "threading.RLock, itertools.islice, queue.Queue, collections.deque, pickling of batches to worker processes",
]
FOCUSES = ('gen', None)


def run(ctx):
    return m1.run_prop(ctx, "C16", FOCUSES)


def search(ctx, res):
    return m1.search_prop(ctx, "C16", res, FOCUSES)
