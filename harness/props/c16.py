"""C16 — see DESIGN.md section 6/C16. Model M1 (lean/JoblibModel/ParallelProto.lean), theorems lean/JoblibProofs/C16.lean,
deterministic scenarios through harness/ctl.py, oracles in harness/m1.py."""

from .. import m1

REQUIRED_THEOREMS = [
    "C16.promptness",
    "C16.ordered_yields_in_order_init",
    "C16.ordered_yields_in_order",
    "C16.pause_keeps_order",
    "C16.unordered_each_exactly_once",
    "C16.unordered_completion_order_partial",
    "C16.overlap_raises",
    "C16.close_stops_dispatch",
    "C16.close_leaves_clean",
    "C16.exit_block_effect",
    "C16.call_again_after_exit_raises",
    "C16.exit_stops_dispatch",
    "C16.sequential_promptness",
    "C16.sequential_overlap_raises",
    "C16.sequential_close_leaves_clean",
    "M1L.return_correct",
    "M1L.quiescent_termination",
    "M1LSeq.stale_steps_are_noops",
    "M1LSeq.current_call_refines_M1L",
    "M1LSeq.next_call_is_fresh",
    "M1LSeq.clean_call_returns_seq",
    "M1LU.unordered_completion_order",
    "M1LU.unordered_queue_is_registration_order",
    "M1LU.unordered_each_exactly_once_partial",
    "M1LU.unordered_no_batch_twice",
    "M1LU.registration_once",
    "M1LU.mutex",
    "M1LU.pulls_only_by_lock_owner",
    "M1LU.no_deadlock",
    "M1LU.error_surfaces_unordered",
]
EXTRA_LEAN_MODULES = ("JoblibProofs.M1L", "JoblibProofs.M1LSeq", "JoblibProofs.M1LU")
EXTRA_LEAN_TARGETS = ("drv_m1l", "drv_m1lseq", "drv_m1lu")
TRUSTED_EXTRA = [
    "M1LU (lean/JoblibModel/ParallelLockU.lean, theorems M1LU.*): the model M1L extended at the SAME granularity to return_as='generator_unordered' and to timeout (fake clock: one tick per time.sleep of the retrieval loop; time.time() is not a scheduling point): _jobs_set, the control-job pick under the lock, get_status with a timeout, _register_outcome(TimeoutError) run by the caller without the lock, the unlocked write of _jobs_set in finally; one call on a fresh object; next(iter(_jobs_set)) picks an arbitrary element: the model takes the pick from a script, the harness installs an insertion-ordered set that follows the same script (so every pick can be forced; the theorems hold for all scripts); tied by step-log equality of forced real-thread schedules (harness/m1_lock.py, scenarios with ra=2 or a timeout -> drv_m1lu); proved for all interleavings: mutex / lock owner, pulls only by the lock owner, no deadlock, completion(=registration)-order delivery, timeout only after more than `timeout` ticks on one pending tracker, _raise_error_fast finds the failed job; NOT proved for M1LU (checked by the tie's oracles): item-level exactly-once / all-n-at-exhaustion (M1L's dispatch-side proofs were not ported), termination (the trace-level 'registered TimeoutError => the call raises' IS proved: M1LU.timeout_registered_raises_ordered / _unordered)",
    "M1L / M1L-Seq (theorems M1L.*, M1LSeq.*): the ordered generator consumed to the end and sequences of calls with callback threads of earlier calls still alive, at lock-boundary granularity, every interleaving; tied by step-log equality of forced real-thread schedules (harness/m1_lock.py); abandoned generators and generator_unordered are NOT in these two models (M1 only)",
    "M1 granularity: completion callbacks are atomic and happen at hook points of the caller (configure, compute_batch_size, sleep, consumer "
    "pauses, inside backend.abort_everything, between two calls and after the last one); interleavings inside a callback or between two bytecodes of the caller are not in the model",
    "modelled, not verified: the backend contract (each submitted batch executed at most once, its callback invoked at most once), "
    "threading.RLock, itertools.islice, queue.Queue, collections.deque, pickling of batches to worker processes",
]
FOCUSES = ('gen', None)


def run(ctx):
    return m1.run_prop(ctx, "C16", FOCUSES)


def search(ctx, res):
    return m1.search_prop(ctx, "C16", res, FOCUSES)
