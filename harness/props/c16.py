"""C16 — see DESIGN.md section 6/C16. Model M1 (lean/JoblibModel/ParallelProto.lean), theorems lean/JoblibProofs/C16.lean,
deterministic scenarios through harness/ctl.py, oracles in harness/m1.py."""

from .. import m1

REQUIRED_THEOREMS = []
TRUSTED_EXTRA = [
    "M1 granularity: completion callbacks are atomic and happen at hook points of the caller (configure, compute_batch_size, sleep, consumer "
    "pauses); interleavings inside a callback or between two bytecodes of the caller are not in the model",
    "modelled, not verified: the backend contract (each submitted batch executed at most once, its callback invoked at most once), "
    "threading.RLock, itertools.islice, queue.Queue, collections.deque, pickling of batches to worker processes",
]
FOCUSES = ('gen', None)


def run(ctx):
    return m1.run_prop(ctx, "C16", FOCUSES)


def search(ctx, res):
    return m1.search_prop(ctx, "C16", res, FOCUSES)
