"""C07 — argument canonicalisation (`filter_args`) binds parameters exactly as Python does.

Model: lean/JoblibModel/FilterArgs.lean; theorems: lean/JoblibProofs/C07.lean; driver: Driver/C07.lean.

Every case is judged four ways:
  truth   the generated function is really called and returns `dict(locals())`  (what Python binds)
  inspect `inspect.signature(f).bind(*a, **k)` + `apply_defaults()`            (cross-check of truth)
  impl    the real `joblib.func_inspect.filter_args(f, ignore, a, k)`           (from VERIF_REPO)
  model   Lean `filterArgs` (op N), `filterArgsOld` (op O), `rename (bind …)` (op B) through drv_c07

* oracle (no model involved): on every call Python accepts, impl must succeed and equal truth with the
  `*args` / `**kwargs` parameters filed under '*' / '**', minus exactly the ignored keys.
* correspondence: impl == model N on every case, accepted or rejected, incl. which `raise` site fired;
  model B == truth (validates the specification `bind` the theorems are stated against).

Enumeration is EXHAUSTIVE: every signature Python accepts with <= 4 (quick) / <= 6 (thorough) parameters
over 5 kinds x default/no default (427 / 3547 signatures); for each, every number of positionals 0..P+2 x
every subset of keywords among all parameter names (also positional-only and variadic ones) + two unknown
names. Bound methods (self positional-or-keyword / positional-only, `self=` among the keywords): <= 2
(quick) / <= 5 (thorough) further parameters; thorough adds random 6-8 parameter signatures.
Measured: quick ~2 s, thorough ~45 s wall on 16 cores (1.3e5 / 4.7e6 cases).
"""

import collections
import concurrent.futures
import functools
import inspect
import itertools
import os

from .. import core
from ..core import Result

REQUIRED_THEOREMS = [
    "C07.filterArgs_eq_bind",
    "C07.filterArgsMethod_eq_bind",
    "C07.ignore_removes_exactly",
    "C07.wrapper_accepts",
    "C07.keys_nodup",
    "C07.old_F2_positional_only_dropped",
    "C07.old_F3_wrong_default",
    "C07.old_F4_varargs_keyword_only_rejected",
    "C07.old_F5_required_keyword_only_after_default_rejected",
]
TRUSTED_EXTRA = [
    "modelled, not verified: CPython's argument binding. The Lean specification `bind` is validated on every generated case "
    "against really calling an exec-generated function that returns dict(locals()), and against inspect.Signature.bind + apply_defaults "
    "(on 3.12.1 inspect.bind wrongly rejects f(a=..) for `def f(a=0, /, **kw)`; the real call is the reference there, counted as inspect_bind_disagrees_with_call)",
    "modelled, not verified: inspect.signature(func) yields the parameters in definition order with the kinds/defaults of the def statement; "
    "inspect.ismethod/isfunction dispatch; for a bound method, signature(func.__func__) = self + signature(func)",
    "not modelled: the isinstance(ignore_lst, str) guard, the non-function branch ({'*': args, '**': kwargs} for partials/builtins; fixed regression cases only), "
    "error message text beyond the raise site, methods whose first parameter is *args",
]

KINDS = ["po", "pk", "vp", "ko", "vk"]
RANK = {k: i for i, k in enumerate(KINDS)}
LET = "abcdefgh"
SELF_NAME, SELF_VAL = "s", 999
EXTRA = ["x", "y"]
NID = {c: i for i, c in enumerate("abcdefghijklmnopqrstuvwxyz")}
NAME = {i: c for c, i in NID.items()}

WORKERS = min(16, os.cpu_count() or 1)


# ----------------------------------------------------------------------------- generation


def signatures(n):
    """All signatures with exactly n parameters that `def` accepts: tuples of (kind, has_default)."""
    out = []

    def rec(prefix):
        if len(prefix) == n:
            out.append(tuple(prefix))
            return
        last = RANK[prefix[-1][0]] if prefix else 0
        for k in KINDS:
            if RANK[k] < last:
                continue
            if k in ("vp", "vk"):
                if not any(p[0] == k for p in prefix):
                    rec(prefix + [(k, False)])
                continue
            for d in (False, True):
                if k in ("po", "pk") and not d and any(p[0] in ("po", "pk") and p[1] for p in prefix):
                    continue  # non-default positional after a default one: SyntaxError
                rec(prefix + [(k, d)])

    rec([])
    return out


def source(sig, self_kind=None):
    """`def f(<sig>)` (or a class K with method m) whose body returns the bound locals."""
    params = ([(self_kind, False)] if self_kind else []) + list(sig)
    names = ([SELF_NAME] if self_kind else []) + [LET[i] for i in range(len(sig))]
    npo = sum(1 for k, _ in params if k == "po")
    has_vp = any(k == "vp" for k, _ in params)
    parts, star_done = [], False
    for i, ((k, d), nm) in enumerate(zip(params, names)):
        if k == "ko" and not star_done and not has_vp:
            parts.append("*")
            star_done = True
        if k == "vp":
            parts.append("*" + nm)
        elif k == "vk":
            parts.append("**" + nm)
        else:
            parts.append(nm + (f"={300 + NID[nm]}" if d else ""))
        if k == "po" and i == npo - 1:
            parts.append("/")
    if self_kind:
        return f"class K:\n    def m({', '.join(parts)}): return dict(locals())\n"
    return f"def f({', '.join(parts)}): return dict(locals())\n"


def make_callable(sig, self_kind):
    ns = {"__name__": "c07_generated"}
    exec(source(sig, self_kind), ns)  # noqa: S102 - generated from the enumerated signature only
    if self_kind:
        obj = ns["K"]()
        return obj.m, obj
    return ns["f"], None


def call_shapes(sig, self_kind, rng=None, kw_sample=None):
    """(args, kwargs) for every number of positionals 0..P+2 and every subset of keyword names."""
    n = len(sig)
    P = sum(1 for k, _ in sig if k in ("po", "pk"))
    cands = [LET[i] for i in range(n)] + EXTRA + ([SELF_NAME] if self_kind else [])
    subsets = [ks for r in range(len(cands) + 1) for ks in itertools.combinations(cands, r)]
    if kw_sample is not None and len(subsets) > kw_sample:
        keep = subsets[: n + 3]  # the empty set and the singletons
        subsets = keep + rng.sample(subsets[n + 3 :], kw_sample - len(keep))
    for na in range(0, P + 3):
        a = tuple(100 + i for i in range(na))
        for ks in subsets:
            yield a, {k: 200 + NID[k] for k in ks}


# ----------------------------------------------------------------------------- canonical forms


def _show_val(v):
    if isinstance(v, dict):
        return "{" + ",".join(f"{k}:{x}" for k, x in sorted((NID[k], x) for k, x in v.items())) + "}"
    if isinstance(v, (list, tuple)):
        return "[" + ",".join(str(x) for x in v) + "]"
    return str(v)


def _key_ord(k):
    return (1, 0) if k == "*" else (2, 0) if k == "**" else (0, NID[k])


def canon(d, obj=None):
    """'ok k=v …' exactly as the driver prints a dict (names as ids, sorted, then '*', '**')."""
    items = []
    for k in sorted(d, key=_key_ord):
        v = d[k]
        if obj is not None and v is obj:
            v = SELF_VAL
        items.append(f"{k if k in ('*', '**') else NID[k]}={_show_val(v)}")
    return " ".join(["ok"] + items)


SITES = [
    (ValueError, "Keyword-only parameter", "kwOnlyAsPositional"),
    (ValueError, "Wrong number of arguments", "wrongNumber"),
    (TypeError, "Ignore list for", "unexpectedKeyword"),
    (ValueError, "Ignore list: argument", "ignoreUndefined"),
]


def err_site(e):
    for cls, prefix, site in SITES:
        if type(e) is cls and str(e).startswith(prefix):
            return "err " + site
    return "err other:" + type(e).__name__


def request(sig, self_kind, args, kwargs, ignore, ops="NOB"):
    t = [ops, str(len(sig))]
    for i, (k, d) in enumerate(sig):
        t += [str(i), k, str(300 + i) if d else "-"]
    t += ["M", str(NID[SELF_NAME]), self_kind, str(SELF_VAL)] if self_kind else ["F"]
    t += [str(len(args))] + [str(a) for a in args]
    t.append(str(len(kwargs)))
    for k, v in kwargs.items():
        t += [str(NID[k]), str(v)]
    t.append(str(len(ignore)))
    t += [k if k in ("*", "**") else str(NID[k]) for k in ignore]
    return " ".join(t)


# ----------------------------------------------------------------------------- one case


def classify(sig, self_kind, impl, expected):
    """Stable signature of an oracle failure (what known_findings.json matches on)."""
    kinds = [k for k, _ in sig] + ([self_kind] if self_kind else [])
    if "po" in kinds:
        return "filter_args:positional-only"
    if impl == "err kwOnlyAsPositional":
        return "filter_args:surplus-positionals-with-keyword-only-rejected"
    if impl == "err wrongNumber":
        return "filter_args:required-keyword-only-after-default-rejected"
    if impl.startswith("err"):
        return "filter_args:valid-call-rejected:" + impl[4:]
    got = dict(x.split("=", 1) for x in impl.split()[1:])
    exp = dict(x.split("=", 1) for x in expected.split()[1:])
    if set(got) != set(exp):
        return "filter_args:wrong-key-set"
    defaults = {str(300 + i) for i, (_, d) in enumerate(sig) if d}
    for k in got:
        if got[k] != exp[k] and k.isdigit() and got[k] in defaults and got[k] != str(300 + int(k)):
            return "filter_args:default-of-another-parameter"
    return "filter_args:wrong-binding"


def eval_case(filter_args, f, obj, sig, self_kind, args, kwargs, ignore):
    """Run truth / inspect / impl on one case.
    Returns (expected, expected_full, inspect_status, impl, base_ok); base_ok = impl is right for ignore=[]."""
    vp = {LET[i] for i, (k, _) in enumerate(sig) if k == "vp"}
    vk = {LET[i] for i, (k, _) in enumerate(sig) if k == "vk"}
    try:
        truth = f(*args, **kwargs)
    except TypeError:
        truth = None
    if truth is None:
        expected_full = expected = "TypeError"
    else:
        full = {}
        for k, v in truth.items():
            if k in vp:
                full["*"] = list(v)
            elif k in vk:
                full["**"] = v
            else:
                full[k] = v
        expected_full = canon(full, obj)
        if len(set(ignore)) == len(ignore) and all(k in full for k in ignore):
            expected = canon({k: v for k, v in full.items() if k not in ignore}, obj)
        else:
            expected = None  # the property says nothing about undefined / repeated ignore entries
    try:
        ba = inspect.signature(f).bind(*args, **kwargs)
        ba.apply_defaults()
        insp = dict(ba.arguments)
        if obj is not None:
            insp[SELF_NAME] = obj
        insp_status = "agree" if truth is not None and insp == truth else "inspect-accepts" if truth is None else "inspect-differs"
    except TypeError:
        insp_status = "agree" if truth is None else "inspect-rejects"
    try:
        got = filter_args(f, list(ignore), args, dict(kwargs))
        impl = canon(got, obj)
    except Exception as e:  # noqa: BLE001
        impl = err_site(e)
    base_ok = True
    if ignore:
        try:
            base_ok = canon(filter_args(f, [], args, dict(kwargs)), obj) == expected_full
        except Exception:  # noqa: BLE001
            base_ok = False
    return expected, expected_full, insp_status, impl, base_ok


def ignore_lists(rng, expected_full, first_accepted):
    """Ignore lists to try for an accepted call besides []."""
    keys = [x.split("=", 1)[0] for x in expected_full.split()[1:]]
    keys = [k if k in ("*", "**") else NAME[int(k)] for k in keys]
    out = []
    if first_accepted:  # every subset of the keys, once per signature
        for r in range(1, len(keys) + 1):
            out += [list(c) for c in itertools.combinations(keys, r)]
        out += [["x"], ["*"] if "*" not in keys else ["**"] if "**" not in keys else ["y"]]
        if keys:
            out.append([keys[0], keys[0]])
    elif keys and rng.random() < 0.5:
        out.append(rng.sample(keys, rng.randint(1, len(keys))))
    elif rng.random() < 0.1:
        out.append([rng.choice(keys + ["x", "*", "**"])])
    return out


def run_signatures(ctx, jobs):
    """jobs: list of (index, sig, self_kind, kw_sample). Returns a partial Result."""
    joblib = core.use_repo()
    from joblib.func_inspect import filter_args

    res = Result()
    reqs, pend = [], []
    for index, sig, self_kind, kw_sample in jobs:
        rng = ctx.rng(f"sig/{index}/{sig}/{self_kind}")
        f, obj = make_callable(sig, self_kind)
        first_accepted = True
        for args, kwargs in call_shapes(sig, self_kind, rng, kw_sample):
            todo = [[]]
            k = 0
            while k < len(todo):
                ignore = todo[k]
                k += 1
                expected, expected_full, insp, impl, base_ok = eval_case(filter_args, f, obj, sig, self_kind, args, kwargs, ignore)
                if not ignore and expected_full != "TypeError":
                    todo += ignore_lists(rng, expected_full, first_accepted)
                    first_accepted = False
                reqs.append(request(sig, self_kind, args, kwargs, ignore))
                pend.append((sig, self_kind, args, kwargs, ignore, expected, expected_full, insp, impl, base_ok))
    replies = ctx.driver().run(reqs) if reqs else []
    for p, rep in zip(pend, replies):
        judge(res, *p, rep)
    return res


def judge(res, sig, self_kind, args, kwargs, ignore, expected, expected_full, insp, impl, base_ok, rep):
    parts = rep.split(" | ")
    if len(parts) != 3 or "bad-op" in rep:
        raise core.InfraError(f"driver reply {rep!r} for {request(sig, self_kind, args, kwargs, ignore)!r}")
    m_new, m_old, m_bind = parts
    case = dict(
        src=source(sig, self_kind).strip(),
        sig=[list(p) for p in sig],
        method=self_kind,
        args=list(args),
        kwargs=dict(kwargs),
        ignore=list(ignore),
        call=("obj.m" if self_kind else "f")
        + "(" + ", ".join([str(a) for a in args] + [f"{k}={v}" for k, v in kwargs.items()]) + ")",
        python_binds=expected_full,
        expected=expected,
        filter_args=impl,
    )
    accepted = expected_full != "TypeError"
    res.evaluations += 1
    res.count(f"params={len(sig)}")
    res.count("bound-method" if self_kind else "function")
    res.count("python-accepts" if accepted else "python-rejects")
    res.count("ignore=" + ("[]" if not ignore else "valid" if expected is not None and accepted else "other"))
    res.count("impl:" + (impl if impl.startswith("err") else "ok"))
    if not accepted and not impl.startswith("err"):
        # outside the property; which Python error filter_args lets through (model `bind` names the first one)
        res.count("lenient-on-rejected-call:" + m_bind[4:])
    if insp != "agree":
        res.count("inspect_bind_disagrees_with_call:" + insp)
    if accepted and (sig or self_kind):
        res.nontrivial.add((sig, self_kind, len(args), tuple(sorted(kwargs)), tuple(ignore)))
        if ignore or len(sig) >= 3:
            res.sample(dict(src=case["src"], call=case["call"], ignore=ignore, filter_args=impl), cap=6)
    # the specification itself: Lean `bind` (renamed) against what Python really bound
    res.traces_validated += 1
    want_bind = expected_full if accepted else "err"
    if (m_bind if accepted else m_bind[:3]) != want_bind:
        res.diverge("bind-spec", case, expected_full, m_bind)
    # correspondence: implementation against the model of the repaired code
    if impl != m_new:
        res.diverge("filter_args", case, impl, m_new)
        res.count("impl-matches-filterArgsOld" if impl == m_old else "impl-matches-neither-model")
    # oracle: implementation against Python, no model involved
    if accepted and expected is not None and impl != expected:
        if ignore and base_ok:
            sgn = "filter_args:ignore-list-removes-wrong-entries"
        else:
            try:
                sgn = classify(sig, self_kind, impl, expected)
            except Exception:  # noqa: BLE001  (an implementation result the classifier cannot parse is still a failure)
                sgn = "filter_args:wrong-binding"
        res.fail(sgn, case, f"Python binds {expected}; filter_args gives {impl}")


# ----------------------------------------------------------------------------- corpus and extras

# the four shapes of DESIGN section 7 (F2-F5) + the tests' own functions, run first
CORPUS = [
    ((("po", False), ("pk", False)), None, (1, 2), {}, []),  # F2  def f(a, /, b); f(1, 2)
    ((("po", False),), None, (1,), {}, []),  # F2  def f(a, /); f(1)
    ((("pk", True), ("pk", True), ("ko", False), ("ko", True)), None, (1,), {"c": 0}, []),  # F3
    ((("pk", False), ("vp", False), ("ko", True)), None, (1, 2, 3), {}, []),  # F4
    ((("pk", False), ("ko", True), ("ko", False)), None, (0,), {"c": 5}, []),  # F5
    ((("pk", False), ("pk", True)), None, (1,), {}, ["b"]),
    ((("pk", False), ("pk", True), ("vp", False), ("vk", False)), None, (1, 2, 25), {"x": 2}, ["*"]),
    ((("pk", False),), "pk", (1,), {}, []),
    ((("vk", False),), "po", (), {"s": 3}, []),
]


def run_cases(ctx, cases):
    """Explicit (sig, self_kind, args, kwargs, ignore) cases (corpus, replay)."""
    core.use_repo()
    from joblib.func_inspect import filter_args

    res = Result()
    reqs, pend = [], []
    for sig, self_kind, args, kwargs, ignore in cases:
        sig = tuple(tuple(p) for p in sig)
        f, obj = make_callable(sig, self_kind)
        expected, expected_full, insp, impl, base_ok = eval_case(filter_args, f, obj, sig, self_kind, tuple(args), kwargs, ignore)
        reqs.append(request(sig, self_kind, args, kwargs, ignore))
        pend.append((sig, self_kind, tuple(args), kwargs, ignore, expected, expected_full, insp, impl, base_ok))
    for p, rep in zip(pend, ctx.driver().run(reqs)):
        judge(res, *p, rep)
    return res


def non_function_branch(res):
    """Partials / builtins / callables: `{'*': args, '**': kwargs}` — must stay as it is (see F20)."""
    core.use_repo()
    from joblib.func_inspect import filter_args

    def g(a, b=2):
        return a

    class Callable:
        def __call__(self, a):
            return a

    for fn, nm in [(functools.partial(g, 1), "partial"), (len, "builtin"), (Callable(), "callable-object")]:
        try:
            got = filter_args(fn, [], (1, 2), {"k": 3})
        except Exception as e:  # noqa: BLE001
            got = type(e).__name__
        res.count("non-function:" + nm)
        if got != {"*": [1, 2], "**": {"k": 3}}:
            res.diverge("non-function-branch", dict(callable=nm), repr(got), "{'*': [1, 2], '**': {'k': 3}}")
    try:
        filter_args(g, "a", (1,))
        got = "no error"
    except ValueError:
        got = "ValueError"
    except Exception as e:  # noqa: BLE001
        got = type(e).__name__
    if got != "ValueError":
        res.diverge("ignore_lst-str-guard", dict(ignore_lst="a"), got, "ValueError")


def random_signature(rng, n):
    while True:
        kinds = sorted((rng.choice(KINDS) for _ in range(n)), key=RANK.get)
        if kinds.count("vp") > 1 or kinds.count("vk") > 1:
            continue
        sig, seen_default = [], False
        for k in kinds:
            if k in ("vp", "vk"):
                sig.append((k, False))
            elif k in ("po", "pk"):
                d = seen_default or rng.random() < 0.35
                seen_default = d
                sig.append((k, d))
            else:
                sig.append((k, rng.random() < 0.5))
        return tuple(sig)


def merge(into, part):
    into.evaluations += part.evaluations
    into.nontrivial |= part.nontrivial
    into.traces_validated += part.traces_validated
    for k, v in part.dist.items():
        into.dist[k] = into.dist.get(k, 0) + v
    for s in part.samples:
        into.sample(s)
    for d in part.divergences:
        if len(into.divergences) < 50:
            into.divergences.append(d)
    for f in part.oracle_failures:
        if len(into.oracle_failures) < 200 or f["signature"] not in {x["signature"] for x in into.oracle_failures}:
            into.oracle_failures.append(f)


def plan(ctx, max_n, method_max_n, n_random, salt):
    jobs = []
    for n in range(max_n + 1):
        for sig in signatures(n):
            jobs.append((sig, None, None))
    for n in range(method_max_n + 1):
        for sig in signatures(n):
            jobs.append((sig, "po", None))
            if not any(k == "po" for k, _ in sig):
                jobs.append((sig, "pk", None))
    rng = ctx.rng("random-signatures" + salt)
    for i in range(n_random):
        sig = random_signature(rng, rng.choice([6, 6, 7, 8]))
        jobs.append((sig, rng.choice([None, None, "po", "pk"]) if not any(k == "po" for k, _ in sig) else rng.choice([None, "po"]), 48))
    return [(i, s, m, kws) for i, (s, m, kws) in enumerate(jobs)]


def _shard(ctx_jobs):
    ctx, jobs = ctx_jobs
    return run_signatures(ctx, jobs)


def explore(ctx, max_n, method_max_n, n_random, salt=""):
    res = Result()
    res.rule = (
        "exhaustive: every def-acceptable signature with <= %d parameters (5 kinds x default/no default), bound methods up to %d "
        "parameters, %d random 6-8 parameter signatures; per signature every number of positionals 0..P+2 x every subset of keyword "
        "names (all parameter names + 2 unknown names), ignore lists: [] everywhere, every subset of the result keys once per signature, "
        "random subsets and undefined/repeated entries elsewhere. non-trivial = a call Python accepts of a callable with >= 1 parameter; "
        "distinct by (signature, method?, #positionals, keyword names, ignore list)" % (max_n, method_max_n, n_random)
    )
    merge(res, run_cases(ctx, CORPUS))
    non_function_branch(res)
    jobs = plan(ctx, max_n, method_max_n, n_random, salt)
    # cost of a signature grows like 2^n: deal round-robin after sorting by size so shards are even
    jobs.sort(key=lambda j: (-len(j[1]), j[0]))
    nshards = max(1, min(WORKERS * 4, len(jobs)))
    shards = [jobs[i::nshards] for i in range(nshards)]
    if WORKERS > 1:
        with concurrent.futures.ProcessPoolExecutor(max_workers=WORKERS) as ex:
            parts = list(ex.map(_shard, [(ctx, s) for s in shards]))
    else:
        parts = [_shard((ctx, s)) for s in shards]
    for p in parts:
        merge(res, p)
    res.count("signatures", len(jobs))
    res.assumptions = [
        "keyword names are distinct (a Python dict) and every parameter name is an identifier (so never '*' or '**')",
        "the signature is one inspect.signature can return: distinct names, kinds in Python's order, at most one *args and one **kwargs",
        "for bound methods the first parameter of __func__ is positional (self), not *args",
    ]
    return res


def run(ctx):
    if ctx.replay:
        c = ctx.replay.get("case", {})
        return run_cases(ctx, [(c["sig"], c.get("method"), c.get("args", []), c.get("kwargs", {}), c.get("ignore", []))])
    if ctx.thorough:
        return explore(ctx, 6, 5, 400)
    return explore(ctx, 4, 2, 0)


def search(ctx, res):
    """Failing-input search: the thorough enumeration plus more random large signatures."""
    return explore(ctx, 5, 4, 1500, salt="search")
