"""C07 — argument canonicalisation (`filter_args`) binds parameters exactly as Python does.

Model: lean/JoblibModel/FilterArgs.lean; theorems: lean/JoblibProofs/C07.lean; driver: Driver/C07.lean.

Every case is judged four ways:
  truth   the generated function is really called and returns `dict(locals())`  (what Python binds)
  inspect `inspect.signature(f).bind(*a, **k)` + `apply_defaults()`            (cross-check of truth)
  impl    the real `joblib.func_inspect.filter_args(f, ignore, a, k)`           (from VERIF_REPO)
  model   Lean `filterArgs` (op N), `filterArgsOld` (op O), `rename (bind …)` (op B) through drv_c07

* oracle (no model involved): on every call Python accepts, impl must succeed and equal truth with the
  `*args` / `**kwargs` parameters filed under '*' / '**', minus exactly the ignored keys.
* correspondence: impl == model N on every case, accepted or rejected, incl. which `raise` site fired;
  model B == truth (validates the specification `bind` the theorems are stated against).

Values are OBJECTS compared by IDENTITY. The Lean model has opaque value ids: it assumes filter_args only moves
argument and default values and never looks at them (no ==, !=, bool(), hash()). Every signature is therefore
run twice: with plain ints, and with each default / positional / keyword value a distinct object drawn from a
universe of awkward values (None, 0, False, '', (), NaN, mock.ANY, Parameter.empty look-alikes, objects whose
__eq__/__ne__ return True for everything / NotImplemented / a list / a falsy object / an object whose bool()
raises / raise TypeError on foreign types, element-wise comparing list subclasses, mutable list/dict, a
callable, a class). What is bound is named through id() and compared with what Python binds; an
implementation that compares, truth-tests or hashes a value diverges from the model and fails the oracle
(signature `filter_args:result-depends-on-a-default-or-argument-value` when the same case passes with ints).

Enumeration is EXHAUSTIVE: every signature Python accepts with <= 4 (quick) / <= 6 (thorough) parameters
over 5 kinds x default/no default (427 / 3547 signatures); for each, every number of positionals 0..P+2 x
every subset of keywords among all parameter names (also positional-only and variadic ones) + two unknown
names. Bound methods (self positional-or-keyword / positional-only, `self=` among the keywords): <= 2
(quick) / <= 5 (thorough) further parameters; thorough adds random 6-8 parameter signatures.
Measured: quick ~6 s (2.5e5 cases), thorough ~3.5 min (9.4e6 cases) wall on 16 cores.
"""

import collections
import concurrent.futures
import functools
import inspect
import itertools
import os
from unittest import mock

from .. import core
from ..core import Result

REQUIRED_THEOREMS = [
    "C07.filterArgs_eq_bind",
    "C07.filterArgsMethod_eq_bind",
    "C07.ignore_removes_exactly",
    "C07.wrapper_accepts",
    "C07.keys_nodup",
    "C07.old_F2_positional_only_dropped",
    "C07.old_F3_wrong_default",
    "C07.old_F4_varargs_keyword_only_rejected",
    "C07.old_F5_required_keyword_only_after_default_rejected",
]
TRUSTED_EXTRA = [
    "modelled, not verified: CPython's argument binding. The Lean specification `bind` is validated on every generated case "
    "against really calling an exec-generated function that returns dict(locals()), and against inspect.Signature.bind + apply_defaults "
    "(on 3.12.1 inspect.bind wrongly rejects f(a=..) for `def f(a=0, /, **kw)`; the real call is the reference there, counted as inspect_bind_disagrees_with_call)",
    "modelled, not verified: inspect.signature(func) yields the parameters in definition order with the kinds/defaults of the def statement; "
    "inspect.ismethod/isfunction dispatch; for a bound method, signature(func.__func__) = self + signature(func)",
    "model assumption checked by this correspondence: values are opaque ids, i.e. filter_args never compares, truth-tests or hashes an argument "
    "or default value (every case also runs with exotic objects, bound values compared by identity with what Python binds)",
    "not modelled: the isinstance(ignore_lst, str) guard, the non-function branch ({'*': args, '**': kwargs} for partials/builtins; fixed regression cases only), "
    "error message text beyond the raise site, methods whose first parameter is *args",
]

KINDS = ["po", "pk", "vp", "ko", "vk"]
RANK = {k: i for i, k in enumerate(KINDS)}
LET = "abcdefgh"
SELF_NAME, SELF_VAL = "s", 999
EXTRA = ["x", "y"]
NID = {c: i for i, c in enumerate("abcdefghijklmnopqrstuvwxyz")}
NAME = {i: c for c, i in NID.items()}

WORKERS = min(16, os.cpu_count() or 1)


# ----------------------------------------------------------------------------- generation


def signatures(n):
    """All signatures with exactly n parameters that `def` accepts: tuples of (kind, has_default)."""
    out = []

    def rec(prefix):
        if len(prefix) == n:
            out.append(tuple(prefix))
            return
        last = RANK[prefix[-1][0]] if prefix else 0
        for k in KINDS:
            if RANK[k] < last:
                continue
            if k in ("vp", "vk"):
                if not any(p[0] == k for p in prefix):
                    rec(prefix + [(k, False)])
                continue
            for d in (False, True):
                if k in ("po", "pk") and not d and any(p[0] in ("po", "pk") and p[1] for p in prefix):
                    continue  # non-default positional after a default one: SyntaxError
                rec(prefix + [(k, d)])

    rec([])
    return out


def source(sig, self_kind=None):
    """`def f(<sig>)` (or a class K with method m) whose body returns the bound locals."""
    params = ([(self_kind, False)] if self_kind else []) + list(sig)
    names = ([SELF_NAME] if self_kind else []) + [LET[i] for i in range(len(sig))]
    npo = sum(1 for k, _ in params if k == "po")
    has_vp = any(k == "vp" for k, _ in params)
    parts, star_done = [], False
    for i, ((k, d), nm) in enumerate(zip(params, names)):
        if k == "ko" and not star_done and not has_vp:
            parts.append("*")
            star_done = True
        if k == "vp":
            parts.append("*" + nm)
        elif k == "vk":
            parts.append("**" + nm)
        else:
            parts.append(nm + (f"=D{300 + NID[nm]}" if d else ""))  # the default OBJECT is supplied by the namespace
        if k == "po" and i == npo - 1:
            parts.append("/")
    if self_kind:
        return f"class K:\n    def m({', '.join(parts)}): return dict(locals())\n"
    return f"def f({', '.join(parts)}): return dict(locals())\n"


# ----------------------------------------------------------------------------- values
#
# The Lean model treats argument and default values as opaque ids: it assumes filter_args never looks at a
# value (no ==, !=, bool(), hash(), len() of it), only moves it. This stream checks that assumption on the
# implementation: every default and every argument of a generated case is a distinct OBJECT drawn from the
# universe below, and what ends up bound is compared with what Python binds BY IDENTITY.


class _EqTrue:  # equal to everything (like mock.ANY, also says "not unequal")
    __hash__ = None

    def __eq__(self, other):
        return True

    def __ne__(self, other):
        return False


class _EqNotImplemented:
    __hash__ = None

    def __eq__(self, other):
        return NotImplemented

    def __ne__(self, other):
        return NotImplemented


class _EqReturnsList:  # comparison yields a non-bool (element-wise style); the empty list is falsy
    __hash__ = None

    def __eq__(self, other):
        return []

    def __ne__(self, other):
        return []


class _Falsy:
    def __bool__(self):
        return False


class _EqReturnsFalsyObject:
    __hash__ = None

    def __eq__(self, other):
        return _Falsy()

    def __ne__(self, other):
        return _Falsy()


class _BoolRaises:  # like a multi-element numpy array: "truth value is ambiguous"
    def __bool__(self):
        raise ValueError("truth value is ambiguous")


class _EqReturnsBoolRaising:
    __hash__ = None

    def __eq__(self, other):
        return _BoolRaises()

    def __ne__(self, other):
        return _BoolRaises()


class _EqRaisesOnForeign:  # a strict value object
    __hash__ = None

    def __eq__(self, other):
        if type(other) is not type(self):
            raise TypeError("cannot compare with a foreign type")
        return self is other

    def __ne__(self, other):
        return not self.__eq__(other)


class _Vec(list):  # element-wise comparison, numpy style
    __hash__ = None

    def __eq__(self, other):
        other = other if isinstance(other, list) else [other] * len(self)
        return _Vec(a == b for a, b in zip(self, other))

    def __ne__(self, other):
        other = other if isinstance(other, list) else [other] * len(self)
        return _Vec(a != b for a, b in zip(self, other))


# kind -> (factory(slot id) , is a process-wide singleton: usable for one slot of a case only)
UNIVERSE = {
    "int": (lambda n: n, False),
    "None": (lambda n: None, True),
    "zero": (lambda n: 0, True),
    "False": (lambda n: False, True),
    "empty-str": (lambda n: "", True),
    "empty-tuple": (lambda n: (), True),
    "nan": (lambda n: float("nan"), False),
    "str": (lambda n: "v%d" % n, False),
    "tuple": (lambda n: (n, n), False),
    "list": (lambda n: [n], False),
    "dict": (lambda n: {"k": n}, False),
    "callable": (lambda n: (lambda: n), False),
    "class": (lambda n: type("C%d" % n, (), {}), False),
    "mock.ANY": (lambda n: mock.ANY, True),
    "empty-lookalike-class": (lambda n: type("_empty", (), {}), False),
    "empty-lookalike-instance": (lambda n: type("_empty", (), {})(), False),
    "eq-always-true": (lambda n: _EqTrue(), False),
    "eq-notimplemented": (lambda n: _EqNotImplemented(), False),
    "eq-returns-list": (lambda n: _EqReturnsList(), False),
    "eq-returns-falsy-object": (lambda n: _EqReturnsFalsyObject(), False),
    "eq-returns-bool-raising": (lambda n: _EqReturnsBoolRaising(), False),
    "eq-raises-on-foreign": (lambda n: _EqRaisesOnForeign(), False),
    "bool-raises": (lambda n: _BoolRaises(), False),
    "vec-empty": (lambda n: _Vec(), False),
    "vec-2": (lambda n: _Vec([n, n]), False),
}
KIND_NAMES = list(UNIVERSE)


def slot_ids(sig, self_kind):
    """(default slots, argument slots) of a signature: the value ids a generated case can mention."""
    P = sum(1 for k, _ in sig if k in ("po", "pk"))
    cands = [LET[i] for i in range(len(sig))] + EXTRA + ([SELF_NAME] if self_kind else [])
    return [300 + i for i, (_, d) in enumerate(sig) if d], [100 + i for i in range(P + 2)] + [200 + NID[k] for k in cands]


def draw_kinds(rng, sig, self_kind, index):
    """Value kind per slot. Default slots walk the universe cyclically (every kind is a default many times
    whatever the seed), argument slots are drawn at random; a singleton serves one slot only."""
    dslots, aslots = slot_ids(sig, self_kind)
    used, kinds = set(), {}
    start = index * 5 + rng.randrange(len(KIND_NAMES))
    for t, n in enumerate(dslots):
        j = start + t
        while UNIVERSE[KIND_NAMES[j % len(KIND_NAMES)]][1] and KIND_NAMES[j % len(KIND_NAMES)] in used:
            j += 1
        kinds[n] = KIND_NAMES[j % len(KIND_NAMES)]
        used.add(kinds[n])
    for n in aslots:
        k = rng.choice(KIND_NAMES)
        while UNIVERSE[k][1] and k in used:
            k = rng.choice(KIND_NAMES)
        kinds[n] = k
        used.add(k)
    return kinds


class Palette:
    """The objects of one generated callable: slot id -> object, and back by identity."""

    def __init__(self, kinds=None):
        self.kinds = {int(n): k for n, k in (kinds or {}).items()}
        self.obj_of = {n: UNIVERSE[k][0](n) for n, k in self.kinds.items()}
        self.ident = {id(o): n for n, o in self.obj_of.items()}
        if len(self.ident) != len(self.obj_of):
            raise core.InfraError("value palette is not identity-distinct: %r" % (self.kinds,))

    def obj(self, n):
        return self.obj_of.get(n, n)  # slots without an entry are the plain int itself

    def name(self, v):
        n = self.ident.get(id(v))
        if n is not None:
            return str(n)
        if type(v) is int:
            return str(v)
        return "?" + type(v).__name__

    def exotic(self):
        return {str(n): k for n, k in sorted(self.kinds.items()) if k != "int"}


def _decorate(fn, wrap):
    """The callable as users often hand it to Memory.cache: behind a decorator.  `wraps`: functools.wraps (the signature is
    found through __wrapped__); `sigattr`: an explicit __signature__.  The wrapper's own code object takes (*a, **k)."""
    import functools

    if wrap == "wraps":
        @functools.wraps(fn)
        def inner(*a, **k):
            return fn(*a, **k)
    else:
        def inner(*a, **k):
            return fn(*a, **k)
        inner.__signature__ = inspect.signature(fn)
        inner.__name__, inner.__qualname__, inner.__module__ = fn.__name__, fn.__qualname__, fn.__module__
    return inner


def make_callable(sig, self_kind, pal, wrap=None):
    ns = {"__name__": "c07_generated"}
    for i, (_, d) in enumerate(sig):
        if d:
            if 300 + i not in pal.obj_of:
                pal.obj_of[300 + i] = 300 + i
                pal.ident[id(pal.obj_of[300 + i])] = 300 + i
            ns[f"D{300 + i}"] = pal.obj_of[300 + i]
    exec(source(sig, self_kind), ns)  # noqa: S102 - generated from the enumerated signature only
    if wrap:
        if self_kind:
            ns["K"].m = _decorate(ns["K"].m, wrap)
        else:
            ns["f"] = _decorate(ns["f"], wrap)
    if self_kind:
        obj = ns["K"]()
        pal.ident[id(obj)] = SELF_VAL
        pal.self_obj = obj
        return obj.m, obj
    return ns["f"], None


def call_shapes(sig, self_kind, rng=None, kw_sample=None):
    """(args, kwargs) for every number of positionals 0..P+2 and every subset of keyword names."""
    n = len(sig)
    P = sum(1 for k, _ in sig if k in ("po", "pk"))
    cands = [LET[i] for i in range(n)] + EXTRA + ([SELF_NAME] if self_kind else [])
    subsets = [ks for r in range(len(cands) + 1) for ks in itertools.combinations(cands, r)]
    if kw_sample is not None and len(subsets) > kw_sample:
        keep = subsets[: n + 3]  # the empty set and the singletons
        subsets = keep + rng.sample(subsets[n + 3 :], kw_sample - len(keep))
    for na in range(0, P + 3):
        a = tuple(100 + i for i in range(na))
        for ks in subsets:
            yield a, {k: 200 + NID[k] for k in ks}


# ----------------------------------------------------------------------------- canonical forms


def _key_ord(k):
    return (1, 0) if k == "*" else (2, 0) if k == "**" else (0, NID.get(k, 99))


def canon(d, pal):
    """'ok k=v …' exactly as the driver prints a dict (names as ids, sorted, then '*', '**').
    Values are named by IDENTITY through the palette; only the '*' / '**' entries are containers."""
    items = []
    for k in sorted(d, key=_key_ord):
        v = d[k]
        if k == "*":
            sv = "[" + ",".join(pal.name(x) for x in v) + "]" if type(v) in (list, tuple) else "?" + type(v).__name__
        elif k == "**":
            sv = ("{" + ",".join(f"{n}:{x}" for n, x in sorted((NID[n], pal.name(x)) for n, x in v.items())) + "}"
                  if type(v) is dict else "?" + type(v).__name__)
        else:
            sv = pal.name(v)
        items.append(f"{k if k in ('*', '**') else NID[k]}={sv}")
    return " ".join(["ok"] + items)


def same_binding(a, b):
    """Two name -> value mappings bind the same OBJECTS (tuples / dicts of *args / **kwargs element-wise)."""
    if set(a) != set(b):
        return False
    for k in a:
        x, y = a[k], b[k]
        if x is y:
            continue
        if type(x) is tuple and type(y) is tuple and len(x) == len(y) and all(p is q for p, q in zip(x, y)):
            continue
        if type(x) is dict and type(y) is dict and set(x) == set(y) and all(x[n] is y[n] for n in x):
            continue
        return False
    return True


SITES = [
    (ValueError, "Keyword-only parameter", "kwOnlyAsPositional"),
    (ValueError, "Wrong number of arguments", "wrongNumber"),
    (TypeError, "Ignore list for", "unexpectedKeyword"),
    (ValueError, "Ignore list: argument", "ignoreUndefined"),
]


def err_site(e):
    for cls, prefix, site in SITES:
        if type(e) is cls and str(e).startswith(prefix):
            return "err " + site
    return "err other:" + type(e).__name__


def request(sig, self_kind, args, kwargs, ignore, ops="NOB"):
    t = [ops, str(len(sig))]
    for i, (k, d) in enumerate(sig):
        t += [str(i), k, str(300 + i) if d else "-"]
    t += ["M", str(NID[SELF_NAME]), self_kind, str(SELF_VAL)] if self_kind else ["F"]
    t += [str(len(args))] + [str(a) for a in args]
    t.append(str(len(kwargs)))
    for k, v in kwargs.items():
        t += [str(NID[k]), str(v)]
    t.append(str(len(ignore)))
    t += [k if k in ("*", "**") else str(NID[k]) for k in ignore]
    return " ".join(t)


# ----------------------------------------------------------------------------- one case


def classify(sig, self_kind, impl, expected):
    """Stable signature of an oracle failure (what known_findings.json matches on)."""
    kinds = [k for k, _ in sig] + ([self_kind] if self_kind else [])
    if "po" in kinds:
        return "filter_args:positional-only"
    if impl == "err kwOnlyAsPositional":
        return "filter_args:surplus-positionals-with-keyword-only-rejected"
    if impl == "err wrongNumber":
        return "filter_args:required-keyword-only-after-default-rejected"
    if impl.startswith("err"):
        return "filter_args:valid-call-rejected:" + impl[4:]
    got = dict(x.split("=", 1) for x in impl.split()[1:])
    exp = dict(x.split("=", 1) for x in expected.split()[1:])
    if set(got) != set(exp):
        return "filter_args:wrong-key-set"
    defaults = {str(300 + i) for i, (_, d) in enumerate(sig) if d}
    for k in got:
        if got[k] != exp[k] and k.isdigit() and got[k] in defaults and got[k] != str(300 + int(k)):
            return "filter_args:default-of-another-parameter"
    return "filter_args:wrong-binding"


def eval_case(filter_args, f, obj, sig, self_kind, args, kwargs, ignore, pal):
    """Run truth / inspect / impl on one case (args / kwargs values are slot ids, turned into the palette's objects).
    Returns (expected, expected_full, inspect_status, impl, base_ok); base_ok = impl is right for ignore=[]."""
    vp = {LET[i] for i, (k, _) in enumerate(sig) if k == "vp"}
    vk = {LET[i] for i, (k, _) in enumerate(sig) if k == "vk"}
    args = tuple(pal.obj(a) for a in args)
    kwargs = {k: pal.obj(v) for k, v in kwargs.items()}
    try:
        truth = f(*args, **kwargs)
    except TypeError:
        truth = None
    if truth is None:
        expected_full = expected = "TypeError"
    else:
        full = {}
        for k, v in truth.items():
            if k in vp:
                full["*"] = list(v)
            elif k in vk:
                full["**"] = v
            else:
                full[k] = v
        expected_full = canon(full, pal)
        if len(set(ignore)) == len(ignore) and all(k in full for k in ignore):
            expected = canon({k: v for k, v in full.items() if k not in ignore}, pal)
        else:
            expected = None  # the property says nothing about undefined / repeated ignore entries
    try:
        ba = inspect.signature(f).bind(*args, **kwargs)
        ba.apply_defaults()
        insp = dict(ba.arguments)
        if obj is not None:
            insp[SELF_NAME] = obj
        insp_status = "agree" if truth is not None and same_binding(insp, truth) else "inspect-accepts" if truth is None else "inspect-differs"
    except TypeError:
        insp_status = "agree" if truth is None else "inspect-rejects"
    try:
        got = filter_args(f, list(ignore), args, dict(kwargs))
        impl = canon(got, pal)
    except Exception as e:  # noqa: BLE001
        impl = err_site(e)
    base_ok = True
    if ignore:
        try:
            base_ok = canon(filter_args(f, [], args, dict(kwargs)), pal) == expected_full
        except Exception:  # noqa: BLE001
            base_ok = False
    return expected, expected_full, insp_status, impl, base_ok


def ignore_lists(rng, expected_full, first_accepted):
    """Ignore lists to try for an accepted call besides []."""
    keys = [x.split("=", 1)[0] for x in expected_full.split()[1:]]
    keys = [k if k in ("*", "**") else NAME[int(k)] for k in keys]
    out = []
    if first_accepted:  # every subset of the keys, once per signature
        for r in range(1, len(keys) + 1):
            out += [list(c) for c in itertools.combinations(keys, r)]
        out += [["x"], ["*"] if "*" not in keys else ["**"] if "**" not in keys else ["y"]]
        if keys:
            out.append([keys[0], keys[0]])
    elif keys and rng.random() < 0.5:
        out.append(rng.sample(keys, rng.randint(1, len(keys))))
    elif rng.random() < 0.1:
        out.append([rng.choice(keys + ["x", "*", "**"])])
    return out


def run_signatures(ctx, jobs):
    """jobs: list of (index, sig, self_kind, kw_sample, exotic). Returns a partial Result."""
    core.use_repo()
    from joblib.func_inspect import filter_args

    res = Result()
    reqs, pend = [], []
    for index, sig, self_kind, kw_sample, exotic in jobs:
        rng = ctx.rng(f"sig/{index}/{sig}/{self_kind}/{exotic}")
        wrap = exotic if exotic in ("wraps", "sigattr") else None
        exotic = exotic is True
        pal = Palette(draw_kinds(rng, sig, self_kind, index) if exotic else None)
        f, obj = make_callable(sig, self_kind, pal, wrap)
        plain = None  # the same callable with plain int values, built when a failure has to be attributed
        first_accepted = True
        for args, kwargs in call_shapes(sig, self_kind, rng, kw_sample):
            todo = [[]]
            k = 0
            while k < len(todo):
                ignore = todo[k]
                k += 1
                expected, expected_full, insp, impl, base_ok = eval_case(filter_args, f, obj, sig, self_kind, args, kwargs, ignore, pal)
                if not ignore and expected_full != "TypeError":
                    todo += ignore_lists(rng, expected_full, first_accepted)
                    first_accepted = False
                meta = dict(values=pal.exotic(), value_dependent=False, wrap=wrap)
                if exotic and expected not in (None, "TypeError") and impl != expected:
                    if plain is None:
                        ppal = Palette()
                        plain = (ppal,) + make_callable(sig, self_kind, ppal)
                    pe, _, _, pi, _ = eval_case(filter_args, plain[1], plain[2], sig, self_kind, args, kwargs, ignore, plain[0])
                    meta["value_dependent"] = pi == pe
                reqs.append(request(sig, self_kind, args, kwargs, ignore))
                pend.append((sig, self_kind, args, kwargs, ignore, expected, expected_full, insp, impl, base_ok, meta))
    replies = ctx.driver().run(reqs) if reqs else []
    for p, rep in zip(pend, replies):
        judge(res, *p, rep)
    return res


def judge(res, sig, self_kind, args, kwargs, ignore, expected, expected_full, insp, impl, base_ok, meta, rep):
    parts = rep.split(" | ")
    if len(parts) != 3 or "bad-op" in rep:
        raise core.InfraError(f"driver reply {rep!r} for {request(sig, self_kind, args, kwargs, ignore)!r}")
    m_new, m_old, m_bind = parts
    case = dict(
        src=source(sig, self_kind).strip(),
        sig=[list(p) for p in sig],
        method=self_kind,
        args=list(args),
        kwargs=dict(kwargs),
        ignore=list(ignore),
        call=("obj.m" if self_kind else "f")
        + "(" + ", ".join([str(a) for a in args] + [f"{k}={v}" for k, v in kwargs.items()]) + ")",
        values=meta["values"],  # slot id -> kind of object, for the slots that are not plain ints
        wrap=meta.get("wrap"),  # None | "wraps" | "sigattr": the callable is behind a decorator
        python_binds=expected_full,
        expected=expected,
        filter_args=impl,
    )
    accepted = expected_full != "TypeError"
    res.evaluations += 1
    res.count(f"params={len(sig)}")
    res.count("bound-method" if self_kind else "function")
    res.count("values=" + ("objects-by-identity" if meta["values"] else "plain-int"))
    for n, kd in meta["values"].items():
        if n.startswith("3"):
            res.count("default-kind:" + kd)
    res.count("python-accepts" if accepted else "python-rejects")
    res.count("ignore=" + ("[]" if not ignore else "valid" if expected is not None and accepted else "other"))
    res.count("impl:" + (impl if impl.startswith("err") else "ok"))
    if not accepted and not impl.startswith("err"):
        # outside the property; which Python error filter_args lets through (model `bind` names the first one)
        res.count("lenient-on-rejected-call:" + m_bind[4:])
    if insp != "agree":
        res.count("inspect_bind_disagrees_with_call:" + insp)
    if accepted and (sig or self_kind):
        res.nontrivial.add((sig, self_kind, len(args), tuple(sorted(kwargs)), tuple(ignore), tuple(sorted(meta["values"].items()))))
        if ignore or len(sig) >= 3:
            res.sample(dict(src=case["src"], call=case["call"], ignore=ignore, filter_args=impl), cap=6)
    # the specification itself: Lean `bind` (renamed) against what Python really bound
    res.traces_validated += 1
    want_bind = expected_full if accepted else "err"
    if (m_bind if accepted else m_bind[:3]) != want_bind:
        res.diverge("bind-spec", case, expected_full, m_bind)
    # correspondence: implementation against the model of the repaired code
    if impl != m_new:
        res.diverge("filter_args", case, impl, m_new)
        res.count("impl-matches-filterArgsOld" if impl == m_old else "impl-matches-neither-model")
    # oracle: implementation against Python, no model involved
    if accepted and expected is not None and impl != expected:
        if meta["value_dependent"]:
            sgn = "filter_args:result-depends-on-a-default-or-argument-value"
        elif ignore and base_ok:
            sgn = "filter_args:ignore-list-removes-wrong-entries"
        else:
            try:
                sgn = classify(sig, self_kind, impl, expected)
            except Exception:  # noqa: BLE001  (an implementation result the classifier cannot parse is still a failure)
                sgn = "filter_args:wrong-binding"
        res.fail(sgn, case, f"Python binds {expected}; filter_args gives {impl}")


# ----------------------------------------------------------------------------- corpus and extras

# the four shapes of DESIGN section 7 (F2-F5) + the tests' own functions, run first
CORPUS = [
    ((("po", False), ("pk", False)), None, (1, 2), {}, []),  # F2  def f(a, /, b); f(1, 2)
    ((("po", False),), None, (1,), {}, []),  # F2  def f(a, /); f(1)
    ((("pk", True), ("pk", True), ("ko", False), ("ko", True)), None, (1,), {"c": 0}, []),  # F3
    ((("pk", False), ("vp", False), ("ko", True)), None, (1, 2, 3), {}, []),  # F4
    ((("pk", False), ("ko", True), ("ko", False)), None, (0,), {"c": 5}, []),  # F5
    ((("pk", False), ("pk", True)), None, (1,), {}, ["b"]),
    ((("pk", False), ("pk", True), ("vp", False), ("vk", False)), None, (1, 2, 25), {"x": 2}, ["*"]),
    ((("pk", False),), "pk", (1,), {}, []),
    ((("vk", False),), "po", (), {"s": 3}, []),
]


def run_cases(ctx, cases):
    """Explicit (sig, self_kind, args, kwargs, ignore[, values]) cases (corpus, replay)."""
    core.use_repo()
    from joblib.func_inspect import filter_args

    res = Result()
    reqs, pend = [], []
    for sig, self_kind, args, kwargs, ignore, *rest in cases:
        sig = tuple(tuple(p) for p in sig)
        pal = Palette(rest[0] if rest else None)
        wrap = rest[1] if len(rest) > 1 else None
        f, obj = make_callable(sig, self_kind, pal, wrap)
        expected, expected_full, insp, impl, base_ok = eval_case(filter_args, f, obj, sig, self_kind, tuple(args), kwargs, ignore, pal)
        meta = dict(values=pal.exotic(), value_dependent=False, wrap=wrap)
        if meta["values"] and expected not in (None, "TypeError") and impl != expected:
            ppal = Palette()
            pf, pobj = make_callable(sig, self_kind, ppal)
            pe, _, _, pi, _ = eval_case(filter_args, pf, pobj, sig, self_kind, tuple(args), kwargs, ignore, ppal)
            meta["value_dependent"] = pi == pe
        reqs.append(request(sig, self_kind, args, kwargs, ignore))
        pend.append((sig, self_kind, tuple(args), kwargs, ignore, expected, expected_full, insp, impl, base_ok, meta))
    for p, rep in zip(pend, ctx.driver().run(reqs)):
        judge(res, *p, rep)
    return res


def non_function_branch(res):
    """Partials / builtins / callables: `{'*': args, '**': kwargs}` — must stay as it is (see F20)."""
    core.use_repo()
    from joblib.func_inspect import filter_args

    def g(a, b=2):
        return a

    class Callable:
        def __call__(self, a):
            return a

    for fn, nm in [(functools.partial(g, 1), "partial"), (len, "builtin"), (Callable(), "callable-object")]:
        try:
            got = filter_args(fn, [], (1, 2), {"k": 3})
        except Exception as e:  # noqa: BLE001
            got = type(e).__name__
        res.count("non-function:" + nm)
        if got != {"*": [1, 2], "**": {"k": 3}}:
            res.diverge("non-function-branch", dict(callable=nm), repr(got), "{'*': [1, 2], '**': {'k': 3}}")
    try:
        filter_args(g, "a", (1,))
        got = "no error"
    except ValueError:
        got = "ValueError"
    except Exception as e:  # noqa: BLE001
        got = type(e).__name__
    if got != "ValueError":
        res.diverge("ignore_lst-str-guard", dict(ignore_lst="a"), got, "ValueError")


def random_signature(rng, n):
    while True:
        kinds = sorted((rng.choice(KINDS) for _ in range(n)), key=RANK.get)
        if kinds.count("vp") > 1 or kinds.count("vk") > 1:
            continue
        sig, seen_default = [], False
        for k in kinds:
            if k in ("vp", "vk"):
                sig.append((k, False))
            elif k in ("po", "pk"):
                d = seen_default or rng.random() < 0.35
                seen_default = d
                sig.append((k, d))
            else:
                sig.append((k, rng.random() < 0.5))
        return tuple(sig)


def merge(into, part):
    into.evaluations += part.evaluations
    into.nontrivial |= part.nontrivial
    into.traces_validated += part.traces_validated
    for k, v in part.dist.items():
        into.dist[k] = into.dist.get(k, 0) + v
    for s in part.samples:
        into.sample(s)
    for d in part.divergences:
        if len(into.divergences) < 50:
            into.divergences.append(d)
    for f in part.oracle_failures:
        if len(into.oracle_failures) < 200 or f["signature"] not in {x["signature"] for x in into.oracle_failures}:
            into.oracle_failures.append(f)


def plan(ctx, max_n, method_max_n, n_random, salt):
    jobs = []
    for n in range(max_n + 1):
        for sig in signatures(n):
            jobs.append((sig, None, None))
    for n in range(method_max_n + 1):
        for sig in signatures(n):
            jobs.append((sig, "po", None))
            if not any(k == "po" for k, _ in sig):
                jobs.append((sig, "pk", None))
    rng = ctx.rng("random-signatures" + salt)
    for i in range(n_random):
        sig = random_signature(rng, rng.choice([6, 6, 7, 8]))
        jobs.append((sig, rng.choice([None, None, "po", "pk"]) if not any(k == "po" for k, _ in sig) else rng.choice([None, "po"]), 48))
    out = [(i, s, m, kws, ex) for i, (s, m, kws) in enumerate(jobs) for ex in (False, True)]
    # the same callables behind a decorator (functools.wraps / explicit __signature__): plain int values
    for i, (s, m, kws) in enumerate(jobs):
        for w in (("wraps", "sigattr") if len(s) <= 3 else (("wraps", "sigattr")[i % 2],)):
            out.append((i, s, m, kws, w))
    return out


def _shard(ctx_jobs):
    ctx, jobs = ctx_jobs
    return run_signatures(ctx, jobs)


def explore(ctx, max_n, method_max_n, n_random, salt=""):
    res = Result()
    res.rule = (
        "exhaustive: every def-acceptable signature with <= %d parameters (5 kinds x default/no default), bound methods up to %d "
        "parameters, %d random 6-8 parameter signatures; per signature every number of positionals 0..P+2 x every subset of keyword "
        "names (all parameter names + 2 unknown names); each signature once with plain int values and once with every default/argument "
        "a distinct object from a universe of 25 awkward kinds (falsy, NaN, mock.ANY, exotic __eq__/__ne__/__bool__, mutable, callable, class), "
        "bound values compared by identity; ignore lists: [] everywhere, every subset of the result keys once per signature, "
        "random subsets and undefined/repeated entries elsewhere. non-trivial = a call Python accepts of a callable with >= 1 parameter; "
        "distinct by (signature, method?, #positionals, keyword names, ignore list, value kinds)" % (max_n, method_max_n, n_random)
    )
    merge(res, run_cases(ctx, CORPUS))
    non_function_branch(res)
    jobs = plan(ctx, max_n, method_max_n, n_random, salt)
    # cost of a signature grows like 2^n: deal round-robin after sorting by size so shards are even
    jobs.sort(key=lambda j: (-len(j[1]), j[0]))
    nshards = max(1, min(WORKERS * 4, len(jobs)))
    shards = [jobs[i::nshards] for i in range(nshards)]
    if WORKERS > 1:
        with concurrent.futures.ProcessPoolExecutor(max_workers=WORKERS) as ex:
            parts = list(ex.map(_shard, [(ctx, s) for s in shards]))
    else:
        parts = [_shard((ctx, s)) for s in shards]
    for p in parts:
        merge(res, p)
    res.count("signatures", len(jobs))
    res.assumptions = [
        "keyword names are distinct (a Python dict) and every parameter name is an identifier (so never '*' or '**')",
        "the signature is one inspect.signature can return: distinct names, kinds in Python's order, at most one *args and one **kwargs",
        "for bound methods the first parameter of __func__ is positional (self), not *args",
    ]
    return res


def run(ctx):
    if ctx.replay:
        c = ctx.replay.get("case", {})
        return run_cases(ctx, [(c["sig"], c.get("method"), c.get("args", []), c.get("kwargs", {}), c.get("ignore", []), c.get("values") or None, c.get("wrap"))])
    if ctx.thorough:
        return explore(ctx, 6, 5, 400)
    return explore(ctx, 4, 2, 0)


def search(ctx, res):
    """Failing-input search: the thorough enumeration plus more random large signatures."""
    return explore(ctx, 5, 4, 1500, salt="search")
