"""Importable classes for the C02 / C06 histories (harness/memcache.py): they must live in a module of their own so that
their instances are pickled (and hashed) under the same name in the checking process and in the fresh interpreter
processes of a multi-session history."""


class Lattice:
    """A user class whose `<` is a PARTIAL order (proper inclusion of the members): hashable, equal by value."""

    def __init__(self, members):
        self.members = frozenset(members)

    def __eq__(self, other):
        return type(other) is Lattice and self.members == other.members

    def __ne__(self, other):
        return not self == other

    def __hash__(self):
        return hash(("Lattice", self.members))

    def __lt__(self, other):
        if type(other) is not Lattice:
            return NotImplemented
        return self.members < other.members

    def __reduce__(self):
        return (Lattice, (sorted(self.members, key=repr),))

    def __repr__(self):
        return "Lattice(%r)" % (sorted(self.members, key=repr),)
