"""Regenerated constant tables (DESIGN.md section 1, last paragraph; section 6/C03).

`regenerate()` imports the LIVE objects of VERIF_REPO's joblib (and CPython's own `pickle` /
`pickletools` tables) and writes `lean/JoblibModel/Generated/Tables.lean`.  The file is rewritten
only when its content changes, so `lake build` stays a no-op on an unchanged tree; writing happens
under `core.lean_lock()`.  The table-level theorems of C03/C19 (`decide` over these finite tables:
prefix-freeness, disjointness from the ways a pickle can start, alignment fits one byte, ...) are
therefore re-proved against what the code says NOW.

Called by the C03 and C19 checks on every run (`prepare(ctx)`, which core.run_check calls before the proof
audit, and again as the first statement of `run(ctx)`).  When the tree under check is not /repo (VERIF_REPO =
a mutant or a candidate fix) the previous content of the file is put back when the check process exits, so
the committed file always describes /repo.

What is extracted, and from where:

  compressors          joblib.compressor._COMPRESSORS, in dict (= registration = sniffing) order:
                       name, prefix (byte list), extension, available (its `_check_versions()` does
                       not raise and it has a file-object factory), and the exception class the
                       factory raises for a float compresslevel (observed by calling it)
  zfilePrefix          joblib.compressor._ZFILE_PREFIX
  prefixesMaxLen       joblib.numpy_pickle_utils._get_prefixes_max_len()  (cross-checks the model's own max)
  lz4Installed         joblib.numpy_pickle.lz4 is not None   (the literal test in `dump`)
  zlibDefaultLevel     default of BinaryZlibFile.__init__(compresslevel=...)
  dumpDefaultCompress  default of numpy_pickle.dump(compress=...)
  pickle tables        pickle.HIGHEST_PROTOCOL, pickle.PROTO, and from pickletools.opcodes: every opcode
                       code; the opcodes a protocol-0/1 pickle can START with (proto <= 1 and empty
                       `stack_before`), split by "has an inline argument" (then the next byte is argument
                       data) or not (then the next byte is another opcode)
  numpyArrayAlignmentBytes   joblib.numpy_pickle.NUMPY_ARRAY_ALIGNMENT_BYTES
  bufferSize                 joblib.numpy_pickle_utils.BUFFER_SIZE
  ioBufferSize               joblib.numpy_pickle_utils._IO_BUFFER_SIZE
"""

from __future__ import annotations

import atexit
import inspect
import io
import json
from pathlib import Path

from . import core

OUT = core.LEAN / "JoblibModel" / "Generated" / "Tables.lean"


def _float_level_error(comp):
    """Exception class name raised by the compressor's file factory for compresslevel=3.0 ('' if accepted)."""
    try:
        f = comp.compressor_file(io.BytesIO(), compresslevel=3.0)
    except Exception as e:  # noqa: BLE001
        return type(e).__name__
    try:
        f.close()
    except Exception:  # noqa: BLE001
        pass
    return ""


def _available(comp):
    if getattr(comp, "fileobj_factory", None) is None:
        return False
    chk = getattr(comp, "_check_versions", None)
    if chk is not None:
        try:
            chk()
        except Exception:  # noqa: BLE001
            return False
    return True


def live_tables() -> dict:
    core.use_repo()
    import pickle
    import pickletools

    from joblib import compressor, numpy_pickle, numpy_pickle_utils

    comps = []
    for name, c in numpy_pickle_utils._COMPRESSORS.items():
        avail = _available(c)
        comps.append(
            dict(
                name=name,
                pfx=list(c.prefix),
                ext=c.extension,
                available=avail,
                floatLevelErr=_float_level_error(c) if avail else "",
            )
        )
    ops = pickletools.opcodes
    first = [o for o in ops if o.proto <= 1 and not o.stack_before]
    return dict(
        compressors=comps,
        zfilePrefix=list(compressor._ZFILE_PREFIX),
        prefixesMaxLen=numpy_pickle_utils._get_prefixes_max_len(),
        lz4Installed=numpy_pickle.lz4 is not None,
        zlibDefaultLevel=inspect.signature(compressor.BinaryZlibFile.__init__).parameters["compresslevel"].default,
        dumpDefaultCompress=inspect.signature(numpy_pickle.dump).parameters["compress"].default,
        pickleHighestProtocol=pickle.HIGHEST_PROTOCOL,
        pickleProtoOpcode=pickle.PROTO[0],
        pickleAllOpcodes=sorted(ord(o.code) for o in ops),
        pickleFirstOpsNoArg=sorted(ord(o.code) for o in first if o.arg is None),
        pickleFirstOpsWithArg=sorted(ord(o.code) for o in first if o.arg is not None),
        numpyArrayAlignmentBytes=numpy_pickle.NUMPY_ARRAY_ALIGNMENT_BYTES,
        bufferSize=numpy_pickle_utils.BUFFER_SIZE,
        ioBufferSize=numpy_pickle_utils._IO_BUFFER_SIZE,
    )


def _s(x: str) -> str:
    return json.dumps(x, ensure_ascii=True)


def _nat(x) -> str:
    """Constants that the model uses as naturals; anything else (a mutated tree) is rendered as 0 and flagged."""
    if isinstance(x, bool) or not isinstance(x, int) or x < 0:
        return "0"
    return str(x)


def _nats(xs) -> str:
    return "[" + ", ".join(_nat(x) for x in xs) + "]"


def _b(x) -> str:
    return "true" if x else "false"


def render(t: dict) -> str:
    L = []
    L.append("/-! GENERATED by harness/gen_tables.py from the live objects of the joblib tree under check")
    L.append("(and CPython's pickle/pickletools tables). Do not edit: it is rewritten whenever the code's")
    L.append("tables change. Import-free. Bytes are naturals. -/")
    L.append("namespace JoblibModel.Generated")
    L.append("")
    L.append("/-- One entry of `joblib.compressor._COMPRESSORS` (a `CompressorWrapper`). `floatLevelErr`: class of")
    L.append("the exception its file factory raises for a float `compresslevel` (\"\" = accepted). -/")
    L.append("structure CompressorEntry where")
    L.append("  name : String")
    L.append("  pfx : List Nat")
    L.append("  ext : String")
    L.append("  available : Bool")
    L.append("  floatLevelErr : String")
    L.append("deriving Repr, DecidableEq")
    L.append("")
    L.append("/-- `_COMPRESSORS.items()` in dict order (= the order `_detect_compressor` and `dump` iterate in). -/")
    L.append("def compressors : List CompressorEntry := [")
    rows = []
    for c in t["compressors"]:
        rows.append(
            f"  ⟨{_s(c['name'])}, {_nats(c['pfx'])}, {_s(c['ext'])}, {_b(c['available'])}, {_s(c['floatLevelErr'])}⟩"
        )
    L.append(",\n".join(rows))
    L.append("]")
    L.append("")
    L.append("/-- `_ZFILE_PREFIX` (pickles written before joblib 0.9.3). -/")
    L.append(f"def zfilePrefix : List Nat := {_nats(t['zfilePrefix'])}")
    L.append("/-- `_get_prefixes_max_len()` as the code computes it. -/")
    L.append(f"def prefixesMaxLen : Nat := {_nat(t['prefixesMaxLen'])}")
    L.append("/-- `numpy_pickle.lz4 is not None`. -/")
    L.append(f"def lz4Installed : Bool := {_b(t['lz4Installed'])}")
    L.append("/-- default `compresslevel` of `BinaryZlibFile.__init__`. -/")
    L.append(f"def zlibDefaultLevel : Nat := {_nat(t['zlibDefaultLevel'])}")
    L.append("/-- default `compress` of `numpy_pickle.dump`. -/")
    L.append(f"def dumpDefaultCompress : Nat := {_nat(t['dumpDefaultCompress'])}")
    L.append("")
    L.append("/-- `pickle.HIGHEST_PROTOCOL`. -/")
    L.append(f"def pickleHighestProtocol : Nat := {_nat(t['pickleHighestProtocol'])}")
    L.append("/-- `pickle.PROTO[0]`. -/")
    L.append(f"def pickleProtoOpcode : Nat := {_nat(t['pickleProtoOpcode'])}")
    L.append("/-- every opcode of `pickletools.opcodes`. -/")
    L.append(f"def pickleAllOpcodes : List Nat := {_nats(t['pickleAllOpcodes'])}")
    L.append("/-- opcodes with `proto <= 1`, empty `stack_before`, no inline argument. -/")
    L.append(f"def pickleFirstOpsNoArg : List Nat := {_nats(t['pickleFirstOpsNoArg'])}")
    L.append("/-- opcodes with `proto <= 1`, empty `stack_before`, an inline argument. -/")
    L.append(f"def pickleFirstOpsWithArg : List Nat := {_nats(t['pickleFirstOpsWithArg'])}")
    L.append("")
    L.append("/-- `NUMPY_ARRAY_ALIGNMENT_BYTES`. -/")
    L.append(f"def numpyArrayAlignmentBytes : Nat := {_nat(t['numpyArrayAlignmentBytes'])}")
    L.append("/-- `numpy_pickle_utils.BUFFER_SIZE`. -/")
    L.append(f"def bufferSize : Nat := {_nat(t['bufferSize'])}")
    L.append("/-- `numpy_pickle_utils._IO_BUFFER_SIZE`. -/")
    L.append(f"def ioBufferSize : Nat := {_nat(t['ioBufferSize'])}")
    L.append("")
    L.append("end JoblibModel.Generated")
    return "\n".join(L) + "\n"


DEFAULT_REPO = Path("/repo")
_restore = {}


def _write(text):
    OUT.parent.mkdir(parents=True, exist_ok=True)
    tmp = OUT.with_suffix(".lean.tmp")
    tmp.write_text(text)
    tmp.replace(OUT)


def _restore_at_exit():
    """A run against ANOTHER tree (VERIF_REPO = a mutant / a candidate fix) must not leave its tables in the
    committed file: put back what was there (unless somebody else rewrote the file meanwhile)."""
    with core.lean_lock():
        if OUT.exists() and OUT.read_text() == _restore.get("mine"):
            _write(_restore["old"])


def regenerate():
    """Returns (changed, tables). Rewrites the Lean file only when its content changes."""
    t = live_tables()
    text = render(t)
    with core.lean_lock():
        old = OUT.read_text() if OUT.exists() else None
        changed = old != text
        if changed:
            _write(text)
            if core.REPO != DEFAULT_REPO.resolve() and old is not None and "old" not in _restore:
                _restore.update(old=old, mine=text)
                atexit.register(_restore_at_exit)
    return changed, t


def ensure(res, prop, required):
    """First statement of `run(ctx)` of the checks that depend on the tables.

    Regenerates; when the file changed (the proof audit of this run, which core runs before `run`, may have
    been built against the previous tables) rebuilds the property's modules and re-audits them, and reports
    a table-level theorem that no longer checks as a divergence of stream "generated-tables".
    """
    changed, t = regenerate()
    res.extra["generated_tables"] = dict(file=str(OUT.relative_to(core.VERIF)), rewritten=changed, tables=t)
    if changed:
        proof = core.audit(prop, list(required))
        if not proof["build_ok"] or proof["discharged"] != proof["obligations"]:
            res.diverge(
                "generated-tables",
                dict(tables=t),
                dict(live_tables="see case"),
                dict(no_longer_checks=[list(x) for x in proof["failed"]][:12], log=proof["log"][-1500:]),
            )
        res.extra["generated_tables"]["reaudit"] = dict(
            build_ok=proof["build_ok"], obligations=proof["obligations"], discharged=proof["discharged"]
        )
    return t


if __name__ == "__main__":
    ch, tb = regenerate()
    print("rewritten" if ch else "unchanged", OUT)
