#!/bin/bash
# usage: tools/eval_round.sh <PROP> <round> [tests...] — evaluates /tmp/seed<round>-<PROP>-out/m{1,2,3} with eval_seed.sh, appends to /tmp/seed<round>-results.txt
PROP=$1; R=$2; shift 2
cd "$(dirname "$0")/.."
for m in m1 m2 m3; do
  D=/tmp/seed$R-$PROP-out/$m
  [ -f $D/patch.diff ] || continue
  tools/eval_seed.sh $PROP $D "$@" >> /tmp/seed$R-results.txt 2>&1
done
echo "$PROP round $R evaluated" >> /tmp/seed$R-results.txt
