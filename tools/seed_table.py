#!/usr/bin/env python3
"""Prints the markdown table of seeded mutations (seeded/*/meta.json) for DESIGN.md section 13.4."""
import json
from pathlib import Path
rows = []
for d in sorted((Path(__file__).resolve().parent.parent / "seeded").iterdir()):
    m = json.loads((d / "meta.json").read_text())
    c = m.get("confirmed", {})
    summ = (m.get("summary") or "").replace("|", "/").replace("\n", " ")
    rows.append(f"| `{d.name}` | {m.get('property')} | {summ[:170]} | {c.get('check_detects')} | {str(c.get('check_reports')).replace('|','/')[:200]} |")
print("| seeded mutation | property | what it does | caught | how the check reports it |\n|---|---|---|---|---|")
print("\n".join(rows))
