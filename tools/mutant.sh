#!/bin/bash
# usage: tools/mutant.sh <patch.diff> <check args...>   — runs ./check against a scratch worktree of /repo with the patch applied
set -e
PATCH=$(realpath "$1"); shift
WT=$(mktemp -d /tmp/wt-XXXXXX)
git -C /repo worktree add --detach "$WT" HEAD >/dev/null 2>&1
trap 'git -C /repo worktree remove --force "$WT" >/dev/null 2>&1; rm -rf "$WT"' EXIT
git -C "$WT" apply "$PATCH"
cd /verif
set +e
VERIF_REPO="$WT" ./check "$@"
echo "exit=$?"
