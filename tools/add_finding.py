#!/usr/bin/env python3
"""tools/add_finding.py <property> <known|fixed> <signature> <what> [commit]  — append to known_findings.json under a lock."""
import fcntl, json, sys
from pathlib import Path
p = Path(__file__).resolve().parent.parent / "known_findings.json"
prop, kind, sig, what = sys.argv[1:5]
commit = sys.argv[5] if len(sys.argv) > 5 else None
assert kind in ("known", "fixed")
with open(str(p) + ".lock", "w") as lk:
    fcntl.flock(lk, fcntl.LOCK_EX)
    d = json.loads(p.read_text())
    d["findings"] = [f for f in d["findings"] if not (f["property"] == prop and f["signature"] == sig)]
    e = dict(property=prop, kind=kind, signature=sig, what=what)
    if commit:
        e["commit"] = commit
    d["findings"].append(e)
    p.write_text(json.dumps(d, indent=1) + "\n")
print("ok", len(d["findings"]))
