#!/usr/bin/env python3
"""tools/seed_prompt.py <PROP> <round> [n=3]  — prints the brief handed to an independent seeding sub-agent.

The brief holds ONLY the text of the property (from properties.jsonl), the path of the agent's own scratch worktree, and
one-line summaries of the changes kept in earlier rounds (so that it does not repeat them).  Nothing about the checks."""
import glob, json, os, sys
from pathlib import Path

V = Path(__file__).resolve().parent.parent
prop, rnd = sys.argv[1], sys.argv[2]
N = int(sys.argv[3]) if len(sys.argv) > 3 else 3
MS = ", ".join(f"m{i}" for i in range(1, N + 1))
MD = ", ".join(f"{{out}}/m{i}/" for i in range(1, N + 1))
P = None
for l in open(V / "properties.jsonl"):
    d = json.loads(l)
    if d["id"] == prop:
        P = d
assert P, prop
wt = f"/tmp/seed{rnd}-{prop}"
out = f"/tmp/seed{rnd}-{prop}-out"
earlier = []
for d in sorted(glob.glob(str(V / "seeded" / "*"))):
    try:
        m = json.load(open(d + "/meta.json"))
    except Exception:
        continue
    if m.get("property") == prop:
        earlier.append("- " + m.get("summary", "")[:220].replace("\n", " "))
interp = ("python3-vt (python 3.11 + numpy; run as `PYTHONPATH=%s python3-vt demo.py`; say \"interpreter\": \"python3-vt\" in meta.json)" % wt
          if prop == "C19" else "/venv/bin/python (python 3.12, joblib's own interpreter; no numpy there)")
print(f"""You are testing how well a verification harness for the Python library joblib detects realistic regressions. You work ONLY inside your own scratch git worktree of joblib at {wt} (already created, clean, at the pinned commit). Never read or write /verif, never modify /repo (you may read /repo, it is the same code). Write your results to {out}/.

The semantic property under study ({prop}): "{P['title']}"

{P['statement']}

Where the property lives in the code (anchors):
{json.dumps(P['anchors'], indent=1)}

YOUR TASK: write up to {N} independent changes to joblib ({MS} — each a separate patch against the clean worktree) that each BREAK this property while
 (a) the code still imports and the existing test-suite still passes — at the very least every test module that touches the files you changed; run them, e.g. `cd {wt} && /venv/bin/python -m pytest -q -p no:cacheprovider -x joblib/test/test_<module>.py` (the full suite takes ~10 min; run the relevant modules);
 (b) the change looks like something a developer would plausibly do: a refactoring, a micro-optimisation, a "simplification", a clean-up, a reordering of two statements, a narrowed/widened exception clause, a cache added, a lock scope changed ... with a plausible rationale in a comment or the meta. No `if x == 42` special-casing, no deliberately planted backdoors;
 (c) the breakage needs something SPECIFIC to manifest — a particular interleaving of threads/processes, a crash or fault at a particular point, a multi-step sequence of operations, an unusual (but valid) input, a specific configuration, or TWO cooperating sites that each look fine alone — rather than something ordinary use (or the existing tests) would expose at once. Prefer subtle over blatant; prefer changes in DIFFERENT mechanisms/anchors of the property for {MS}.

For each change deliver, in {MD.format(out=out)}:
 - patch.diff : `git -C {wt} diff` of the change (must apply with `git apply` to a clean checkout of the pinned commit);
 - demo.py    : a self-contained demonstration program for {interp}: exits 0 on the CLEAN tree and non-zero WITH the patch, deterministically (force the needed interleaving/crash with events, monkeypatched hooks, custom backends, subprocess kills ... rather than hoping for timing; a few retries are fine if something is inherently racy); runs in under 60 s; imports joblib from PYTHONPATH (it will be run as `cd <worktree> && PYTHONPATH=<worktree> <interpreter> demo.py`); if it needs the worktree path use the literal `{wt}`; it must print what it observed;
 - meta.json  : {{"summary": what the change does and its plausible rationale, "violated_clause": which part of the property breaks and how, "needs": what is needed for it to manifest, "files": [changed files], "tests_run": exact commands and results}}.
Confirm yourself: demo exit 0 on clean tree (after `git -C {wt} checkout -- .`), non-zero with the patch; tests pass with the patch. Restore the worktree to clean (`git -C {wt} checkout -- .`, remove untracked files you created) after each change and at the end. Keep scratch files under {out}/ or {wt} only. Do not run anything that needs the network. NEVER use `git stash` (the stash is shared by all worktrees of the repository and other agents work in sibling worktrees): switch between clean and patched with `git apply <patch>` / `git apply -R <patch>` / `git checkout -- .` only.

Do NOT repeat these ideas, which were already used in earlier rounds:
{chr(10).join(earlier) if earlier else '(none)'}

Final answer: for each of {MS} one paragraph (what, why it is subtle, what it needs, the test/demos results). If you could only produce fewer than {N} that meet (a)-(c), deliver those and say so.""")
