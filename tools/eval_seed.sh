#!/bin/bash
# usage: tools/eval_seed.sh <PROP> <seed-dir> [tests...]   — confirms a seeded mutation and runs ./check PROP against it.
# Prints: demo-with-patch rc, tests rc, check rc (want !=0, 0, 1), demo-clean rc (want 0)
PROP=$1; D=$(realpath "$2"); shift 2; TESTS="$@"
WT=$(mktemp -d /tmp/wt-seed-XXXXXX)
git -C /repo worktree add --detach "$WT" HEAD >/dev/null 2>&1
trap 'git -C /repo worktree remove --force "$WT" >/dev/null 2>&1; rm -rf "$WT" "$WT-out"' EXIT
DEMO=$(ls $D/demo.py $D/test_demo.py 2>/dev/null | head -1)
PYI=/venv/bin/python; grep -q '"interpreter": *"python3-vt"' "$D/meta.json" 2>/dev/null && PYI=python3-vt
OUTD="$WT-out"; mkdir -p "$OUTD"
run_demo() { (cd "$WT" && sed -e "s#/tmp/seed5-$PROP-out#$OUTD#g" -e "s#/tmp/seed5-$PROP#$WT#g" -e "s#/tmp/seed4-$PROP-out#$OUTD#g" -e "s#/tmp/seed4-$PROP#$WT#g" -e "s#/tmp/seed3-$PROP#$WT#g" -e "s#/tmp/seed2-$PROP#$WT#g" -e "s#/tmp/seed-$PROP#$WT#g" "$DEMO" > "$WT/_demo.py" && PYTHONPATH="$WT" timeout 300 $PYI "$WT/_demo.py" >/dev/null 2>&1); echo $?; }
C=$(run_demo)
if ! git -C "$WT" apply "$D/patch.diff" 2>/dev/null; then echo "$PROP $(basename $D): PATCH DOES NOT APPLY"; exit 0; fi
M=$(run_demo)
T=skipped
if [ -n "$TESTS" ]; then (cd "$WT" && timeout 1200 /venv/bin/python -m pytest -q -p no:cacheprovider -x $TESTS >/dev/null 2>&1); T=$?; fi
cd /verif
if [ -n "$SKIP_CHECK" ]; then OUT=""; K=skipped; else OUT=$(VERIF_REPO="$WT" timeout 1500 ./check $PROP 2>&1); K=$?; fi
echo "$PROP $(basename $D): demo_clean=$C demo_mutant=$M tests=$T check=$K :: $(echo "$OUT" | grep VIOLATION | head -2 | tr '\n' ' ')"
for r in $(echo "$OUT" | grep -o 'replay=[^ ]*' | cut -d= -f2 | head -1); do python3 -c "
import json;d=json.load(open('$r'));print('   signature:', d.get('signature'), d.get('kind'))"; done
