#!/usr/bin/env python3
"""tools/keep_seed.py <PROP> <src dir> <name> <caught: yes|no|after-strengthening> <signature or note> — copy a confirmed seeded mutation into /verif/seeded/<name>/"""
import json, shutil, sys
from pathlib import Path
prop, src, name, caught, note = sys.argv[1:6]
dst = Path(__file__).resolve().parent.parent / "seeded" / name
dst.mkdir(parents=True, exist_ok=True)
src = Path(src)
for f in src.iterdir():
    if f.is_file():
        shutil.copy(f, dst / f.name)
m = json.loads((src / "meta.json").read_text()) if (src / "meta.json").exists() else {}
m.update(property=prop, confirmed=dict(
    ran="tools/eval_seed.sh: fresh worktree of /repo HEAD; demo on clean tree exit 0, demo with patch exit != 0, the module's own tests pass with the patch, then VERIF_REPO=<worktree> ./check " + prop,
    check_detects=caught, check_reports=note))
(dst / "meta.json").write_text(json.dumps(m, indent=1) + "\n")
print("kept", dst)
