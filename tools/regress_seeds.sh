#!/bin/bash
# tools/regress_seeds.sh [jobs]  — every seeded mutation against its property's quick check (fresh worktree each); prints one line per seed.
J=${1:-3}
cd "$(dirname "$0")/.."
export VROOT=$(pwd)
run_one() {
  d=$1; name=$(basename $d); prop=$(python3 -c "import json;print(json.load(open('$d/meta.json'))['property'])")
  WT=$(mktemp -d /tmp/wt-reg-XXXXXX)
  git -C /repo worktree add --detach "$WT" HEAD >/dev/null 2>&1
  if git -C "$WT" apply "$d/patch.diff" 2>/dev/null; then
    OUT=$(VERIF_REPO="$WT" VERIF_SEED=${VERIF_SEED:-0} timeout 1500 $VROOT/check $prop 2>/dev/null); rc=$?
    kind=$(echo "$OUT" | grep -c 'VIOLATION.*no-failing-input-found')
    nv=$(echo "$OUT" | grep -c '^VIOLATION')
    echo "$name prop=$prop rc=$rc violations=$nv no_failing_input=$kind"
  else
    echo "$name prop=$prop PATCH-DOES-NOT-APPLY"
  fi
  git -C /repo worktree remove --force "$WT" >/dev/null 2>&1; rm -rf "$WT"
}
export -f run_one
ls -d $VROOT/seeded/*/ | xargs -P $J -I{} bash -c 'run_one {}'
