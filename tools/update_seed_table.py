#!/usr/bin/env python3
"""tools/update_seed_table.py — replaces the seed table of DESIGN.md section 14.4 by the output of tools/seed_table.py."""
import subprocess, sys
from pathlib import Path
V = Path(__file__).resolve().parent.parent
d = (V / "DESIGN.md").read_text().split("\n")
a = next(i for i, l in enumerate(d) if l.startswith("| seeded mutation | property"))
b = a
while b < len(d) and d[b].startswith("|"):
    b += 1
tab = subprocess.run([sys.executable, str(V / "tools" / "seed_table.py")], capture_output=True, text=True, check=True).stdout.rstrip("\n").split("\n")
(V / "DESIGN.md").write_text("\n".join(d[:a] + tab + d[b:]))
print("rows", len(tab) - 2)
