"""F7 (C14): a zlib/gzip joblib file followed by extra bytes makes load spin forever."""
import subprocess
for comp in ["zlib", "gzip", "bz2", "lzma", "xz", "none"]:
    code = f'''
import joblib, io
comp={comp!r}
b = io.BytesIO()
joblib.dump({{"a": [1,2,3]}}, b, compress=(comp, 3) if comp!="none" else 0)
data = b.getvalue() + b"XYZ"
try:
    print(comp, "->", joblib.load(io.BytesIO(data)))
except Exception as e:
    print(comp, "-> EXC", type(e).__name__, e)
'''
    try:
        r = subprocess.run(["/venv/bin/python", "-c", code], capture_output=True, text=True, timeout=5)
        print(r.stdout.strip(), r.stderr.strip()[-200:])
    except subprocess.TimeoutExpired:
        print(comp, "TIMEOUT (hang)")
