"""F16 (C19): run with `PYTHONPATH=/repo python3-vt F16_numpy_matrix_subclass.py` (numpy 2.x)."""
import io, warnings, numpy as np, joblib
warnings.simplefilter("ignore")
def rt(a, **kw):
    b = io.BytesIO(); joblib.dump(a, b, **kw); b.seek(0); return joblib.load(b)
print("matrix ->", type(rt(np.matrix([[1, 2], [3, 4]]))).__name__)
a = np.arange(12, dtype=">i4").reshape(3, 4); r = rt(a); print("big-endian ->", r.dtype, (r == a).all())
