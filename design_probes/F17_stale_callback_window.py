import threading
from joblib import Parallel, delayed
from joblib._parallel_backends import ParallelBackendBase
class Ctl(ParallelBackendBase):
    supports_retrieve_callback = True
    uses_threads = True
    supports_sharedmem = True
    def __init__(self, **kw):
        super().__init__(**kw); self.pending = []; self.ncfg = 0; self.stale = None; self.mode = None
    def effective_n_jobs(self, n_jobs): return 2
    def configure(self, n_jobs=1, parallel=None, **kw):
        self.parallel = parallel; self.ncfg += 1
        if self.ncfg == 2 and self.stale is not None:
            func, cb = self.stale
            out = func() if self.mode == "ok" else ValueError("late failure of the previous call")
            t = threading.Thread(target=lambda: cb(out)); t.start(); t.join()
            print("  [harness] late completion of a batch of call 1 delivered during call 2's backend configuration (%s)" % self.mode)
        return 2
    def submit(self, func, callback=None):
        self.pending.append((func, callback)); return object()
    def retrieve_result_callback(self, out):
        if isinstance(out, Exception): raise out
        return out
def run(mode):
    be = Ctl(nesting_level=0); be.mode = mode
    p = Parallel(n_jobs=2, backend=be, pre_dispatch=2, batch_size=1)
    # call 1: two batches parked; batch 0 fails -> call raises; batch 1 still running somewhere
    def driver1():
        while len(be.pending) < 2: pass
        func, cb = be.pending.pop(0); cb(ValueError("boom"))
    th = threading.Thread(target=driver1); th.start()
    try: p(delayed(abs)(-(10+i)) for i in range(6))
    except ValueError as e: print("call 1 raised:", e)
    th.join()
    be.stale = be.pending.pop(0); be.pending.clear()
    # call 2: complete everything promptly
    def driver2():
        import time
        t0 = time.time()
        while time.time() - t0 < 2:
            if be.pending:
                func, cb = be.pending.pop(0); cb(func())
    th = threading.Thread(target=driver2, daemon=True); th.start()
    res = []
    def call2():
        try: res.append(("returned", p(delayed(abs)(-i) for i in range(4))))
        except BaseException as e: res.append(("raised", type(e).__name__, str(e)))
    t = threading.Thread(target=call2, daemon=True); t.start(); t.join(4)
    print("call 2 (expected [0, 1, 2, 3]):", res if res else "HANG")
run("ok"); run("fail")
