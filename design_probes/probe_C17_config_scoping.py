import threading
from joblib import parallel_config, Parallel
from joblib.parallel import get_active_backend, _backend, default_parallel_config
def view():
    b, n = get_active_backend(); return type(b).__name__, n, getattr(_backend, "config", {}).get("verbose")
print("outer", view())
try:
    with parallel_config(backend="threading", n_jobs=3, verbose=7):
        print("in1", view())
        with parallel_config(n_jobs=5):
            print("in2", view())
            p = Parallel(n_jobs=2); print("explicit", type(p._backend).__name__, p.n_jobs, p.verbose)
            p = Parallel(); print("ctx", type(p._backend).__name__, p.n_jobs, p.verbose)
            r = []; t = threading.Thread(target=lambda: r.append(view())); t.start(); t.join(); print("other thread", r)
            raise KeyError
except KeyError: pass
print("after", view())
with parallel_config(backend="loky", n_jobs=4):
    p = Parallel(require="sharedmem"); print("sharedmem", type(p._backend).__name__, p.n_jobs)
    p = Parallel(prefer="threads"); print("prefer threads under explicit loky", type(p._backend).__name__, p.n_jobs)
p = Parallel(prefer="threads"); print("prefer threads default", type(p._backend).__name__, p.n_jobs)
