import sys, threading, dis, time
from joblib import Parallel, delayed
from joblib._parallel_backends import ParallelBackendBase

class Ctl(ParallelBackendBase):
    supports_retrieve_callback = True
    uses_threads = True
    supports_sharedmem = True
    def __init__(self, **kw):
        super().__init__(**kw); self.pending = []; self.events = []
    def effective_n_jobs(self, n_jobs): return 2
    def configure(self, n_jobs=1, parallel=None, **kw):
        self.parallel = parallel; return 2
    def submit(self, func, callback=None):
        ids = [a[0] for (_, a, _) in func.items]
        self.events.append(("submit", ids)); self.pending.append((func, callback, ids)); return object()
    def retrieve_result_callback(self, out): return out
be = Ctl(nesting_level=0)
def complete_all():
    while be.pending:
        func, cb, ids = be.pending.pop(0)
        t = threading.Thread(target=lambda: cb(func())); t.start(); t.join()

code = Parallel._start.__code__
target_off = [i.offset for i in dis.get_instructions(code) if i.opname == "STORE_ATTR" and i.argval == "_iterating"][1]
mon = sys.monitoring; TOOL = mon.DEBUGGER_ID
mon.use_tool_id(TOOL, "probe")
fired = []
p = Parallel(n_jobs=2, backend=be, pre_dispatch=1, return_as="generator")
def on_instr(c, off):
    if c is code and off == target_off and not fired:
        fired.append(1)
        print("  [sched] main paused just before STORE_ATTR _iterating (value True already computed); running both completions in callback threads")
        complete_all()
        print("  [sched] callbacks done: _iterating=%s _original_iterator=%s; resuming main" % (p._iterating, p._original_iterator))
mon.register_callback(TOOL, mon.events.INSTRUCTION, on_instr)
mon.set_local_events(TOOL, code, mon.events.INSTRUCTION)
g = p(delayed(abs)(-i) for i in range(2))
mon.set_local_events(TOOL, code, 0)
print("events", be.events, "| _iterating now:", p._iterating, "| completed/dispatched:", p.n_completed_tasks, p.n_dispatched_tasks)
print(next(g), next(g))
res = []
t = threading.Thread(target=lambda: res.append(next(g, "StopIteration")), daemon=True); t.start(); t.join(3)
print("third next() returned within 3s:", res if res else "NO -> consumer hangs although every task completed")
