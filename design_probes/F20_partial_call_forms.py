import shutil, functools, asyncio, warnings
from joblib import Memory
warnings.simplefilter("ignore")
loc = "/tmp/w/cache_c06"; shutil.rmtree(loc, ignore_errors=True)
m = Memory(loc, verbose=0)
n = [0]
def g(a, b=2):
    n[0] += 1; return (a, b)
pg = m.cache(functools.partial(g, 1))
print(pg(2), pg(b=2), "executions:", n[0], "(1 expected if equivalent forms share an entry)")
n[0] = 0
cg = m.cache(g)
print(cg(1), cg(1, 2), cg(a=1, b=2), cg(1.0), cg(True), "executions:", n[0], "(3 expected: 1, 1.0, True distinct)")
print("check:", cg.check_call_in_cache(1), cg.check_call_in_cache(b=2, a=1), cg.check_call_in_cache(2))
class K:
    def __init__(s, v): s.v = v
    def meth(s, x, y=0): n[0] += 1; return (s.v, x, y)
k = K(5); n[0] = 0
cm = m.cache(k.meth)
print(cm(1), cm(x=1), cm(1, 0), "executions:", n[0])
async def ag(a, b=2):
    n[0] += 1; return (a, b)
n[0] = 0
ca = m.cache(ag)
async def main(): return [await ca(1), await ca(1, 2), await ca(a=1)]
print(asyncio.run(main()), "executions:", n[0])
