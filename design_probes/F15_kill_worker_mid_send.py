import os, sys, time, signal, threading
from joblib import Parallel, delayed
def task(i, delay):
    if i == 0:
        pid = os.getpid()
        if delay is not None:
            threading.Timer(delay, lambda: os.kill(pid, signal.SIGKILL)).start()
        return b"y" * (600 * 1024 * 1024)
    time.sleep(0.05)
    return i
if __name__ == "__main__":
    delay = None if sys.argv[1] == "none" else float(sys.argv[1])
    t0 = time.time()
    try:
        r = Parallel(n_jobs=2)(delayed(task)(i, delay) for i in range(4))
        print(delay, "returned", [len(x) if isinstance(x, bytes) else x for x in r], "%.1fs" % (time.time() - t0))
    except BaseException as e:
        print(delay, "raised", type(e).__name__, "after %.1fs" % (time.time() - t0))
