import io, os, itertools, tempfile, joblib, warnings
from joblib.numpy_pickle_utils import _detect_compressor
warnings.simplefilter("ignore")
obj = {"a": list(range(50)), "b": ("x", 1.5, None, b"bytes" * 100)}
names = ["zlib", "gzip", "bz2", "lzma", "xz"]
forms = [0, False, True, 1, 3, 9] + names + [(n, l) for n in names for l in (0, 1, 9)] 
exts = ["", ".pkl", ".z", ".gz", ".bz2", ".lzma", ".xz"]
d = tempfile.mkdtemp(); bad = 0; n = 0; seen = {}
for comp in forms:
    for proto in (0, 2, 5, None):
        for ext in exts + ["<fileobj>", "<bytesio>"]:
            n += 1
            try:
                if ext == "<bytesio>":
                    b = io.BytesIO(); joblib.dump(obj, b, compress=comp, protocol=proto); data = b.getvalue(); r = joblib.load(io.BytesIO(data))
                elif ext == "<fileobj>":
                    fn = os.path.join(d, "fo"); 
                    with open(fn, "wb") as f: joblib.dump(obj, f, compress=comp, protocol=proto)
                    data = open(fn, "rb").read()
                    with open(fn, "rb") as f: r = joblib.load(f)
                else:
                    fn = os.path.join(d, "f" + ext); joblib.dump(obj, fn, compress=comp, protocol=proto); data = open(fn, "rb").read()
                    other = os.path.join(d, "renamed.bin"); os.replace(fn, other); r = joblib.load(other)
                det = _detect_compressor(io.BytesIO(data))
                seen[(repr(comp), ext)] = det
                if r != obj: bad += 1; print("MISMATCH", comp, proto, ext)
            except Exception as e:
                seen[(repr(comp), ext)] = "EXC " + type(e).__name__
print("cases", n, "bad", bad)
import collections
for ext in ["", ".gz", "<bytesio>"]:
    print(ext or "(no ext)", {c: v for (c, e), v in seen.items() if e == ext})
