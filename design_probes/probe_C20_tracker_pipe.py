import os, subprocess, sys, time, tempfile
d = tempfile.mkdtemp(prefix="trk")
r, w = os.pipe()
p = subprocess.Popen([sys.executable, "-c", f"from joblib.externals.loky.backend.resource_tracker import main; main({r}, 0)"], pass_fds=[r], stderr=subprocess.PIPE)
os.close(r)
def send(cmd, name, rtype): os.write(w, f"{cmd}:{name}:{rtype}\n".encode())
n = [0]
def sync():
    n[0] += 1; s = os.path.join(d, f"sync{n[0]}"); open(s, "w").close()
    send("REGISTER", s, "file"); send("MAYBE_UNLINK", s, "file")
    t0 = time.time()
    while os.path.exists(s):
        assert time.time() - t0 < 5; time.sleep(0.001)
a = os.path.join(d, "a"); open(a, "w").close(); b = os.path.join(d, "b"); open(b, "w").close()
fo = os.path.join(d, "fo"); os.mkdir(fo); open(os.path.join(fo, "inner"), "w").close()
log = []
def st(tag): sync(); log.append((tag, os.path.exists(a), os.path.exists(b), os.path.exists(fo)))
send("REGISTER", a, "file"); send("REGISTER", a, "file"); st("a x2")
send("MAYBE_UNLINK", a, "file"); st("a -1")
send("MAYBE_UNLINK", b, "file"); st("unbalanced b")
os.write(w, b"garbage\n"); os.write(w, b"\xff\xfe:x:file\n"); send("FOO", a, "file"); send("REGISTER", a, "nosuchtype"); st("malformed")
send("MAYBE_UNLINK", a, "file"); st("a -1 -> 0")
send("REGISTER", b, "file"); send("REGISTER", fo, "folder"); st("b, fo registered")
os.close(w); p.wait(5); log.append(("EOF", os.path.exists(a), os.path.exists(b), os.path.exists(fo)))
for l in log: print(l)
print("tracker exit", p.returncode, "stderr lines", len(p.stderr.read().splitlines()))
