import threading
from joblib import Parallel, delayed
from joblib._parallel_backends import ParallelBackendBase
pulled = []
class Ctl(ParallelBackendBase):
    supports_retrieve_callback = True
    uses_threads = True
    supports_sharedmem = True
    def __init__(self, **kw):
        super().__init__(**kw); self.pending = []; self.n = 0
    def effective_n_jobs(self, n_jobs): return 2
    def configure(self, n_jobs=1, parallel=None, **kw):
        self.parallel = parallel; return 2
    def compute_batch_size(self):
        self.n += 1
        if self.n == 3:
            # main thread has passed `if self._aborting` and not yet taken the lock
            func, cb, ids = self.pending.pop(0)
            t = threading.Thread(target=lambda: cb(ValueError("task failed"))); t.start(); t.join()
            pulled.append("--- failure registered: _aborting=%s ---" % self.parallel._aborting)
        return 1
    def submit(self, func, callback=None):
        self.pending.append((func, callback, None)); return object()
    def retrieve_result_callback(self, out):
        if isinstance(out, Exception): raise out
        return out
def src():
    for i in range(10):
        pulled.append(i); yield delayed(abs)(i)
p = Parallel(n_jobs=2, backend=Ctl(nesting_level=0), pre_dispatch=8)
try:
    p(src())
except ValueError as e:
    print("raised", e)
print(pulled)
