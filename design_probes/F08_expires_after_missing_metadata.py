import os, shutil, sys, glob, warnings
from joblib import Memory, expires_after
loc = "/tmp/w/cache1"
shutil.rmtree(loc, ignore_errors=True)
def f(x):
    return x * 2
m = Memory(loc, verbose=0)
cf = m.cache(f, cache_validation_callback=expires_after(days=1))
print(cf(3))
# simulate crash between output.pkl rename and metadata.json rename
md = glob.glob(loc + "/joblib/**/metadata.json", recursive=True)
print(md)
os.remove(md[0])
try:
    print("after metadata loss:", cf(3))
except Exception as e:
    print("EXC after metadata loss:", type(e).__name__, e)
# torn func_code.py
cf(3)
fc = glob.glob(loc + "/joblib/**/func_code.py", recursive=True)[0]
data = open(fc, "rb").read()
for k in (0, 5, 13, 14, 15, 16, 20):
    open(fc, "wb").write(data[:k])
    import joblib.memory as jm
    jm._FUNCTION_HASHES.clear()
    cf2 = Memory(loc, verbose=0).cache(f)
    try:
        r = cf2(3)
        print("torn", k, repr(data[:k]), "->", r)
    except Exception as e:
        print("torn", k, repr(data[:k]), "-> EXC", type(e).__name__, e)
