import sys, threading, shutil, inspect, warnings
from joblib import Memory
import joblib.disk as jd
warnings.simplefilter("ignore")
loc = "/tmp/w/cache_c11b"; shutil.rmtree(loc, ignore_errors=True)
mem = Memory(loc, verbose=0)
def f(x): return x + 1
mem.cache(f)(1)
code = jd.delete_folder.__code__
src, first = inspect.getsourcelines(jd.delete_folder)
target = first + next(i for i, l in enumerate(src) if "files = os.listdir" in l)
mon = sys.monitoring; TOOL = mon.DEBUGGER_ID; mon.use_tool_id(TOOL, "c11b")
gate = threading.Event(); reached = threading.Event(); armed = [True]
def on_line(c, line):
    if c is code and line == target and armed[0] and threading.current_thread().name == "A":
        armed[0] = False; reached.set(); gate.wait()
mon.register_callback(TOOL, mon.events.LINE, on_line); mon.set_local_events(TOOL, code, mon.events.LINE)
res = []
def a():
    try: Memory(loc, verbose=0).clear(warn=False); res.append("A returned")
    except BaseException as e: res.append(("A raised", type(e).__name__, str(e)[:80]))
t = threading.Thread(target=a, name="A"); t.start(); reached.wait(5)
print("[sched] user A parked between isdir() and listdir() inside delete_folder; user B clears the same cache")
Memory(loc, verbose=0).clear(warn=False)
gate.set(); t.join(5); print(res)
