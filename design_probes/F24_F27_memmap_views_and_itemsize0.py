"""F24-F27 (C19): run with `PYTHONPATH=/repo python3-vt F24_F27_memmap_views_and_itemsize0.py <case>` (numpy 2.x);
each case in its own process because F25 can die of SIGSEGV.  cases: f24 f25 f26 f27"""
import io, os, sys, tempfile, warnings
import numpy as np, joblib
from joblib import Parallel, delayed
from joblib._memmapping_reducer import _get_backing_memmap, _reduce_memmap_backed
warnings.simplefilter("ignore")
d = tempfile.mkdtemp()
def rebuilt(a):
    cons, args = _reduce_memmap_backed(a, _get_backing_memmap(a)); print("  reducer args", args[3:8]); return cons(*args)
def seen(x): return x.tolist()
case = sys.argv[1] if len(sys.argv) > 1 else "f24"
X = np.arange(48, dtype="i8").reshape(6, 8); joblib.dump(X, os.path.join(d, "X.pkl"))
M = joblib.load(os.path.join(d, "X.pkl"), mmap_mode="r")
if case == "f24":   # contiguous transposed view: wrong values in the tasks, silently
    for backend in ("loky", "multiprocessing", "threading"):
        out = Parallel(n_jobs=2, backend=backend)(delayed(seen)(M.T) for _ in range(2))
        print(backend, "tasks saw M.T correctly:", out == [M.T.tolist()] * 2, "first row seen:", out[0][0])
elif case == "f25":  # negative stride: reads before the mapping
    a = M[3][::-1]; r = rebuilt(a); print("M[3][::-1]  original", a.tolist(), "rebuilt", np.asarray(r).tolist())
    print("now M[::-1] (usually SIGSEGV):"); r = rebuilt(M[::-1]); print(np.array_equal(r, M[::-1]))
elif case == "f26":  # field view: extent floored to whole items
    dt = np.dtype([("a", "<i8"), ("b", "<i4")]); fn = os.path.join(d, "rec.bin")
    m = np.memmap(fn, dtype=dt, mode="w+", shape=(342,)); m["a"] = np.arange(342) + 1000; m.flush()
    m = np.memmap(fn, dtype=dt, mode="r", shape=(342,)); a = m["a"]; r = rebuilt(a)
    print("last element original", a[-1], "rebuilt", r[-1])
else:               # itemsize-0 dtypes cannot be dumped
    for a in (np.empty(3, dtype="V0"), np.zeros(3, dtype=np.dtype([]))):
        try: joblib.dump(a, io.BytesIO()); print(a.dtype, "ok")
        except Exception as e: print(repr(a.dtype), type(e).__name__, e)
