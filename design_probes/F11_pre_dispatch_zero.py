from joblib import Parallel, delayed
for pd in [0, "0*n_jobs", "0.4*n_jobs", 1, -1]:
    try:
        print(pd, Parallel(n_jobs=2, backend="threading", pre_dispatch=pd)(delayed(abs)(-i) for i in range(5)))
    except Exception as e:
        print(pd, "EXC", type(e).__name__, e)
