import shutil
from joblib import Memory
loc = "/tmp/w/cache3"
shutil.rmtree(loc, ignore_errors=True)
m = Memory(loc, verbose=0)
def f(x):
    return ("v1", x)
f1 = f
c1 = m.cache(f1)
def f(x):
    return ("v2", x)
f2 = f
c2 = m.cache(f2)
import warnings; warnings.simplefilter("ignore")
print(c1(1), c2(1), c1(1), c2(1), c1(1))
