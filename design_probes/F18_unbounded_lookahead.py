import threading, sys
from joblib import Parallel, delayed
from joblib._parallel_backends import ParallelBackendBase
N = int(sys.argv[1]); NJ = int(sys.argv[2]); PD = sys.argv[3]
PD = int(PD) if PD.isdigit() else PD
taken = [0]; completed = [0]; hw = [0]
main = threading.current_thread()
class Ctl(ParallelBackendBase):
    supports_retrieve_callback = True
    uses_threads = True
    supports_sharedmem = True
    def __init__(self, **kw):
        super().__init__(**kw); self.pending = []
    def effective_n_jobs(self, n_jobs): return NJ
    def configure(self, n_jobs=1, parallel=None, **kw):
        self.parallel = parallel; return NJ
    def compute_batch_size(self):
        # schedule point outside the lock: exactly one parked batch completes between two dispatches of the caller
        if threading.current_thread() is main and self.pending:
            func, cb = self.pending.pop(0)
            def run():
                r = func(); completed[0] += len(r); cb(r)
            t = threading.Thread(target=run); t.start(); t.join()
        return 1
    def submit(self, func, callback=None):
        self.pending.append((func, callback)); return object()
    def retrieve_result_callback(self, out): return out
def src():
    for i in range(N):
        taken[0] += 1; hw[0] = max(hw[0], taken[0] - completed[0]); yield delayed(abs)(-i)
be = Ctl(nesting_level=0)
p = Parallel(n_jobs=NJ, backend=be, pre_dispatch=PD, return_as="generator")
g = p(src())
print("N=%d n_jobs=%d pre_dispatch=%r: after the call returned the generator: taken=%d completed=%d parked=%d  high-water(taken-completed)=%d" % (N, NJ, PD, taken[0], completed[0], len(be.pending), hw[0]))
