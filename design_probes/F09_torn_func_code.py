import os, shutil, sys, glob, warnings
from joblib import Memory
import joblib.memory as jm
loc = "/tmp/w/cache2"
shutil.rmtree(loc, ignore_errors=True)
def f(x):
    return x * 2
m = Memory(loc, verbose=0)
cf = m.cache(f)
cf(3)
fc = glob.glob(loc + "/joblib/**/func_code.py", recursive=True)[0]
data = open(fc, "rb").read()
print(repr(data))
for k in (0, 5, 13, 14, 15, 16, 20):
    open(fc, "wb").write(data[:k])
    jm._FUNCTION_HASHES.clear()
    cf2 = Memory(loc, verbose=0).cache(f)
    try:
        r = cf2(3)
        print("torn", k, repr(data[:k]), "->", r)
    except Exception as e:
        print("torn", k, repr(data[:k]), "-> EXC", type(e).__name__, e)
    open(fc, "wb").write(data)
