import datetime, itertools, random
from joblib._store_backends import StoreBackendMixin, CacheItemInfo
class S(StoreBackendMixin):
    def __init__(self, items): self._items = items
    def get_items(self): return list(self._items)
random.seed(0)
now = datetime.datetime.now()
bad = 0
for t in range(20000):
    n = random.randint(0, 6)
    items = [CacheItemInfo("p%d" % i, random.choice([0, 1, 5, 10, 1000]), now - datetime.timedelta(seconds=random.choice([10, 10, 20, 30, 100, 5000]))) for i in range(n)]
    bl = random.choice([None, 0, 1, 5, 10, 15, 1000, 2000, "1K"])
    il = random.choice([None, 0, 1, 2, 3, 10])
    al = random.choice([None, 0, 15, 50, 10000])
    al = None if al is None else datetime.timedelta(seconds=al)
    s = S(items)
    dele = s._get_items_to_delete(bl, il, al)
    blv = 1024 if bl == "1K" else bl
    # spec: shortest prefix of items sorted by last_access (stable) s.t. remaining satisfy limits
    srt = sorted(items, key=lambda i: i.last_access)
    dl = None if al is None else datetime.datetime.now() - al
    def ok(rem):
        return (blv is None or sum(i.size for i in rem) <= blv) and (il is None or len(rem) <= il) and (dl is None or all(i.last_access > dl for i in rem))
    k = next(k for k in range(len(srt)+1) if ok(srt[k:]))
    # deleted set must be an LRU prefix of same length (ties may permute)
    if len(dele) != k or sorted(x.last_access for x in dele) != [x.last_access for x in srt[:k]] or not ok([i for i in items if i not in dele] if len(set(items))==len(items) else srt[k:]):
        bad += 1
        if bad < 5: print("MISMATCH", items, bl, il, al, [d.path for d in dele], k)
print("bad", bad)
