"""F12 (C08): the md5 fallback replaces unorderable keys by their digests -> structural collision."""
import joblib
a = {1: 'x', 'a': 'y'}
b = {joblib.hash(1): 'x', joblib.hash('a'): 'y'}
print(joblib.hash(a) == joblib.hash(b), joblib.hash(a))
s = {1, 'a'}; t = {joblib.hash(1), joblib.hash('a')}
print(joblib.hash(s) == joblib.hash(t))
