import threading, time, queue
from joblib import Parallel, delayed, register_parallel_backend
from joblib._parallel_backends import ParallelBackendBase

class Ctl(ParallelBackendBase):
    supports_retrieve_callback = True
    uses_threads = True
    supports_sharedmem = True
    def __init__(self, **kw):
        super().__init__(**kw)
        self.events = []
        self.pending = []
        self.bs = iter([1,2,2,3,1,1,1,1,1,1,1,1,1,1,1,1,1,1,1])
    def effective_n_jobs(self, n_jobs): return 3
    def configure(self, n_jobs=1, parallel=None, **kw):
        self.parallel = parallel; return 3
    def compute_batch_size(self):
        return next(self.bs)
    def submit(self, func, callback=None):
        ids = [a[0] for (_, a, _) in func.items]
        self.events.append(("submit", ids, threading.current_thread().name))
        self.pending.append((func, callback, ids))
        return object()
    def retrieve_result_callback(self, out):
        if isinstance(out, Exception): raise out
        return out
register_parallel_backend("ctl", Ctl)
be = Ctl(nesting_level=0)
p = Parallel(n_jobs=3, backend=be, pre_dispatch=4, return_as="generator")
def f(i): return i*10
def src():
    for i in range(12):
        be.events.append(("pull", i, threading.current_thread().name))
        yield delayed(f)(i)
g = p(src())
print(be.events); be.events.clear()
def complete(k):
    func, cb, ids = be.pending.pop(k)
    res = func()
    t = threading.Thread(target=cb, args=(res,), name="cb%s" % ids)
    t.start(); t.join()
complete(1)   # complete second batch first
print(be.events); be.events.clear()
complete(0)
print(be.events); be.events.clear()
print(next(g), next(g))
while be.pending:
    complete(len(be.pending)-1)
print(list(g))
print(be.events)
