import io, random, zlib
from joblib.compressor import BinaryZlibFile, BinaryGzipFile
random.seed(1)
def run(payload, ops, cls):
    raw = io.BytesIO()
    w = cls(raw, "wb", compresslevel=random.randint(1,9))
    i = 0
    while i < len(payload):
        n = random.choice([1, 7, 100, 8191, 8192, 8193, 20000]); w.write(payload[i:i+n]); i += n
    w.close()
    comp = raw.getvalue()
    f = cls(io.BytesIO(comp), "rb"); ref = io.BytesIO(payload)
    for op in ops:
        kind = op[0]
        if kind == "read":
            a, b = f.read(op[1]), ref.read(op[1])
        elif kind == "readall":
            a, b = f.read(), ref.read()
        elif kind == "readline":
            a, b = f.readline(), ref.readline()
        elif kind == "readinto":
            ba, bb = bytearray(op[1]), bytearray(op[1]); na, nb = f.readinto(ba), ref.readinto(bb); a, b = (na, bytes(ba[:na])), (nb, bytes(bb[:nb]))
        elif kind == "tell":
            a, b = f.tell(), ref.tell()
        elif kind == "seek":
            off, wh = op[1], op[2]
            # target absolute
            cur = ref.tell(); L = len(payload)
            tgt = off if wh == 0 else cur + off if wh == 1 else L + off
            if tgt < 0: continue
            a = f.seek(off, wh); b = min(tgt, L); ref.seek(b)
        if a != b:
            return op, a if not isinstance(a, bytes) else len(a), b if not isinstance(b, bytes) else len(b)
    return None
bad = 0
for trial in range(400):
    L = random.choice([0, 1, 10, 8191, 8192, 8193, 16384, 30000])
    payload = bytes(random.choice([0, 10, 65, random.randrange(256)]) for _ in range(L)) if random.random()<0.5 else random.randbytes(L)
    ops = []
    for _ in range(random.randint(1, 25)):
        k = random.choice(["read","read","readall","readline","readinto","tell","seek","seek"])
        if k in ("read","readinto"): ops.append((k, random.choice([0,1,5,100,8191,8192,8193,40000])))
        elif k == "seek": ops.append((k, random.choice([-40000,-8193,-100,-1,0,1,100,8192,40000]), random.choice([0,1,2])))
        else: ops.append((k,))
    for cls in (BinaryZlibFile, BinaryGzipFile):
        r = run(payload, ops, cls)
        if r: bad += 1; print("MISMATCH", cls.__name__, L, r, ops[:ops.index(r[0])+1][-4:]); break
    if bad > 5: break
print("bad", bad)
