import joblib, sys
vals = {
 "fs_str": frozenset(["a","b","c","d"]),
 "set_str": {"a","b","c","d"},
 "set_mixed": {1, "a"},
 "dict_mixed": {1: "x", "a": "y"},
 "fs_int_a": frozenset([0, 8]),
 "fs_int_b": frozenset([8, 0]),
 "set_mixed2": {1.0, "a"},
 "set_of_fs": {frozenset([1]), frozenset([2])},
 "set_of_fs_r": {frozenset([2]), frozenset([1])},
}
for k, v in vals.items():
    print(k, joblib.hash(v))
