from joblib.func_inspect import filter_args
import inspect
def show(f, *a, **k):
    try:
        r = filter_args(f, [], a, k)
    except Exception as e:
        r = ("EXC", type(e).__name__, str(e)[:60])
    ba = inspect.signature(f).bind(*a, **k); ba.apply_defaults()
    print(f.__name__, inspect.signature(f), a, k, "->", r, "| python:", dict(ba.arguments))
def f1(a, /, b): pass
def f2(a, /): pass
def f3(a=10, b=11, *, c, d=20): pass
def f4(a, *args, k=0): pass
def f5(a, *, b=1, c): pass
def f6(*args, **kw): pass
def f7(a, b=2, *args, c, d=4, **kw): pass
show(f1, 1, 2); show(f1, 1, b=3)
show(f2, 1); show(f2, 2)
show(f3, 1, c=0); show(f3, 1, 10, c=0)
show(f4, 1, 2, 3); show(f4, 1)
show(f5, 0, c=5)
show(f6, 1, 2, x=3)
show(f7, 1, c=3); show(f7, 1, 2, 3, 4, c=3, z=9)
