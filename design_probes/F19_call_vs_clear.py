import sys, threading, shutil, inspect, warnings
from joblib import Memory
from joblib._store_backends import StoreBackendMixin
warnings.simplefilter("ignore")
loc = "/tmp/w/cache_c11"; shutil.rmtree(loc, ignore_errors=True)
mem = Memory(loc, verbose=0)
def f(x): return x + 1
cf = mem.cache(f)
code = StoreBackendMixin.store_cached_func_code.__code__
src, first = inspect.getsourcelines(StoreBackendMixin.store_cached_func_code)
target = first + next(i for i, l in enumerate(src) if "_open_item(filename" in l)
mon = sys.monitoring; TOOL = mon.DEBUGGER_ID; mon.use_tool_id(TOOL, "c11")
gate = threading.Event(); reached = threading.Event(); armed = [False]
def on_line(c, line):
    if c is code and line == target and armed[0] and threading.current_thread().name == "caller":
        armed[0] = False; reached.set(); gate.wait()
mon.register_callback(TOOL, mon.events.LINE, on_line); mon.set_local_events(TOOL, code, mon.events.LINE)
res = []
def caller():
    try: res.append(("returned", cf(1)))
    except BaseException as e: res.append(("raised", type(e).__name__, str(e)[:90]))
armed[0] = True
t = threading.Thread(target=caller, name="caller"); t.start()
reached.wait(5)
print("[sched] caller parked after `exists(func_path)` and before `open(func_code.py,'wb')`; another user now calls Memory.clear()")
Memory(loc, verbose=0).clear(warn=False)
gate.set(); t.join(5)
print("caller outcome (expected: returned 2):", res)
