import time, threading
from joblib import Parallel, delayed
def f(i):
    if i == 3:
        raise ValueError("boom")
    time.sleep(0.05)
    return i
p = Parallel(n_jobs=3, backend="threading", batch_size=2, pre_dispatch=2)
try:
    p(delayed(f)(i) for i in range(40))
except ValueError as e:
    print("raised", e)
print("ready leftover:", p._ready_batches.qsize())
def g(i): return 100+i
print(p(delayed(g)(i) for i in range(5)))
