"""Side finding (NOT one of the seeded changes): C02 is already violated on the
CLEAN pinned tree for an argument that holds something pickle rejects with a
TypeError (a lock, a generator, a socket...).

Hasher._batch_setitems wraps the WHOLE of Pickler._batch_setitems in
``try: ... except TypeError:`` -- meant for unorderable keys, but it also
catches the TypeError raised while saving a VALUE.  The retry at the level of
the argument dict finds the instance already in the Pickler memo (save_reduce
memoizes the object before saving its state) and emits a memo GET, so
hashing "succeeds" on a stream that stops at the attribute that failed: the
attributes that sort after it are not part of the digest.

joblib.hash(obj) alone raises; joblib.hash({"src": obj}) -- the form Memory
uses -- does not.

Run: cd /tmp/seed4-C02 && PYTHONPATH=/tmp/seed4-C02 /venv/bin/python <this file>
Exits 1 (wrong value) on the clean tree.
"""

import shutil
import sys
import tempfile
import threading

import joblib
from joblib import Memory


class Source(object):
    def __init__(self, start):
        self.guard = threading.Lock()  # sorts before 'start'
        self.start = start


def read(src, n=2):
    return [src.start + i for i in range(n)]


def main():
    for src in (Source(0), Source(1000)):
        try:
            print("joblib.hash(src)          ->", joblib.hash(src))
        except TypeError as exc:
            print("joblib.hash(src)          -> TypeError:", exc)
        print("joblib.hash({'src': src}) ->", joblib.hash({"src": src}))
    location = tempfile.mkdtemp(prefix="seed4-C02-pre-")
    try:
        cached = Memory(location, verbose=0).cache(read)
        first = cached(Source(0))
        second = cached(Source(1000))
        expected = read(Source(1000))
        print("cached(Source(0))    ->", first)
        print("cached(Source(1000)) ->", second, "expected", expected)
        return 0 if second == expected else 1
    finally:
        shutil.rmtree(location, ignore_errors=True)


if __name__ == "__main__":
    sys.exit(main())
