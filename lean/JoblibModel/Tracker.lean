/-
Model of the command loop of `resource_tracker.main(fd)`
(joblib/externals/loky/backend/resource_tracker.py) — property C20.

Python → Lean:
* a byte / an ASCII code point          : `Nat` (a byte ≥ 128 is what makes `.decode("ascii")` fail)
* `line = f.readline()`                 : `Line` = the raw bytes of one line, with or without the final `\n`
                                          (the last line before EOF may lack it — `readline` returns it all the same)
* `line.strip()`                        : `strip` (ASCII whitespace `b" \t\n\r\x0b\f"` at both ends)
* `.decode("ascii")`                    : `decodeAscii` (`none` = `UnicodeDecodeError`)
* `.split(":")`                         : `fields` (never empty, as in Python)
* `cmd, name, rtype = splitted[0], ":".join(splitted[1:-1]), splitted[-1]` : `parse`
* `_CLEANUP_FUNCS.keys()`               : `rtypes` = folder, file, semlock, in that (dict) order — posix
* `registry = {rtype: {} …}`            : `Registry`, one association list `name ↦ count` per resource type, kept in
                                          dict insertion order (a new key goes to the end, `d[k] = v` on an old key
                                          keeps its place, `del` removes it); distinct keys: `Registry.Distinct`,
                                          proved invariant in `JoblibProofs/Lemmas/Tracker.lean`
* reference counts                      : `Int` (Python ints; `-= 1` is not truncated — that counts stay ≥ 1 is
                                          the theorem `C20.counts_positive`, not an assumption of the model)
* `_CLEANUP_FUNCS[rtype](name)`         : `Action.cleanup rtype name` (what it does on disk is the OS's business;
                                          when it raises the code only warns — the registry is not affected)
* `except BaseException: sys.excepthook(*sys.exc_info())` : `Action.report kind`; the loop goes on
* the `while True` loop                 : `run` (fold of `step` over the lines); `line == b""` (EOF) = end of the list
* the `finally:` clean-up               : `finish` (`_unlink_resources` per type: the "leaked" warning when the
                                          type's registry is not empty, then one clean-up per name in dict order;
                                          every type except "folder" in `registry.items()` order, then "folder")
* `verbose` / `util.debug`              : not modelled (off by default)
Import-free, total, computable.
-/
namespace JoblibModel.Tracker

abbrev Line := List Nat
/-- A decoded `str` restricted to ASCII: its code points. -/
abbrev Name := List Nat

inductive RType where
  | folder | file | semlock
deriving DecidableEq, Repr, Inhabited

/-- `_CLEANUP_FUNCS.keys()`: `{"folder": …, "file": …}` then `["semlock"]` added on posix. -/
def rtypes : List RType := [.folder, .file, .semlock]

/-- `"folder"`, `"file"`, `"semlock"` as code points. -/
def RType.str : RType → Name
  | .folder => [102, 111, 108, 100, 101, 114]
  | .file => [102, 105, 108, 101]
  | .semlock => [115, 101, 109, 108, 111, 99, 107]

/-- `rtype in _CLEANUP_FUNCS` together with the key found. -/
def rtypeOf (s : Name) : Option RType :=
  if s = RType.str .folder then some .folder
  else if s = RType.str .file then some .file
  else if s = RType.str .semlock then some .semlock
  else none

def sPROBE : Name := [80, 82, 79, 66, 69]
def sREGISTER : Name := [82, 69, 71, 73, 83, 84, 69, 82]
def sUNREGISTER : Name := [85, 78, 82, 69, 71, 73, 83, 84, 69, 82]
def sMAYBE_UNLINK : Name := [77, 65, 89, 66, 69, 95, 85, 78, 76, 73, 78, 75]

inductive ErrKind where
  | unicodeDecodeError   -- `.decode("ascii")`
  | valueError           -- unknown resource type
  | runtimeError         -- unrecognized command
  | keyError             -- `del registry[rtype][name]` / `registry[rtype][name] -= 1` on a missing name
deriving DecidableEq, Repr

inductive Action where
  /-- `_CLEANUP_FUNCS[rtype](name)` is called. -/
  | cleanup (rtype : RType) (name : Name)
  /-- An exception reached `except BaseException` and was handed to `sys.excepthook`. -/
  | report (e : ErrKind)
  /-- "There appear to be `n` leaked `rtype` objects to clean up at shutdown". -/
  | leakWarning (rtype : RType) (n : Nat)
deriving DecidableEq, Repr

/-! ### bytes → (cmd, name, rtype) -/

/-- `bytes.strip()` strips `b" \t\n\r\x0b\x0c"`. -/
def isSpace (b : Nat) : Bool :=
  b == 32 || b == 9 || b == 10 || b == 13 || b == 11 || b == 12

def strip (l : Line) : Line :=
  ((l.dropWhile isSpace).reverse.dropWhile isSpace).reverse

def decodeAscii (l : Line) : Option Name :=
  if l.all (fun b => decide (b < 128)) then some l else none

/-- `s.split(":")` as (first field, remaining fields). -/
def splitColon : Name → Name × List Name
  | [] => ([], [])
  | c :: r =>
    let p := splitColon r
    if c = 58 then ([], p.1 :: p.2) else (c :: p.1, p.2)

/-- `s.split(":")`; never empty. -/
def fields (s : Name) : List Name := (splitColon s).1 :: (splitColon s).2

/-- `":".join(l)`. -/
def joinColon : List Name → Name
  | [] => []
  | [x] => x
  | x :: y :: r => x ++ 58 :: joinColon (y :: r)

/-- `splitted[-1]` of a non-empty list given as head and tail. -/
def lastField (h : Name) : List Name → Name
  | [] => h
  | x :: r => lastField x r

/-- `(splitted[0], ":".join(splitted[1:-1]), splitted[-1])`, or `none` for `UnicodeDecodeError`. -/
def parse (line : Line) : Option (Name × Name × Name) :=
  match decodeAscii (strip line) with
  | none => none
  | some s =>
    let p := splitColon s
    some (p.1, joinColon p.2.dropLast, lastField p.1 p.2)

inductive Cmd where
  | register | unregister | maybeUnlink
deriving DecidableEq, Repr

/-- The outcome of the part of the loop body that precedes any access to `registry`, in the code's order:
decode, `cmd == "PROBE"`, `rtype not in _CLEANUP_FUNCS`, then the `if/elif` chain on `cmd`. -/
inductive Parsed where
  | undecodable
  | probe
  | unknownType (cmd name rtype : Name)
  | unknownCmd (cmd name : Name) (rt : RType)
  | req (c : Cmd) (rt : RType) (name : Name)
deriving DecidableEq, Repr

def classify (line : Line) : Parsed :=
  match parse line with
  | none => .undecodable
  | some (cmd, name, rtype) =>
    if cmd = sPROBE then .probe
    else match rtypeOf rtype with
      | none => .unknownType cmd name rtype
      | some rt =>
        if cmd = sREGISTER then .req .register rt name
        else if cmd = sUNREGISTER then .req .unregister rt name
        else if cmd = sMAYBE_UNLINK then .req .maybeUnlink rt name
        else .unknownCmd cmd name rt

/-! ### the registry -/

/-- `registry[rtype]`: name ↦ count, in dict order. -/
abbrev RTypeRegistry := List (Name × Int)

/-- `d.get(name)`. -/
def lookup : RTypeRegistry → Name → Option Int
  | [], _ => none
  | (k, v) :: r, n => if k = n then some v else lookup r n

/-- `d[name] = v`: an existing key keeps its position, a new key is appended. -/
def setItem : RTypeRegistry → Name → Int → RTypeRegistry
  | [], n, v => [(n, v)]
  | (k, c) :: r, n, v => if k = n then (k, v) :: r else (k, c) :: setItem r n v

/-- `del d[name]` (the caller has checked that the key is there). -/
def delItem : RTypeRegistry → Name → RTypeRegistry
  | [], _ => []
  | (k, c) :: r, n => if k = n then r else (k, c) :: delItem r n

structure Registry where
  folder : RTypeRegistry
  file : RTypeRegistry
  semlock : RTypeRegistry
deriving DecidableEq, Repr

/-- `{rtype: {} for rtype in _CLEANUP_FUNCS.keys()}`. -/
def Registry.empty : Registry := ⟨[], [], []⟩

def Registry.get (r : Registry) : RType → RTypeRegistry
  | .folder => r.folder
  | .file => r.file
  | .semlock => r.semlock

def Registry.set (r : Registry) (t : RType) (d : RTypeRegistry) : Registry :=
  match t with
  | .folder => { r with folder := d }
  | .file => { r with file := d }
  | .semlock => { r with semlock := d }

/-- The dict invariant: keys of every per-type registry are pairwise distinct. -/
def Registry.Distinct (r : Registry) : Prop :=
  ∀ t, ((r.get t).map Prod.fst).Nodup

/-! ### one iteration of the loop -/

/-- The `if cmd == "REGISTER" … elif … elif …` part, on `registry[rtype]`. -/
def exec (registry : Registry) (c : Cmd) (rt : RType) (name : Name) : Registry × List Action :=
  let d := registry.get rt
  match c with
  | .register =>
    match lookup d name with
    | none => (registry.set rt (setItem d name 1), [])            -- registry[rtype][name] = 1
    | some n => (registry.set rt (setItem d name (n + 1)), [])    -- registry[rtype][name] += 1
  | .unregister =>
    match lookup d name with
    | none => (registry, [.report .keyError])                     -- del …: KeyError
    | some _ => (registry.set rt (delItem d name), [])            -- del registry[rtype][name]
  | .maybeUnlink =>
    match lookup d name with
    | none => (registry, [.report .keyError])                     -- … -= 1: KeyError
    | some n =>
      let d1 := setItem d name (n - 1)                            -- registry[rtype][name] -= 1
      if n - 1 = 0 then                                           -- if registry[rtype][name] == 0:
        (registry.set rt (delItem d1 name), [.cleanup rt name])   --   del …; _CLEANUP_FUNCS[rtype](name)
      else (registry.set rt d1, [])

/-- One line of the loop: new registry and what the tracker does. -/
def step (registry : Registry) (line : Line) : Registry × List Action :=
  match classify line with
  | .undecodable => (registry, [.report .unicodeDecodeError])
  | .probe => (registry, [])                                      -- continue
  | .unknownType _ _ _ => (registry, [.report .valueError])
  | .unknownCmd _ _ _ => (registry, [.report .runtimeError])
  | .req c rt name => exec registry c rt name

/-- The `while True:` loop over the lines read before EOF. -/
def run (registry : Registry) : List Line → Registry × List Action
  | [] => (registry, [])
  | l :: ls =>
    let s := step registry l
    let r := run s.1 ls
    (r.1, s.2 ++ r.2)

/-! ### abstract specification (what the registry is supposed to implement)

Per (type, name) a natural-number count of users: `REGISTER` adds one, `UNREGISTER` forgets the name, `MAYBE_UNLINK`
takes one away if there is one (a request for a name with no user is the "unbalanced" request: nothing happens).
Nothing else changes it. `netFrom` is the same without the floor at zero: literally "registers minus maybe-unlinks
since the last unregister"; the two agree on balanced histories (`C20.refcount_balanced`). -/

def absStep (rt : RType) (name : Name) (n : Nat) (line : Line) : Nat :=
  match classify line with
  | .req c rt' name' =>
    if rt' = rt ∧ name' = name then
      match c with
      | .register => n + 1
      | .unregister => 0
      | .maybeUnlink => n - 1
    else n
  | _ => n

def absCountFrom (rt : RType) (name : Name) (n : Nat) : List Line → Nat
  | [] => n
  | l :: ls => absCountFrom rt name (absStep rt name n l) ls

/-- Number of users of `(rt, name)` after the tracker has read `lines` from a fresh start. -/
def absCount (rt : RType) (name : Name) (lines : List Line) : Nat := absCountFrom rt name 0 lines

/-- "registers minus maybe-unlinks since the last unregister", starting from `n`, no floor. -/
def netFrom (rt : RType) (name : Name) (n : Int) : List Line → Int
  | [] => n
  | l :: ls =>
    netFrom rt name
      (match classify l with
       | .req c rt' name' =>
         if rt' = rt ∧ name' = name then
           match c with
           | .register => n + 1
           | .unregister => 0
           | .maybeUnlink => n - 1
         else n
       | _ => n) ls

/-- A history is balanced for `(rt, name)` when no `MAYBE_UNLINK` for it arrives while it has no user. -/
def BalancedFrom (rt : RType) (name : Name) (n : Nat) : List Line → Prop
  | [] => True
  | l :: ls =>
    (classify l = .req .maybeUnlink rt name → 0 < n) ∧ BalancedFrom rt name (absStep rt name n l) ls

/-! ### EOF -/

/-- `_unlink_resources(rtype_registry, rtype)`. -/
def unlinkResources (d : RTypeRegistry) (rt : RType) : List Action :=
  (if d.isEmpty then [] else [Action.leakWarning rt d.length]) ++ d.map (fun e => Action.cleanup rt e.1)

/-- The `finally:` block: every type but "folder" in `registry.items()` order, then "folder". -/
def finish (registry : Registry) : List Action :=
  (rtypes.filter (fun rt => decide (rt ≠ .folder))).flatMap (fun rt => unlinkResources (registry.get rt) rt)
  ++ (if RType.folder ∈ rtypes then unlinkResources (registry.get .folder) .folder else [])

/-- The whole process: everything the tracker does for the lines it reads, then the EOF clean-up. -/
def main (lines : List Line) : List Action :=
  let r := run Registry.empty lines
  r.2 ++ finish r.1

end JoblibModel.Tracker
