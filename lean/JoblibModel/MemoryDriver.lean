/-
Line-protocol driver shared by `Driver/C02.lean` and `Driver/C06.lean`: a stateful interpreter of
histories over `JoblibModel.MemoryCache.step` (the definitions the theorems of C02 / C06 are about).

One request per line, one reply per line; anything malformed is answered `bad-op` (never defaulted).

  reset <old|fixed>                       forget everything; model of the pinned tree / of the tree
                                          with the F30 repair of MemorizedFunc.call          → ok
  reset <old|fixed> key-after-call        the same with the VARIANT `Cfg.keyAfterCall` (not the tree's code: a
                                          forced call computes its key after the body ran; used only to validate
                                          that variant against the seeded change C06-r4-m3)   → ok
  mut <slot> <call> | <call>              one row of the EFFECT of the callable of <slot> on its arguments: called
                                          with the first <call> (arguments as passed) the body leaves the second
                                          (same shape: the values the same objects hold afterwards).  Before the
                                          `F` line of the slot; a call without a row is left unchanged.   → ok
  V <id> <value>                          `E.val id := value` (id must be new)              → ok
  H <stream-hex> <32 hex digits>          one row of the digest table                        → ok
  F <slot> <fid> func <sig> <ig>          declare a cached callable in slot <slot>           → ok
  F <slot> <fid> meth <name> <kind> <selfval> <sig> <ig>
  F <slot> <fid> part <sig> <n> v…  <n> (k v)… <ig>
  call   <slot> <cb> <call>               → val <x|h> <stream-hex> <bound arguments> | raise filter <site> | raise bind <kind>
  shelve <slot> <cb> <call>               → ref <x|h> <stream-hex> | raise …
  get    <slot> <call>                    → val h <stream-hex> <…> | raise KeyError | raise filter <site>
  force  <slot> <call>                    → val x <stream-hex> <…> | raise …
  check  <slot> <cb> <call>               → flag <0|1> <stream-hex> | raise filter <site>
  clearfn <slot> | clearall | fresh       → ok
  clearloc <n> fid{n}                     Memory.clear() of ONE of several cache directories: the model's
                                          store is the disjoint union of the directories (function ids are
                                          per directory); this is `clearAll` on that component      → ok
  evict <n> (<fid> <stream-hex>){n}       → ok
  evictops <n> i{n}                       evict the entries of the i-th call/shelve/get/force/check
                                          requests since `reset` (0-based)                    → ok

  <sig>  := <np> (<name> <po|pk|vp|ko|vk> <default value id | ->){np}
  <ig>   := <ni> (<name> | * | **){ni}
  <call> := <na> v{na} <nk> (<name> <v>){nk}          (value ids)
  <cb>   := 0 | 1                                       (answer of the validation callback)
  <value>: prefix notation of Driver/C08 (N T F I<dec> D<16 hex> S<hex> Y<hex> L<n> U<n> E<n> Z<n> M<n>)

Interpretation: `E.val id` = the declared value (`None` for an undeclared id: requests are rejected
before that can matter), `E.name n` = the identifier `p<n>` (the harness names its parameters so);
the digest `H` = the table, and for a stream that is not in the table a tagged copy of the stream
itself (injective; the table only has to hold the digests `Hasher` computes on its fallback path —
the top-level stream is reported and the harness compares `md5(stream)` with the real args id;
`missing-digest` is reported instead when a stand-in digest ended up inside the stream: the model's
stream of some key differs from every stream the implementation hashed).
The cached functions return their non-ignored bound arguments AS PASSED (`R = List (Nat × Val)`), as the
harness' generated functions do (the mutating ones return a snapshot taken before they mutate); an `x` / `h` flag says executed / served from the store.
-/
import JoblibModel.MemoryCache
import JoblibModel.IOUtil
namespace JoblibModel.MemoryDriver
open JoblibModel JoblibModel.FilterArgs JoblibModel.HashStream JoblibModel.MemoryCache JoblibModel.IOUtil

abbrev R := List (Nat × Val)

structure DState where
  vals : List (Nat × PyVal) := []
  htab : List (Bs × Bs) := []
  fns : List (Nat × Fn R) := []
  cfg : Option MemoryCache.Cfg := none
  /-- effect tables: (slot, arguments as passed) ↦ arguments as the body leaves them -/
  muts : List ((Nat × Call) × Call) := []
  store : St R := {}
  /-- entry id of the i-th call-like request (for `evictops`) -/
  opKeys : List (Nat × (Nat × Bs)) := []
  nops : Nat := 0

/-! ## parsing -/

def hexVal (c : Char) : Option Nat :=
  if '0' ≤ c ∧ c ≤ '9' then some (c.toNat - '0'.toNat)
  else if 'a' ≤ c ∧ c ≤ 'f' then some (c.toNat - 'a'.toNat + 10)
  else none

def unhex : List Char → Option (List Nat)
  | [] => some []
  | a :: b :: r => do
    let x ← hexVal a
    let y ← hexVal b
    let rest ← unhex r
    pure ((16 * x + y) :: rest)
  | _ => none

def hexDigit (n : Nat) : Char := Char.ofNat (if n < 10 then 48 + n else 87 + n)

def hexOf (bs : List Nat) : String :=
  String.ofList (bs.foldr (fun b acc => hexDigit (b / 16) :: hexDigit (b % 16) :: acc) [])

def parseCount (s : List Char) : Option Nat := (String.ofList s).toNat?

mutual
def parseVal : Nat → List String → Option (PyVal × List String)
  | 0, _ => none
  | _, [] => none
  | fuel + 1, t :: r =>
    match t.toList with
    | ['N'] => some (.none, r)
    | ['T'] => some (.bool true, r)
    | ['F'] => some (.bool false, r)
    | 'I' :: d => (String.ofList d).toInt?.map fun i => (.int i, r)
    | 'D' :: d => if d.length = 16 then (unhex d).map fun bs => (.float (bs.foldl (fun a b => a * 256 + b) 0), r) else none
    | 'S' :: d => (unhex d).map fun bs => (.str bs, r)
    | 'Y' :: d => (unhex d).map fun bs => (.bytes bs, r)
    | 'L' :: d => do let n ← parseCount d; let (l, r') ← parseMany fuel n r; pure (.list l, r')
    | 'U' :: d => do let n ← parseCount d; let (l, r') ← parseMany fuel n r; pure (.tuple l, r')
    | 'E' :: d => do let n ← parseCount d; let (l, r') ← parseMany fuel n r; pure (.set l, r')
    | 'Z' :: d => do let n ← parseCount d; let (l, r') ← parseMany fuel n r; pure (.frozenset l, r')
    | 'M' :: d => do let n ← parseCount d; let (l, r') ← parseItems fuel n r; pure (.dict l, r')
    | _ => none
def parseMany : Nat → Nat → List String → Option (List PyVal × List String)
  | 0, _, _ => none
  | _, 0, r => some ([], r)
  | fuel + 1, n + 1, r => do
    let (v, r1) ← parseVal fuel r
    let (vs, r2) ← parseMany fuel n r1
    pure (v :: vs, r2)
def parseItems : Nat → Nat → List String → Option (List (PyVal × PyVal) × List String)
  | 0, _, _ => none
  | _, 0, r => some ([], r)
  | fuel + 1, n + 1, r => do
    let (k, r1) ← parseVal fuel r
    let (v, r2) ← parseVal fuel r1
    let (vs, r3) ← parseItems fuel n r2
    pure ((k, v) :: vs, r3)
end

def parseKind : String → Option Kind
  | "po" => some .posOnly | "pk" => some .posKw | "vp" => some .varPos
  | "ko" => some .kwOnly | "vk" => some .varKw | _ => none

def optNat? (s : String) : Option (Option Nat) :=
  if s = "-" then some none else (s.toNat?).map some

def parseN {α : Type} (f : List String → Option (α × List String)) :
    Nat → List String → Option (List α × List String)
  | 0, ts => some ([], ts)
  | n + 1, ts => do
    let (a, ts) ← f ts
    let (as, ts) ← parseN f n ts
    pure (a :: as, ts)

def parseCounted {α : Type} (f : List String → Option (α × List String)) :
    List String → Option (List α × List String)
  | [] => none
  | c :: ts => do
    let n ← c.toNat?
    parseN f n ts

def pParam : List String → Option (Param × List String)
  | a :: b :: c :: ts => do
    let n ← a.toNat?
    let k ← parseKind b
    let d ← optNat? c
    pure (⟨n, k, d⟩, ts)
  | _ => none

def pNat : List String → Option (Nat × List String)
  | a :: ts => do pure (← a.toNat?, ts)
  | _ => none

def pPair : List String → Option ((Nat × Nat) × List String)
  | a :: b :: ts => do pure ((← a.toNat?, ← b.toNat?), ts)
  | _ => none

def pKey : List String → Option (Key × List String)
  | "*" :: ts => some (.star, ts)
  | "**" :: ts => some (.dstar, ts)
  | a :: ts => do pure (.name (← a.toNat?), ts)
  | _ => none

def pEvict : List String → Option ((Nat × Bs) × List String)
  | a :: b :: ts => do pure ((← a.toNat?, ← unhex b.toList), ts)
  | _ => none

def pCall (ts : List String) : Option Call := do
  let (args, ts) ← parseCounted pNat ts
  let (kw, ts) ← parseCounted pPair ts
  if ts ≠ [] then none
  if ¬ decide (CallWF ⟨args, kw⟩) then none
  pure ⟨args, kw⟩

/-- `<call> | <call>` -/
def splitBar : List String → Option (List String × List String)
  | [] => none
  | "|" :: r => some ([], r)
  | t :: r => (splitBar r).map fun p => (t :: p.1, p.2)

def pBool : String → Option Bool
  | "0" => some false
  | "1" => some true
  | _ => none

/-! ## interpretation of the ids -/

def nameBytes (n : Nat) : Bs := asciiBytes ("p" ++ toString n)

def envOf (st : DState) : Env where
  val := fun i => (dget i st.vals).getD .none
  name := nameBytes

/-- The byte 999 cannot occur in a stream: tags the stand-in digest of a stream the table lacks. -/
def digestOf (st : DState) (s : Bs) : Bs :=
  match st.htab.find? (fun p => p.1 == s) with
  | some p => p.2
  | none => 999 :: s

/-- Every value id a callable or call mentions must have been declared. -/
def declared (st : DState) (ids : List Nat) : Bool := ids.all fun i => (dget i st.vals).isSome

def sigIds (s : Sig) : List Nat := s.filterMap (·.default)

def calIds : Callable → List Nat
  | .func s => sigIds s
  | .method _ v s => v :: sigIds s
  | .part s pa pk => sigIds s ++ pa ++ pk.map Prod.snd

def callIds (c : Call) : List Nat := c.args ++ c.kwargs.map Prod.snd

/-- The harness' functions return their bound arguments that are not ignored. -/
def bodyOf (cal : Callable) (ig : List Key) : List (Nat × Val) → R :=
  match cal with
  | .part _ _ _ => fun b => b           -- the ignore list of a partial is not used
  | _ => fun b => b.filter fun e => decide (keyOf cal.sig e.1 ∉ ig)

/-! ## rendering -/

def insertBy {α : Type} (lt : α → α → Bool) (x : α) : List α → List α
  | [] => [x]
  | y :: r => if lt y x then y :: insertBy lt x r else x :: y :: r

def sortBy {α : Type} (lt : α → α → Bool) : List α → List α
  | [] => []
  | x :: r => insertBy lt x (sortBy lt r)

def showVal : Val → String
  | .one v => toString v
  | .seq vs => "[" ++ ",".intercalate (vs.map toString) ++ "]"
  | .map kv => "{" ++ ",".intercalate ((sortBy (fun a b => a.1 < b.1) kv).map
      (fun e => toString e.1 ++ ":" ++ toString e.2)) ++ "}"

def showBound (b : R) : String :=
  joinSp ((sortBy (fun a b => a.1 < b.1) b).map fun e => toString e.1 ++ "=" ++ showVal e.2)

def showErr : Err → String
  | .kwOnlyAsPositional => "raise filter kwOnlyAsPositional"
  | .wrongNumber => "raise filter wrongNumber"
  | .unexpectedKeyword => "raise filter unexpectedKeyword"
  | .ignoreUndefined => "raise filter ignoreUndefined"

def showBindErr : BindErr → String
  | .tooManyPositional => "raise bind tooManyPositional"
  | .multipleValues => "raise bind multipleValues"
  | .missing => "raise bind missing"
  | .unexpectedKeyword => "raise bind unexpectedKeyword"

def xh (executed : Bool) : String := if executed then "x" else "h"

/-- The stream of the call (what the harness compares with the real args id), or empty. -/
def streamHex (st : DState) (fn : Fn R) (c : Call) : String :=
  match argDict fn.cal fn.ig c with
  | .ok d =>
    let s := stream (digestOf st) (envOf st) d
    -- a stand-in digest inside the stream: the model hashed a key whose stream the table lacks
    if s.any (· ≥ 256) then "missing-digest" else hexOf s
  | .error _ => "-"

def showOut (st : DState) (fn : Fn R) (c : Call) : Out R → String
  | .value r x => joinSp ["val", xh x, streamHex st fn c, showBound r]
  | .ref x => joinSp ["ref", xh x, streamHex st fn c]
  | .flag b => joinSp ["flag", if b then "1" else "0", streamHex st fn c]
  | .raisesFilter e => showErr e
  | .raisesBind e => showBindErr e
  | .keyError => "raise KeyError"
  | .done => "ok"

/-! ## requests -/

def wfCal : Callable → Bool
  | .func s => decide (WF s)
  | .method p _ s => decide (WF (p :: s)) && p.positional && p.default.isNone
  | .part s _ pk => decide (WF s) && decide ((pk.map Prod.fst).Nodup)

def pCallable : List String → Option (Callable × List String)
  | "func" :: ts => do
    let (s, ts) ← parseCounted pParam ts
    pure (.func s, ts)
  | "meth" :: a :: b :: c :: ts => do
    let n ← a.toNat?
    let k ← parseKind b
    let v ← c.toNat?
    let (s, ts) ← parseCounted pParam ts
    pure (.method ⟨n, k, none⟩ v s, ts)
  | "part" :: ts => do
    let (s, ts) ← parseCounted pParam ts
    let (pa, ts) ← parseCounted pNat ts
    let (pk, ts) ← parseCounted pPair ts
    pure (.part s pa pk, ts)
  | _ => none

def cfgOf (st : DState) : Cfg := st.cfg.getD ⟨.fixed, false⟩

/-- Run one model operation and render its output. -/
def runOp (st : DState) (fn : Fn R) (c : Call) (op : Op R) : DState × String :=
  let r := MemoryCache.stepC (cfgOf st) (digestOf st) (envOf st) st.store op
  -- the entry the request is about (for `evictops`): the key of the arguments as passed — in the variant, for a forced call, of
  -- the arguments as the body left them
  let kc := match (cfgOf st).keyAfterCall, op with
    | true, .force _ _ => fn.effect c
    | _, _ => c
  let keys := match argsId (digestOf st) (envOf st) fn.cal fn.ig kc with
    | .ok k => (st.nops, (fn.fid, k)) :: st.opKeys
    | .error _ => st.opKeys
  ({ st with store := r.2, opKeys := keys, nops := st.nops + 1 }, showOut st fn c r.1)

def handle (st : DState) (line : String) : DState × String :=
  let bad := (st, "bad-op")
  if st.cfg.isNone ∧ (tokens line).head? ≠ some "reset" then bad else
  match tokens line with
  | ["reset", "old"] => ({ cfg := some ⟨.old, false⟩ }, "ok")
  | ["reset", "fixed"] => ({ cfg := some ⟨.fixed, false⟩ }, "ok")
  | ["reset", "old", "key-after-call"] => ({ cfg := some ⟨.old, true⟩ }, "ok")
  | ["reset", "fixed", "key-after-call"] => ({ cfg := some ⟨.fixed, true⟩ }, "ok")
  | "mut" :: slot :: ts =>
    match slot.toNat?, (splitBar ts).bind fun p => (pCall p.1).bind fun c => (pCall p.2).map fun c' => (c, c') with
    | some sl, some (c, c') =>
      if (dget sl st.fns).isNone && declared st (callIds c) && declared st (callIds c')
          && c.args.length == c'.args.length && c.kwargs.map Prod.fst == c'.kwargs.map Prod.fst
          && (dget (sl, c) st.muts).isNone then
        ({ st with muts := dset (sl, c) c' st.muts }, "ok")
      else bad
    | _, _ => bad
  | "V" :: id :: ts =>
    match id.toNat?, parseVal (2 * ts.length + 2) ts with
    | some i, some (v, []) => if (dget i st.vals).isSome then bad else ({ st with vals := dset i v st.vals }, "ok")
    | _, _ => bad
  | ["H", s, d] =>
    match unhex s.toList with
    | some k => if d.length = 32 then ({ st with htab := (k, d.toList.map Char.toNat) :: st.htab }, "ok") else bad
    | none => bad
  | "F" :: slot :: fid :: ts =>
    match slot.toNat?, fid.toNat?, pCallable ts with
    | some sl, some fi, some (cal, ts) =>
      match parseCounted pKey ts with
      | some (ig, []) =>
        if wfCal cal && declared st (calIds cal) && (dget sl st.fns).isNone then
          ({ st with fns := dset sl ⟨fi, cal, ig, bodyOf cal ig, fun c => (dget (sl, c) st.muts).getD c⟩ st.fns }, "ok")
        else bad
      | _ => bad
    | _, _, _ => bad
  | "call" :: slot :: cb :: ts =>
    match slot.toNat?.bind (dget · st.fns), pBool cb, pCall ts with
    | some fn, some cb, some c => if declared st (callIds c) then runOp st fn c (.call fn c cb) else bad
    | _, _, _ => bad
  | "shelve" :: slot :: cb :: ts =>
    match slot.toNat?.bind (dget · st.fns), pBool cb, pCall ts with
    | some fn, some cb, some c => if declared st (callIds c) then runOp st fn c (.shelve fn c cb) else bad
    | _, _, _ => bad
  | "check" :: slot :: cb :: ts =>
    match slot.toNat?.bind (dget · st.fns), pBool cb, pCall ts with
    | some fn, some cb, some c => if declared st (callIds c) then runOp st fn c (.check fn c cb) else bad
    | _, _, _ => bad
  | "get" :: slot :: ts =>
    match slot.toNat?.bind (dget · st.fns), pCall ts with
    | some fn, some c => if declared st (callIds c) then runOp st fn c (.get fn c) else bad
    | _, _ => bad
  | "force" :: slot :: ts =>
    match slot.toNat?.bind (dget · st.fns), pCall ts with
    | some fn, some c => if declared st (callIds c) then runOp st fn c (.force fn c) else bad
    | _, _ => bad
  | ["clearfn", slot] =>
    match slot.toNat?.bind (dget · st.fns) with
    | some fn => ({ st with store := (MemoryCache.stepC (cfgOf st) (digestOf st) (envOf st) st.store (.clearFn fn)).2 }, "ok")
    | none => bad
  | ["clearall"] =>
    ({ st with store := (MemoryCache.stepC (cfgOf st) (digestOf st) (envOf st) st.store (.clearAll : Op R)).2 }, "ok")
  | ["fresh"] =>
    ({ st with store := (MemoryCache.stepC (cfgOf st) (digestOf st) (envOf st) st.store (.fresh : Op R)).2 }, "ok")
  | "evict" :: ts =>
    match parseCounted pEvict ts with
    | some (ids, []) =>
      let keys := ids.map fun p => (p.1, digestOf st p.2)
      ({ st with store := (MemoryCache.stepC (cfgOf st) (digestOf st) (envOf st) st.store (.evict keys : Op R)).2 }, "ok")
    | _ => bad
  | "clearloc" :: ts =>
    match parseCounted pNat ts with
    | some (fids, []) =>
      ({ st with store := { coded := st.store.coded.filter (fun f => !fids.contains f)
                            entries := st.store.entries.filter (fun e => !fids.contains e.1.1) } }, "ok")
    | _ => bad
  | "evictops" :: ts =>
    match parseCounted pNat ts with
    | some (idx, []) =>
      match idx.mapM (dget · st.opKeys) with
      | some keys =>
        ({ st with store := (MemoryCache.stepC (cfgOf st) (digestOf st) (envOf st) st.store (.evict keys : Op R)).2 }, "ok")
      | none => bad
    | _ => bad
  | _ => bad

def main : IO Unit := stateLoop ({} : DState) handle

end JoblibModel.MemoryDriver
