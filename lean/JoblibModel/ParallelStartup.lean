import JoblibModel.ParallelProto
import JoblibModel.ParallelSeq
/-
M1, extension: failures DURING THE START-UP of a `Parallel` call (finding F52).

`Parallel.__call__` (joblib/parallel.py) is

    self._reset_run_tracking()                 # raises RuntimeError when already running: OUTSIDE the guard
    try:
        return self._start_call(iterable)
    except BaseException:
        if self._running:                      # the output generator (whose `finally` clears it) never ran
            self._running = False
            self._terminate_and_reset()
        raise

and `_start_call` is the old body of `__call__`.  A *fault* makes one statement of `_start_call` raise:

  kind 1  `len(iterable)`                      (the input's `__len__` raises)                → `LenBoom`
  kind 2  `backend.configure(...)`             (unmanaged: `_initialize_backend` inside the call; managed: not
                                                reached by a call — the scenario-level *enter fault* makes
                                                `__enter__` fail instead)                       → `ConfigureBoom`
  kind 3  `n_jobs == 0`                        (`configure` / `effective_n_jobs` returned 0)  → `RuntimeError("… has no active worker.")`
  kind 4  `backend.start_call()`                                                              → `StartCallBoom`
  kind 5  `iter(iterable)`                     (the input's `__iter__` raises)               → `IterInitBoom`
          (kinds 1, 2, 4, 5: `cls = 1` makes the exception a direct subclass of `BaseException`, logged `…BoomB`)
  kind 6  the `pre_dispatch` resolution        (`eval_expr(...)` / `int(...)`), class `cls`:  1 ValueError, 2 TypeError,
                                                3 ZeroDivisionError, 4 OverflowError
  kind 7  `itertools.islice(iterator, pre_dispatch)` with a negative amount                  → `ValueError`

`guard` (`startGuard` of the scenario) selects the code variant: `true` = /repo as it is (with the `try` above),
`false` = the code before the F52 repair (`_start_call` inlined in `__call__`, no `try`).

Everything here is ADDED to M1: the definitions of `ParallelProto` / `ParallelSeq` are unchanged, and a call without a
(reached) fault is literally the old `runCallList` / `runCallGen` / `seqRunCallList` / `seqRunCallGen`
(`runScenarioF_nofault`, `runScenarioSeqF_nofault` in JoblibProofs/Lemmas/ParallelStartup.lean).

Python → Lean: `_running`→`running`, `_calling`→`calling`, `_managed_backend`→`managed`, `_ready_batches`→`ready`,
`_original_iterator is not None`→`origAlive`, `backend.stop_call()`/`terminate()` → the events `stop_call`/`terminate`.
Import-free apart from M1 itself, total, computable.
-/
namespace JoblibModel.ParallelStartup
open JoblibModel.ParallelProto JoblibModel.ParallelSeq

/-- A start-up fault of one call (`kind = 0`: none). -/
structure Fault where
  kind : Nat := 0
  cls : Nat := 0
deriving DecidableEq, Repr, Inhabited

/-- Exception classes `eval_expr(...)` / `int(...)` can raise for a bad `pre_dispatch`. -/
def clsStr : Nat → String
  | 1 => "ValueError"
  | 2 => "TypeError"
  | 3 => "ZeroDivisionError"
  | 4 => "OverflowError"
  | _ => "?"

/-- Kinds 1, 2, 4, 5 raise a harness exception: `cls = 0` a subclass of `Exception`, `cls = 1` a direct subclass of
`BaseException` (like `KeyboardInterrupt`): the guard is `except BaseException`, so both take the same path. -/
def baseTag (f : Fault) : String := if f.cls == 1 then "B" else ""

/-- The name under which harness/ctl.py logs the exception the fault raises. -/
def faultStr (f : Fault) : String :=
  match f.kind with
  | 1 => "LenBoom" ++ baseTag f
  | 2 => "ConfigureBoom" ++ baseTag f
  | 3 => "RuntimeError:Ctl-has-no-active"
  | 4 => "StartCallBoom" ++ baseTag f
  | 5 => "IterInitBoom" ++ baseTag f
  | 6 => clsStr f.cls
  | 7 => "ValueError"
  | _ => "?"

/-- Well-formed fault codes (what the driver accepts). -/
def Fault.wf (f : Fault) : Bool :=
  ((f.kind == 0 || f.kind == 3 || f.kind == 7) && f.cls == 0) ||
  ((f.kind == 1 || f.kind == 2 || f.kind == 4 || f.kind == 5) && f.cls ≤ 1) ||
  (f.kind == 6 && 1 ≤ f.cls && f.cls ≤ 4)

/-- `_reset_run_tracking` once the `_running` test has passed (the new call id is drawn in the same critical
section as `_running = True`). -/
def resetRun (s : St) : St :=
  let s := { s with running := true, callCtr := s.callCtr + 1, callId := s.callCtr + 1 }
  { s with nDispBatches := 0, nDispTasks := 0, nCompleted := 0, nbConsumed := 0,
           exception := false, aborting := false, aborted := false }

/-- The `except BaseException:` clause of `__call__` (absent when `guard = false`). -/
def guardCleanup (guard : Bool) (s : St) : St :=
  if guard && s.running then terminateAndReset { s with running := false } else s

/-- Is the statement that fault `f` breaks executed by a call on the path `n_jobs ≠ 1`, or — kinds 1–3 — before the
`n_jobs == 1` test (both paths)?  `configure` is not called by a call inside a `with` block. -/
def reachedCommon (f : Fault) (s : St) : Bool :=
  f.kind == 1 || (f.kind == 2 && !s.managed) || f.kind == 3

def reached (f : Fault) (s : St) : Bool :=
  reachedCommon f s || f.kind == 4 || f.kind == 5 || f.kind == 6 || f.kind == 7

/-- `_reset_run_tracking(); try: _start_call(iterable)` up to the statement at which fault `f` (reached, `_running`
false before) raises, followed by the guard.  Nothing is dispatched: `_start` is never reached. -/
def failedStart (c : Cfg) (guard : Bool) (f : Fault) (base : Nat) (spec : CallSpec) (s : St) : St :=
  let s := resetRun s
  -- `self.n_tasks = len(iterable) if hasattr(iterable, "__len__") else None`
  if f.kind == 1 then guardCleanup guard s else
  -- `if not self._managed_backend: n_jobs = self._initialize_backend()` (a hook point, then it raises)
  let s := if !s.managed then hook c false (ev s "configure") else s
  if f.kind == 2 then guardCleanup guard s else
  -- (`n_jobs` is 0 here for kind 3, so the sequential branch is not taken) `self._ready_batches = queue.Queue()`
  let s := { s with ready := [] }
  -- `if n_jobs == 0: raise RuntimeError(...)`
  if f.kind == 3 then guardCleanup guard s else
  -- `self._backend.start_call()`
  let s := ev s "start_call"
  if f.kind == 4 then guardCleanup guard s else
  let s := { s with calling := true }
  -- `iterator = iter(iterable)`
  if f.kind == 5 then guardCleanup guard s else
  -- `self._original_iterator = iterator`, then `eval_expr` / `int` (kind 6) or `islice` (kind 7) raises
  let s := { s with base := base, spec := spec, srcPos := 0, srcDead := false, origAlive := true }
  guardCleanup guard s

/-- One call of the scenario (list or generator mode), with its fault. -/
def runCallF (c : Cfg) (guard : Bool) (fuel base : Nat) (spec : CallSpec) (f : Fault) (s : St) : St :=
  if reached f s then
    -- `_reset_run_tracking` raises outside the guard when the object is running
    if s.running then ev s ("raise " ++ excStr .runtime)
    else ev (failedStart c guard f base spec s) ("raise " ++ faultStr f)
  else if isGen c then runCallGen c fuel base spec s else runCallList c fuel base spec s

def runCallsF (c : Cfg) (guard : Bool) (fuel : Nat) : Nat → Nat → List (CallSpec × Fault) → St → St
  | _, _, [], s => s
  | k, base, (spec, f) :: rest, s =>
    if s.hung then s else
    let s := if k ≥ 1 then hook c false s else s
    let s := ev s ("call " ++ toString k)
    let s := runCallF c guard fuel base spec f s
    runCallsF c guard fuel (k + 1) (base + spec.n) rest s

/-- `Parallel.__enter__`: `_managed_backend = True; _calling = False; _initialize_backend()`. With the enter fault
`configure` raises: the `with` statement fails, its body and `__exit__` never run (the harness goes on calling the
object outside any block; `_managed_backend` is still set). -/
def enterBlock (c : Cfg) (enter : Fault) (s : St) : St :=
  let s := hook c false (ev { s with managed := true, calling := false } "configure")
  if enter.kind == 2 then ev s ("raise " ++ faultStr enter) else ev s "enter"

/-- The whole scenario of harness/ctl.py with start-up faults (`n_jobs ≠ 1`). -/
def runScenarioF (c : Cfg) (guard : Bool) (enter : Fault) (calls : List (CallSpec × Fault)) (sched : List (List Nat)) :
    List String :=
  let specs := calls.map (·.1)
  let fuel := 10 * totalTasks specs + 4 * sched.length + 400 + 2 * c.timeout.toNat
  let s : St := { sched := sched, failIds := failIdsOf 0 specs }
  let s := if c.managed0 then enterBlock c enter s else s
  let s := runCallsF c guard fuel 0 0 calls s
  let s := if s.hung then ev s "hang"
    else
      let s := hook c false s
      if s.managed && !(enter.kind == 2) then exitBlock c s else s
  s.log.reverse

/-! ### the sequential path (`n_jobs == 1`) -/

/-- The consumer of a sequential generator-mode call with batch size 1 whose input's `__iter__` raises: the
`for … in iterable` of `_get_sequential_output` has not started when `__call__` returns (the generator is suspended
at its first `yield None`), so the fault fires at the consumer's first `next` — inside the generator's `try`. -/
def seqConsumePend (c : Cfg) (f : Fault) : Nat → Nat → St → List Nat → St
  | 0, _, s, _ => ev s "fuel!"
  | n + 1, fuel, s, ops =>
    let (op, ops) := match ops with
      | [] => (1, [])
      | o :: r => (o, r)
    if op == 1 then ev (failed (ev s "next")) ("raise " ++ faultStr f)
    else if op == 2 then ev (failed s) "closed"
    else if op == 3 then ev (failed s) "dropped"
    else if op == 4 then seqConsumePend c f n fuel (seqRecall c fuel s) ops
    else if op == 6 then seqConsumePend c f n fuel (if s.managed then seqExitBlock s else s) ops
    else seqConsumePend c f n fuel (hook c false s) ops

/-- One call of the scenario on the sequential path. Kinds 1–3 raise before (or instead of) the `n_jobs == 1` branch:
the same code as on the parallel path; kinds 4, 6, 7 break statements the sequential path never executes; kind 5
(`iter(iterable)`) raises INSIDE the output generator — in `next(output)` when the input is re-batched
(`batch_size != 1`), else at the first real `next` — whose `except BaseException` / `finally` run, so the guard of
`__call__` finds `_running` already cleared. -/
def seqRunCallF (c : Cfg) (guard : Bool) (fuel base : Nat) (spec : CallSpec) (f : Fault) (s : St) : St :=
  if reachedCommon f s then
    if s.running then ev s ("raise " ++ excStr .runtime)
    else ev (failedStart c guard f base spec s) ("raise " ++ faultStr f)
  else if f.kind == 5 then
    match seqStart c base spec s with
    | (s, _, some e) => ev s ("raise " ++ excStr e)
    | (s, g, none) =>
      if g.bs != 1 || !isGen c then ev (failed s) ("raise " ++ faultStr f)
      else seqConsumePend c f fuel fuel s spec.cons
  else if isGen c then seqRunCallGen c fuel base spec s else seqRunCallList c fuel base spec s

def seqRunCallsF (c : Cfg) (guard : Bool) (fuel : Nat) : Nat → Nat → List (CallSpec × Fault) → St → St
  | _, _, [], s => s
  | k, base, (spec, f) :: rest, s =>
    let s := if k ≥ 1 then hook c false s else s
    let s := ev s ("call " ++ toString k)
    let s := seqRunCallF c guard fuel base spec f s
    seqRunCallsF c guard fuel (k + 1) (base + spec.n) rest s

/-- The whole scenario with `nj = 1` and start-up faults. -/
def runScenarioSeqF (c : Cfg) (guard : Bool) (enter : Fault) (calls : List (CallSpec × Fault))
    (sched : List (List Nat)) : List String :=
  let specs := calls.map (·.1)
  let fuel := 4 * totalTasks specs + 2 * sched.length + 100
  let s : St := { sched := sched, failIds := failIdsOf 0 specs }
  let s := if c.managed0 then enterBlock c enter s else s
  let s := seqRunCallsF c guard fuel 0 0 calls s
  let s := hook c false s
  let s := if s.managed && !(enter.kind == 2) then seqExitBlock s else s
  s.log.reverse

end JoblibModel.ParallelStartup
