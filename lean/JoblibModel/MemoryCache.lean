/-
Model of the cached call of `joblib.memory.MemorizedFunc` (joblib/memory.py) against one cache
directory (properties C02 and C06): the key of a call, the lookup / load / compute-and-store
logic, shelved references, `check_call_in_cache`, clearing and eviction.  It COMPOSES the two
finished models
* `JoblibModel.FilterArgs`  (`filter_args`: the call ↦ the dict that is hashed; `bind`: Python's
  own binding, the specification), and
* `JoblibModel.HashStream`  (`encode H v`: the byte stream `hashing.Hasher` feeds to md5).

Python → Lean
* the opaque ids of `FilterArgs` are interpreted by an `Env`: `val i` the Python value with id `i`
  (a `PyVal`), `name n` the utf-8 bytes of the identifier with id `n` (parameter / keyword names)
* the dict returned by `filter_args`                    → `embed E d : PyVal`, a dict with `str` keys:
  a parameter name ↦ its value, `'*'` ↦ the LIST of surplus positionals (`args = list(args)`, so
  the slice is a list), `'**'` ↦ the dict of surplus keywords (`str` keys)
* `MemorizedFunc._get_args_id` = `hashing.hash(filter_args(func, ignore, args, kwargs))`
                                                       → `argsId`  (`H (encode H (embed E d))`;
  `H` = md5 hex digest of a stream, a parameter, the same one `encode` uses on its fallback path)
* how `filter_args` treats the wrapped callable         → `Callable`:
  `func` (a plain or `async def` function: `inspect.signature`), `method` (a bound method: `self`
  is put back in front), `part` (`functools.partial` and every other non-function callable:
  `filter_args` gives up and returns `{'*': args, '**': kwargs}`, ignore list unused)
* what the plain callable does with a call              → `bindOf` (Python's binding; a partial
  prepends its frozen positionals and merges its frozen keywords) and `Fn.body` (the function
  body as a function of the bound arguments)
* `MemorizedFunc.func_id` (`_build_func_identifier`)     → `Fn.fid`
* the store: `<location>/joblib/<func_id>/<args_id>/output.pkl`
                                                       → `Store R`: an association list
  `(fid, args_id) ↦ value` (a finite map; `dget`/`dset`/`dpop`); crash-safety and concurrency of
  the real directory tree are C05/C11's model (`Store.lean`), not this one
* the store also records for which function ids `func_code.py` exists (`St.coded`): with an
  unchanged source, `_check_previous_func_code` answers `True` iff the file is there and writes it
  otherwise (`checkCode`)
* `_is_in_cache_and_valid`: the code check, `contains_item`, then the `cache_validation_callback`
  on the entry's metadata, `clear_item` when it says no → `isInCacheAndValid`; the callback's answer
  is an input of the operation (`cbOk`; `true` when there is no callback)
* `Version`: `.fixed` = with fixes/F30-forced-call-checks-func-code.diff (`MemorizedFunc.call`
  checks the function code before storing), `.old` = the pinned tree (it does not)
* `__call__` / `_cached_call(shelving=False)` → `Op.call`;  `call_and_shelve` → `Op.shelve`;
  `MemorizedResult.get` → `Op.get`;  `MemorizedFunc.call` → `Op.force`;
  `check_call_in_cache` → `Op.check`;  `MemorizedFunc.clear` → `Op.clearFn`;
  `Memory.clear` → `Op.clearAll`;  `Memory.reduce_size` / `MemorizedResult.clear` /
  `clear_item` → `Op.evict` (WHICH entries `reduce_size` picks is C18's model: the set is an input)
* `_call(call_id, args, kwargs)` / `_after_call(call_id, …)`: the call id travels as a PARAMETER from the
  lookup to `dump_item` — `compute st fn id c` stores under the `id` it is given, nothing about "the
  running call" lives on the `MemorizedFunc` instance.  Hence computations of one cached function
  that are nested (a recursive cached function) or overlap (threads, gathered awaits) each store
  under their own id, and such a history is the sequence of its calls in the order in which they
  COMPLETE (each `Op.call` is atomic at its completion; the harness flattens them so — their keys
  are distinct, so the lookups made at their starts are unaffected).  `C02.stored_under_own_id`.
* a fresh process on the same directory → `Op.fresh`: nothing of this model lives in memory
  (the in-memory function table is `FuncCode.lean`, C12)
* FUNCTIONS THAT MUTATE THEIR ARGUMENTS.  `self.func(*args, **kwargs)` may work in place on the objects it
  is given (sort a list, pop from a dict): a function is `f : Args → Result × Args'`, here `Fn.body` (the
  result, a function of the arguments AS PASSED) and `Fn.effect : Call → Call` (the same `args` / `kwargs`
  objects as the body LEFT them: `*args` is a tuple and `**kwargs` is unpacked into a new dict, so only the
  VALUES the objects hold can change — `effect c` names the values after the body ran; `fun c => c` for a
  function that leaves its arguments alone).  The code computes every key BEFORE the body runs:
  `_cached_call` (`__call__`, `call_and_shelve`), `call` and `check_call_in_cache` all start with
  `self._get_args_id(*args, **kwargs)` and hand the resulting `call_id` down (`_call(call_id, args, kwargs)`
  → `self.func(*args, **kwargs)` → `_after_call(call_id, args, kwargs, …)`): `compute st fn id c` runs the
  body on `c` and calls `afterCall st id (fn.effect c) output`, which files the output (and the metadata)
  under the `id` it was GIVEN and computes no key.  What `_after_call` / `_persist_input` do see of the
  arguments after the body is their `repr` (`metadata["input_args"] = repr of filter_args(func, ignore,
  args, kwargs)`, evaluated AFTER the body: `persistInput`) — informative only, stored under `call_id`.
* `Cfg.keyAfterCall` — a VARIANT of the code that is NOT the tree's (seeded change C06-r4-m3): `call`
  passes `call_id=None` and `_after_call` computes `(func_id, _get_args_id(*args, **kwargs))` when it is
  about to file the result, i.e. from the arguments as the body left them: `forceLate` / `stepC`.
  `stepC ⟨ver, false⟩ = step ver` (`stepC_asIs`): the tree's code is `step`.

Assumed here, established elsewhere: the function's source code does not change during the history
(C12 has the general `_check_previous_func_code`; for a `functools.partial`, whose "source" is its
repr with memory addresses and whose function id is shared by all partials, the harness observes
"the stored code is another callable's" on the real directory and feeds the wipe that follows to
this model as an `Op.clearFn` — an input, like the callback's answer); `load(dump(v)) = v` (C03); no
crash, one user (C05/C11).
Import-free apart from the two models; total, computable.
-/
import JoblibModel.FilterArgs
import JoblibModel.HashStream
namespace JoblibModel.MemoryCache
open JoblibModel.FilterArgs JoblibModel.HashStream

/-- Interpretation of the opaque value / name ids of `FilterArgs`. -/
structure Env where
  val : Nat → PyVal
  name : Nat → Bs

/-- A key of the `filter_args` dict as the `str` it is. -/
def keyVal (E : Env) : Key → PyVal
  | .name n => .str (E.name n)
  | .star => .str [42]
  | .dstar => .str [42, 42]

def embedVal (E : Env) : Val → PyVal
  | .one v => E.val v
  | .seq vs => .list (vs.map E.val)
  | .map kv => .dict (kv.map fun e => (.str (E.name e.1), E.val e.2))

/-- The `filter_args` dict as a Python value. -/
def embed (E : Env) (d : Dict) : PyVal :=
  .dict (d.map fun e => (keyVal E e.1, embedVal E e.2))

/-- How `filter_args` sees the wrapped callable. -/
inductive Callable where
  | func (s : Sig)
  | method (selfP : Param) (selfV : Nat) (s : Sig)
  /-- `functools.partial(g, *pargs, **pkw)` with `s` the signature of `g` -/
  | part (s : Sig) (pargs : List Nat) (pkw : List (Nat × Nat))
deriving Repr, DecidableEq

/-- `{**self.keywords, **keywords}` of `functools.partial.__call__`. -/
def mergeKw (pkw : List (Nat × Nat)) : List (Nat × Nat) → List (Nat × Nat)
  | [] => pkw
  | (k, v) :: r => mergeKw (dset k v pkw) r

/-- The signature Python binds the call against. -/
def Callable.sig : Callable → Sig
  | .func s => s
  | .method p _ s => p :: s
  | .part s _ _ => s

/-- Python's binding of a call of the plain callable. -/
def bindOf : Callable → Call → Except BindErr (List (Nat × Val))
  | .func s, c => bind s c
  | .method p v s, c => bindMethod p v s c
  | .part s pa pk, c => bind s ⟨pa ++ c.args, mergeKw pk c.kwargs⟩

/-- `filter_args(func, ignore_lst, args, kwargs)`. -/
def argDict : Callable → List Key → Call → Except Err Dict
  | .func s, ig, c => filterArgs s ig c
  | .method p v s, ig, c => filterArgsMethod p v s ig c
  | .part _ _ _, _, c => .ok [(.star, .seq c.args), (.dstar, .map c.kwargs)]

/-- The stream hashed for a call. -/
def stream (H : Bs → Bs) (E : Env) (d : Dict) : Bs := encode H (embed E d)

/-- `_get_args_id`. -/
def argsId (H : Bs → Bs) (E : Env) (cal : Callable) (ig : List Key) (c : Call) : Except Err Bs :=
  match argDict cal ig c with
  | .ok d => .ok (H (stream H E d))
  | .error e => .error e

/-- A function wrapped with `memory.cache(func, ignore=ig)`. -/
structure Fn (R : Type) where
  fid : Nat
  cal : Callable
  ig : List Key
  /-- the result, as a function of the bound arguments AS PASSED -/
  body : List (Nat × Val) → R
  /-- the `args` / `kwargs` objects as the body LEFT them (in-place mutation of mutable arguments);
  `fun c => c` when the function does not touch its arguments -/
  effect : Call → Call

abbrev Store (R : Type) := List ((Nat × Bs) × R)

/-- Which tree is modelled: `.fixed` = with fixes/F30-forced-call-checks-func-code.diff
(`MemorizedFunc.call` runs `_check_previous_func_code` like a cached call does), `.old` = the pinned
tree (it does not, so a forced call can leave an entry in a directory without `func_code.py`). -/
inductive Version where
  | old
  | fixed
deriving DecidableEq, Repr

/-- The cache directory: the function identifiers whose `func_code.py` exists, and the entries. -/
structure St (R : Type) where
  coded : List Nat := []
  entries : Store R := []

inductive Op (R : Type) where
  | call (fn : Fn R) (c : Call) (cbOk : Bool)
  | shelve (fn : Fn R) (c : Call) (cbOk : Bool)
  /-- `.get()` on the reference an earlier `shelve fn c` returned -/
  | get (fn : Fn R) (c : Call)
  | force (fn : Fn R) (c : Call)
  | check (fn : Fn R) (c : Call) (cbOk : Bool)
  | clearFn (fn : Fn R)
  | clearAll
  | evict (ids : List (Nat × Bs))
  | fresh

inductive Out (R : Type) where
  | value (r : R) (executed : Bool)
  | ref (executed : Bool)
  | flag (b : Bool)
  | raisesFilter (e : Err)
  | raisesBind (e : BindErr)
  | keyError
  | done
deriving Repr, DecidableEq

variable {R : Type}

/-- `_check_previous_func_code` when the source of the function does not change: `True` iff
`func_code.py` is there; when it is not, it is written (`_write_func_code`) and the answer is
`False` (C12's model has the general case). -/
def checkCode (st : St R) (fid : Nat) : Bool × St R :=
  if fid ∈ st.coded then (true, st) else (false, { st with coded := fid :: st.coded })

/-- `_is_in_cache_and_valid(call_id)`: the code check, `contains_item`, then the validation callback
(`clear_item` when it says no). -/
def isInCacheAndValid (st : St R) (id : Nat × Bs) (cbOk : Bool) : Option R × St R :=
  let c := checkCode st id.1
  if c.1 then
    match dget id c.2.entries with
    | none => (none, c.2)
    | some r => if cbOk then (some r, c.2) else (none, { c.2 with entries := dpop id c.2.entries })
  else (none, c.2)

/-- What `_persist_input(duration, call_id, args, kwargs)` writes as `input_args` into the metadata of
`call_id`: the `repr`s of `filter_args(self.func, self.ignore, args, kwargs)` — of the arguments AS THE
BODY LEFT THEM (`cAfter`), since it runs after the body.  Informative only: no key is computed from it. -/
def persistInput (fn : Fn R) (cAfter : Call) : Except Err Dict := argDict fn.cal fn.ig cAfter

/-- `_after_call(call_id, args, kwargs, shelving, output, start_time)`: `dump_item(call_id, output)`, then
`_persist_input(duration, call_id, args, kwargs)`.  `args` / `kwargs` are by now the objects as the body
left them (`_cAfter`); the entry is filed under the `call_id` that was handed down — no key is computed
here. -/
def afterCall (st : St R) (id : Nat × Bs) (_cAfter : Call) (output : R) : St R :=
  { st with entries := dset id output st.entries }

/-- `_call(call_id, args, kwargs)`: `output = self.func(*args, **kwargs)` — the body runs on the arguments
as passed and may mutate them — then `_after_call(call_id, args, kwargs, …, output, …)`. -/
def compute (st : St R) (fn : Fn R) (id : Nat × Bs) (c : Call) : Except BindErr (R × St R) :=
  match bindOf fn.cal c with
  | .error e => .error e
  | .ok b => .ok (fn.body b, afterCall st id (fn.effect c) (fn.body b))

/-- `_cached_call`: the Boolean says whether the function was executed. -/
def cachedCall (H : Bs → Bs) (E : Env) (st : St R) (fn : Fn R) (c : Call) (cbOk : Bool) :
    Except Err (Except BindErr (R × Bool) × St R) :=
  match argsId H E fn.cal fn.ig c with
  | .error e => .error e
  | .ok k =>
    let r := isInCacheAndValid st (fn.fid, k) cbOk
    match r.1 with
    | some v => .ok (.ok (v, false), r.2)
    | none =>
      match compute r.2 fn (fn.fid, k) c with
      | .error e => .ok (.error e, r.2)
      | .ok (v, st') => .ok (.ok (v, true), st')

def evictAll (st : Store R) : List (Nat × Bs) → Store R
  | [] => st
  | id :: r => evictAll (dpop id st) r

/-- The state a forced call starts from: the repaired code checks (and writes) the function code. -/
def beforeForce (ver : Version) (st : St R) (fid : Nat) : St R :=
  match ver with
  | .fixed => (checkCode st fid).2
  | .old => st

def step (ver : Version) (H : Bs → Bs) (E : Env) (st : St R) : Op R → Out R × St R
  | .call fn c cbOk =>
    match cachedCall H E st fn c cbOk with
    | .error e => (.raisesFilter e, st)
    | .ok (.error e, st') => (.raisesBind e, st')
    | .ok (.ok (v, x), st') => (.value v x, st')
  | .shelve fn c cbOk =>
    match cachedCall H E st fn c cbOk with
    | .error e => (.raisesFilter e, st)
    | .ok (.error e, st') => (.raisesBind e, st')
    | .ok (.ok (_, x), st') => (.ref x, st')
  | .get fn c =>
    match argsId H E fn.cal fn.ig c with
    | .error e => (.raisesFilter e, st)
    | .ok k =>
      match dget (fn.fid, k) st.entries with
      | some v => (.value v false, st)
      | none => (.keyError, st)
  | .force fn c =>
    match argsId H E fn.cal fn.ig c with
    | .error e => (.raisesFilter e, st)
    | .ok k =>
      match compute (beforeForce ver st fn.fid) fn (fn.fid, k) c with
      | .error e => (.raisesBind e, beforeForce ver st fn.fid)
      | .ok (v, st') => (.value v true, st')
  | .check fn c cbOk =>
    match argsId H E fn.cal fn.ig c with
    | .error e => (.raisesFilter e, st)
    | .ok k =>
      let r := isInCacheAndValid st (fn.fid, k) cbOk
      (.flag r.1.isSome, r.2)
  | .clearFn fn =>
    (.done, { coded := if fn.fid ∈ st.coded then st.coded else fn.fid :: st.coded
              entries := st.entries.filter fun e => decide (e.1.1 ≠ fn.fid) })
  | .clearAll => (.done, { coded := [], entries := [] })
  | .evict ids => (.done, { st with entries := evictAll st.entries ids })
  | .fresh => (.done, st)

/-- Outputs of a history. -/
def run (ver : Version) (H : Bs → Bs) (E : Env) : St R → List (Op R) → List (Out R)
  | _, [] => []
  | st, op :: ops => (step ver H E st op).1 :: run ver H E (step ver H E st op).2 ops

/-- State after a history. -/
def exec (ver : Version) (H : Bs → Bs) (E : Env) : St R → List (Op R) → St R
  | st, [] => st
  | st, op :: ops => exec ver H E (step ver H E st op).2 ops

/-- The empty cache directory. -/
def St.empty : St R := {}

/-! ## The variant `keyAfterCall` (NOT the tree's code: seeded change C06-r4-m3)

`MemorizedFunc.call` no longer hashes the arguments before running the function: `_call(None, args, kwargs)`,
and `_after_call` starts with `if call_id is None: call_id = (self.func_id, self._get_args_id(*args, **kwargs))`
— evaluated after the body, on the arguments as the body left them. -/

/-- Which code is modelled: the version (F30) and whether a forced call computes its key after the
body ran (`keyAfterCall = false` is the tree's code). -/
structure Cfg where
  ver : Version
  keyAfterCall : Bool
deriving DecidableEq, Repr

/-- `_after_call(None, args, kwargs, …)` of the variant: the key is computed HERE, from `cAfter`. -/
def afterCallLate (H : Bs → Bs) (E : Env) (st : St R) (fn : Fn R) (cAfter : Call) (output : R) :
    Except Err (St R) :=
  match argsId H E fn.cal fn.ig cAfter with
  | .error e => .error e
  | .ok k => .ok (afterCall st (fn.fid, k) cAfter output)

/-- `MemorizedFunc.call` of the variant: the code check, the body, then `_after_call(None, …)`.  (A call
Python rejects raises from the body's binding before `filter_args` is ever asked.) -/
def forceLate (ver : Version) (H : Bs → Bs) (E : Env) (st : St R) (fn : Fn R) (c : Call) : Out R × St R :=
  match bindOf fn.cal c with
  | .error e => (.raisesBind e, beforeForce ver st fn.fid)
  | .ok b =>
    match afterCallLate H E (beforeForce ver st fn.fid) fn (fn.effect c) (fn.body b) with
    | .error e => (.raisesFilter e, beforeForce ver st fn.fid)
    | .ok st' => (.value (fn.body b) true, st')

def stepC (cfg : Cfg) (H : Bs → Bs) (E : Env) (st : St R) (op : Op R) : Out R × St R :=
  match cfg.keyAfterCall, op with
  | true, .force fn c => forceLate cfg.ver H E st fn c
  | _, op => step cfg.ver H E st op

def runC (cfg : Cfg) (H : Bs → Bs) (E : Env) : St R → List (Op R) → List (Out R)
  | _, [] => []
  | st, op :: ops => (stepC cfg H E st op).1 :: runC cfg H E (stepC cfg H E st op).2 ops

def execC (cfg : Cfg) (H : Bs → Bs) (E : Env) : St R → List (Op R) → St R
  | st, [] => st
  | st, op :: ops => execC cfg H E (stepC cfg H E st op).2 ops

/-- The tree's code is `step`. -/
theorem stepC_asIs (ver : Version) (H : Bs → Bs) (E : Env) (st : St R) (op : Op R) :
    stepC ⟨ver, false⟩ H E st op = step ver H E st op := by
  cases op <;> rfl

end JoblibModel.MemoryCache
