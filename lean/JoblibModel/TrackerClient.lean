import JoblibModel.Tracker
/-
Model of the CLIENT side of the resource-tracker protocol — property C20: who sends which request when.
Composed with the tracker's command loop (`JoblibModel.Tracker.step`) and a small disk.

Python → Lean
* `joblib/_memmapping_reducer.py`
  `TemporaryResourcesManager`                         : `Manager` (`_cached_temp_folders` = `cached`, the context ids in
                                                        dict order — the folder NAME is a function of (manager, context);
                                                        `_current_context_id` = `current`; `_finalizers` = the entries of
                                                        `State.atexit` for this manager)
  `__init__` / `set_current_context` / `register_new_context` / `register_folder_finalizer`
                                                      : `newManager`, `setCurrentContext`, `registerNewContext`
  `resolve_temp_folder_name`                          : `(workers.mgr, currentOf …)` in `reduceArray`
  `_clean_temporary_resources(context_id, force, allow_non_empty)` : `cleanContext` (loop body `cleanFile` =
                                                        `forceUnregister` | `releaseExtra`); `context_id=None` : `cleanAll`
  `delete_folder(folder, allow_non_empty)` (joblib/disk.py) and the rest of the `try:` : `tryDeleteFolder`
                                                        (`clientRmtree`, `forgetFolder`; the retry loop with its sleeps =
                                                        "the tracker has caught up")
  the atexit callback `_cleanup`                      : `atexitCleanup`
  `ArrayMemmapForwardReducer.__call__`                : `reduceArray` → `memmapArray` (`mkdir`, `pickleFor`,
                                                        `registerExtra`, `dumpFile`; `_temporary_memmaped_filenames` =
                                                        `Workers.temporary`; `_memmaped_arrays`: the basename is a function
                                                        of the array — the array's id; `_unlink_on_gc_collect` = `!pool`)
  `load_temporary_memmap` + `add_maybe_unlink_finalizer` / `_log_and_unlink` (worker) : `Op.load`, `sendFinalizer`
* `joblib/executor.py` `get_memmapping_executor`      : `getExecutor` (`_executor_args` = `executorArgs`)
  `MemmappingExecutor.terminate(kill_workers)`        : `terminateExecutor`
* `joblib/externals/loky/reusable_executor.py` `get_reusable_executor` : `reusableExecutor` (`_executor` = `executor`)
* `joblib/pool.py` `MemmappingPool.__init__/terminate` : the `isPoolK` / `W.pool` branches of `Op.configure/terminate`
* `joblib/_parallel_backends.py` `LokyBackend.configure/terminate/abort_everything` : `Op.configure/terminate/abort`
* `joblib/parallel.py` `_batched_calls_reducer_callback` : the `setCurrentContext` at the head of `reduceArray`
* `resource_tracker.register/unregister/maybe_unlink → _send` : `send` (`f"{cmd}:{name}:{rtype}\n"` = `reqLine`)
* the probe (harness/c20_client_worker.py): stand-in worker processes (`children`: `spawn`, `load`, `drop`, `childExit`,
  `childKill`), `shutdown` of an executor ends its workers (`endWorkers`), `exitParent` / `killParent`

The world: one main process (several `Parallel` objects `k < nPar`, on the loky backend or — `k ∈ pools` — on the
multiprocessing backend), its tracker (`reg`, stepped by `Tracker.step` on every line written), the temp root
(`disk`), and worker processes (`children`) that share the pipe. Paths are symbolic: folder of (manager `m`, context
`c`) = `/d` `m`×`m` `_` `c`×`k` (context 0 = the manager's own uuid context, `k+1` = `Parallel` object `k`'s `_id`),
file of array `a` in it = folder `/` `a`×`a` — one name per (manager id, context id, array), as uuids give.
Synchrony: every line is processed by the tracker before the client's next look at the disk (what the sleeps of
`delete_folder` are for; the harness replaces them by a real synchronisation).

`Cfg.fix` selects the candidate repair of F45 (`fixes/F45-*.diff`): the manager remembers the files whose extra
reference it has released (`_released_files` = `Manager.released`) and releases each once.

Ghost state (not in the code, no influence on behaviour; what the theorems speak about): `extra` (extra references
the parent holds), `leaked` (registered references nobody will ever release: memmaps of killed workers, pickles never
loaded), `dup` (a clean-up released an extra reference that was not held — F45), `bad` (files deleted while in use),
and in the un-repaired variant `Manager.released`.
Import-free apart from `JoblibModel.Tracker`; total, computable.
-/
namespace JoblibModel.TrackerClient
open JoblibModel.Tracker

/-! ### names and request lines -/

structure FolderKey where
  m : Nat
  c : Nat
deriving DecidableEq, Repr

structure FileKey where
  m : Nat
  c : Nat
  a : Nat
deriving DecidableEq, Repr

def FileKey.folder (f : FileKey) : FolderKey := ⟨f.m, f.c⟩

/-- `/d` + m×`m` + `_` + c×`k`. -/
def FolderKey.name (d : FolderKey) : Name :=
  47 :: 100 :: (List.replicate d.m 109 ++ 95 :: List.replicate d.c 107)

/-- `os.path.join(folder, basename)`: folder + `/` + a×`a`. -/
def FileKey.name (f : FileKey) : Name := f.folder.name ++ 47 :: List.replicate f.a 97

/-- `"REGISTER"`, `"UNREGISTER"`, `"MAYBE_UNLINK"`. -/
def cmdStr : Cmd → Name
  | .register => sREGISTER
  | .unregister => sUNREGISTER
  | .maybeUnlink => sMAYBE_UNLINK

/-- `f"{cmd}:{name}:{rtype}\n".encode("ascii")` — what `ResourceTracker._send` writes. -/
def reqLine (c : Cmd) (rt : RType) (name : Name) : Line := cmdStr c ++ 58 :: name ++ 58 :: rt.str ++ [10]

/-! ### state -/

structure Cfg where
  /-- the F45 repair (`_released_files`) is in the code -/
  fix : Bool
  /-- `max_nbytes` of the `Parallel` objects -/
  maxNbytes : Option Nat
  /-- number of `Parallel` objects -/
  nPar : Nat
  /-- those on the multiprocessing backend (`MemmappingPool`) -/
  pools : List Nat
deriving Repr

structure Disk where
  dirs : List FolderKey
  files : List FileKey
deriving Repr

/-- `os.unlink(name)` (`unlink_file` swallows `FileNotFoundError`). -/
def Disk.unlink (d : Disk) (n : Name) : Disk := { d with files := d.files.filter (fun f => f.name ≠ n) }

/-- `shutil.rmtree(name)`. -/
def Disk.rmtree (d : Disk) (n : Name) : Disk :=
  { dirs := d.dirs.filter (fun x => x.name ≠ n), files := d.files.filter (fun f => f.folder.name ≠ n) }

/-- What `load_temporary_memmap` will be called with: `(filename, mmap_mode, unlink_on_gc_collect)`. -/
structure Pickle where
  f : FileKey
  tracked : Bool
deriving DecidableEq, Repr

/-- A memmap alive in a worker; `tracked` = it carries the `_log_and_unlink` finalizer. -/
structure Holding where
  child : Nat
  f : FileKey
  tracked : Bool
deriving DecidableEq, Repr

structure Child where
  /-- the manager of the executor / pool this worker belongs to -/
  mgr : Nat
  alive : Bool
deriving Repr

structure Manager where
  cached : List Nat
  current : Nat
  released : List FileKey
deriving Repr

/-- A `MemmappingExecutor` or a `MemmappingPool` with its forward reducer. -/
structure Workers where
  mgr : Nat
  pool : Bool
  /-- `executor._flags.shutdown` -/
  shutdown : Bool
  /-- `reducer._max_nbytes` -/
  limit : Option Nat
  /-- `reducer._temporary_memmaped_filenames` -/
  temporary : List FileKey
deriving Repr

/-- What `_executor_args` is compared on: the two argument sets of the `Parallel` objects (they differ in
`mmap_mode`: `k % 2`); `default` = the bare arguments `abort_everything` re-configured with before /repo 7487594
(no longer produced by any operation). -/
inductive Args where
  | parity (b : Nat)
  | default
deriving DecidableEq, Repr

/-- What the processes hold in memory (and the ghost fields). -/
structure Client where
  -- the main process
  parentAlive : Bool
  executorArgs : Option Args
  executor : Option Nat
  workers : List Workers
  managers : List Manager
  /-- `P[k]._backend._workers` / `._pool` (absent = `None`): index into `workers` -/
  backend : List (Nat × Nat)
  /-- the registered `_cleanup` callbacks, in registration order -/
  atexit : List FolderKey
  -- the workers
  children : List Child
  inflight : List Pickle
  holdings : List Holding
  -- ghost
  extra : List FileKey
  leaked : List FileKey
  dup : Bool
deriving Repr

/-- The whole world: the processes, the tracker, the temp root, the pipe (and the ghost monitor `bad`). -/
structure State extends Client where
  reg : Registry
  disk : Disk
  /-- every line written to the pipe, most recent first -/
  sent : List Line
  bad : List FileKey
deriving Repr

def State.init : State :=
  { reg := Registry.empty, disk := ⟨[], []⟩, sent := [], parentAlive := true, executorArgs := none, executor := none,
    workers := [], managers := [], backend := [], atexit := [], children := [], inflight := [], holdings := [],
    extra := [], leaked := [], dup := false, bad := [] }

/-! ### the monitor: who uses a file -/

/-- Worker-side users of `f`, registered or not: pickles on their way to a worker and memmaps alive in a live
worker. -/
def workerUsers (s : Client) (f : FileKey) : Nat :=
  s.inflight.countP (fun p => p.f = f) + s.holdings.countP (fun h => h.f = f)

/-- Registered worker-side users of `f` (`unlink_on_gc_collect=True`: the loky backend). -/
def trackedWorkerUsers (s : Client) (f : FileKey) : Nat :=
  s.inflight.countP (fun p => p.f = f && p.tracked) + s.holdings.countP (fun h => h.f = f && h.tracked)

/-- Live registered users of `f`: the registered worker-side users, and the parent's extra reference while the
parent lives. (The memmaps of `MemmappingPool` workers are not registered users — "It is not the case for the
multiprocessing backend, but it does not matter because … pools terminate their workers at the end of a map()".) -/
def liveUsers (s : Client) (f : FileKey) : Nat :=
  trackedWorkerUsers s f + (if s.parentAlive then s.extra.count f else 0)

/-- Registered users of `f`, alive or not: what the tracker's count is supposed to be. -/
def trackedUsers (s : Client) (f : FileKey) : Nat :=
  s.extra.count f + trackedWorkerUsers s f + s.leaked.count f

/-! ### the pipe: one request, processed by the tracker -/

/-- What a clean-up action of the tracker does to the disk; `bad` records the files that were in use. -/
def applyAction (s : State) : Action → State
  | .cleanup .file n =>
    { s with bad := s.bad ++ (s.disk.files.filter (fun f => f.name = n ∧ 0 < liveUsers s.toClient f)),
             disk := s.disk.unlink n }
  | .cleanup .folder n =>
    { s with bad := s.bad ++ (s.disk.files.filter (fun f => f.folder.name = n ∧ 0 < liveUsers s.toClient f)),
             disk := s.disk.rmtree n }
  | _ => s

/-- `resource_tracker._send(cmd, name, rtype)`, and the tracker reading the line. -/
def send (s : State) (c : Cmd) (rt : RType) (name : Name) : State :=
  let line := reqLine c rt name
  let r := step s.reg line
  r.2.foldl applyAction { s with reg := r.1, sent := line :: s.sent }

/-- `shutil.rmtree(folder)` done by the main process itself (`delete_folder`). The parent deleting the folder of
one of its own contexts is that context letting go: only worker-side users make it a deletion "while in use". -/
def clientRmtree (s : State) (d : FolderKey) : State :=
  { s with bad := s.bad ++ (s.disk.files.filter (fun f => f.folder.name = d.name ∧ 0 < workerUsers s.toClient f)),
           disk := s.disk.rmtree d.name }

/-! ### list helpers -/

def updAt {α : Type} : List α → Nat → (α → α) → List α
  | [], _, _ => []
  | x :: r, 0, f => f x :: r
  | x :: r, i + 1, f => x :: updAt r i f

def removeAt {α : Type} : List α → Nat → List α
  | [], _ => []
  | _ :: r, 0 => r
  | x :: r, i + 1 => x :: removeAt r i

def assocGet : List (Nat × Nat) → Nat → Option Nat
  | [], _ => none
  | (k, v) :: r, n => if k = n then some v else assocGet r n

def assocDel : List (Nat × Nat) → Nat → List (Nat × Nat)
  | [], _ => []
  | (k, v) :: r, n => if k = n then assocDel r n else (k, v) :: assocDel r n

def assocSet (l : List (Nat × Nat)) (k v : Nat) : List (Nat × Nat) := (k, v) :: assocDel l k

/-! ### `TemporaryResourcesManager` -/

def cachedOf (s : Client) (m : Nat) : List Nat :=
  match s.managers[m]? with
  | some M => M.cached
  | none => []

def releasedOf (s : Client) (m : Nat) : List FileKey :=
  match s.managers[m]? with
  | some M => M.released
  | none => []

/-- `register_new_context(context_id)`. -/
def registerNewContext (s : State) (m ctx : Nat) : State :=
  if ctx ∈ cachedOf s.toClient m then s
  else
    let s := send s .register .folder (FolderKey.mk m ctx).name       -- register_folder_finalizer: register …
    { s with atexit := s.atexit ++ [⟨m, ctx⟩],                         -- … atexit.register(_cleanup)
             managers := updAt s.managers m (fun M => { M with cached := M.cached ++ [ctx] }) }

/-- `set_current_context(context_id)`. -/
def setCurrentContext (s : State) (m ctx : Nat) : State :=
  registerNewContext { s with managers := updAt s.managers m (fun M => { M with current := ctx }) } m ctx

/-- `TemporaryResourcesManager(temp_folder)`: a new manager (its index = `managers.length` before the call) with its
own uuid context (context 0). -/
def newManager (s : State) : State :=
  let m := s.managers.length
  setCurrentContext { s with managers := s.managers ++ [⟨[], 0, []⟩] } m 0

/-- The `else:` branch of the loop of `_clean_temporary_resources`: `resource_tracker.maybe_unlink(path, "file")`
— with the repair, once per file. -/
def releaseExtra (cfg : Cfg) (s : State) (m : Nat) (f : FileKey) : State :=
  if cfg.fix && decide (f ∈ releasedOf s.toClient m) then s
  else
    let s := { s with dup := s.dup || decide (f ∉ s.extra), extra := s.extra.erase f,
                      managers := updAt s.managers m (fun M => { M with released := f :: M.released }) }
    send s .maybeUnlink .file f.name

/-- The `if force:` branch: `resource_tracker.unregister(path, "file")`. -/
def forceUnregister (s : State) (f : FileKey) : State :=
  send { s with extra := s.extra.filter (fun g => g ≠ f), leaked := s.leaked.filter (fun g => g ≠ f) }
    .unregister .file f.name

/-- The body of `for filename in os.listdir(temp_folder):`. -/
def cleanFile (cfg : Cfg) (m : Nat) (force : Bool) (s : State) (f : FileKey) : State :=
  if force then forceUnregister s f else releaseExtra cfg s m f

/-- `os.listdir(folder)`. -/
def Disk.listdir (d : Disk) (x : FolderKey) : List FileKey := d.files.filter (fun f => f.folder = x)

/-- After `delete_folder` succeeded: `_cached_temp_folders.pop(context_id)`, `unregister(temp_folder, "folder")`,
`atexit.unregister(finalizer)`. -/
def forgetFolder (s : State) (m ctx : Nat) : State :=
  let s := { s with managers := updAt s.managers m (fun M => { M with cached := M.cached.filter (fun c => c ≠ ctx) }) }
  let s := send s .unregister .folder (FolderKey.mk m ctx).name
  { s with atexit := s.atexit.filter (fun x => x ≠ ⟨m, ctx⟩) }

/-- `delete_folder(temp_folder, allow_non_empty)` and what follows it inside the `try:`. -/
def tryDeleteFolder (s : State) (m ctx : Nat) (allow : Bool) : State :=
  if (s.disk.listdir ⟨m, ctx⟩).isEmpty || allow then
    forgetFolder (clientRmtree s ⟨m, ctx⟩) m ctx                     -- shutil.rmtree succeeded
  else s                                                              -- except OSError: pass

/-- `_clean_temporary_resources(context_id=ctx, force, allow_non_empty)` of manager `m`. -/
def cleanContext (cfg : Cfg) (s : State) (m ctx : Nat) (force allowNonEmpty : Bool) : State :=
  if ctx ∉ cachedOf s.toClient m then s                               -- temp_folder = ….get(context_id)
  else if (⟨m, ctx⟩ : FolderKey) ∉ s.disk.dirs then s                 -- os.path.exists(temp_folder)
  else
    tryDeleteFolder ((s.disk.listdir ⟨m, ctx⟩).foldl (cleanFile cfg m force) s) m ctx (allowNonEmpty || force)

/-- `_clean_temporary_resources(context_id=None, …)`: `for context_id in list(self._cached_temp_folders)`. -/
def cleanAll (cfg : Cfg) (s : State) (m : Nat) (force allowNonEmpty : Bool) : State :=
  (cachedOf s.toClient m).foldl (fun s ctx => cleanContext cfg s m ctx force allowNonEmpty) s

/-- The atexit callback `_cleanup` of one folder: `delete_folder(folder, allow_non_empty=True)`, `unregister`. -/
def atexitCleanup (s : State) (d : FolderKey) : State :=
  let s := if d ∈ s.disk.dirs then clientRmtree s d else s
  send s .unregister .folder d.name

/-! ### worker processes -/

/-- `_log_and_unlink(filename)`: the finalizer of a collected memmap (if it has one) sends `MAYBE_UNLINK`. -/
def sendFinalizer (s : State) (h : Holding) : State :=
  if h.tracked then send s .maybeUnlink .file h.f.name else s

/-- A worker exits normally: `weakref.finalize`'s exit hook runs the pending finalizers of its memmaps (the process
is leaving: its memmaps stop counting as users together). -/
def exitChild (s : State) (c : Nat) : State :=
  let mine := s.holdings.filter (fun h => h.child = c)
  let s := { s with holdings := s.holdings.filter (fun h => h.child ≠ c),
                    children := updAt s.children c (fun ch => { ch with alive := false }) }
  mine.foldl sendFinalizer s

/-- A worker is killed: nothing is sent; the references of its memmaps are never given back. -/
def killChild (s : State) (c : Nat) : State :=
  { s with leaked := s.leaked ++ ((s.holdings.filter (fun h => h.child = c ∧ h.tracked)).map (·.f)),
           holdings := s.holdings.filter (fun h => h.child ≠ c),
           children := updAt s.children c (fun ch => { ch with alive := false }) }

def endChild (s : State) (c : Nat) (kill : Bool) : State := if kill then killChild s c else exitChild s c

def endChildren (s : State) (cs : List Nat) (kill : Bool) : State := cs.foldl (fun s c => endChild s c kill) s

/-- The indices of the live workers satisfying `p`. -/
def liveChildren (s : Client) (p : Child → Bool) : List Nat :=
  (List.range s.children.length).filter (fun c =>
    match s.children[c]? with
    | some ch => ch.alive && p ch
    | none => false)

/-- Pickles that will never be loaded: their reference (if registered) is never given back. -/
def dropInflight (s : State) (p : Pickle → Bool) : State :=
  { s with leaked := s.leaked ++ ((s.inflight.filter (fun q => p q ∧ q.tracked)).map (·.f)),
           inflight := s.inflight.filter (fun q => !p q) }

/-- The workers of the executor / pool of manager `m` leave (normally, or killed); what was queued for them is lost. -/
def endWorkers (s : State) (m : Nat) (kill : Bool) : State :=
  dropInflight (endChildren s (liveChildren s.toClient (fun ch => ch.mgr = m)) kill) (fun p => p.f.m = m)

/-- `executor.shutdown(kill_workers=kill)`. -/
def shutdownWorkers (s : State) (w : Nat) (kill : Bool) : State :=
  match s.workers[w]? with
  | none => s
  | some W =>
    let s := endWorkers s W.mgr kill
    { s with workers := updAt s.workers w (fun W => { W with shutdown := true }) }

/-! ### executors and pools -/

/-- A new `MemmappingExecutor` / `MemmappingPool` around manager `m` (its index = `workers.length` before). -/
def createWorkers (s : State) (m : Nat) (pool : Bool) (limit : Option Nat) : State :=
  { s with workers := s.workers ++ [⟨m, pool, false, limit, []⟩] }

/-- `_executor = cls(…)`; `_executor._temp_folder_manager = manager` (the executor is new). -/
def createExecutor (s : State) (m : Nat) (limit : Option Nat) : State :=
  { (createWorkers s m false limit) with executor := some s.workers.length }

/-- `executor._flags.shutdown` of `_executor`. -/
def executorIsShutdown (s : Client) (e : Nat) : Bool :=
  match s.workers[e]? with
  | some W => W.shutdown
  | none => true

/-- `get_reusable_executor(…, reuse=reuse)`: the executor in place is kept when it can be; otherwise it is shut down
(`kill_workers=False`) and a new one is built around the new manager `m`. -/
def reusableExecutor (s : State) (reuse : Bool) (m : Nat) (limit : Option Nat) : State :=
  match s.executor with
  | none => createExecutor s m limit
  | some e =>
    if executorIsShutdown s.toClient e || !reuse then createExecutor (shutdownWorkers s e false) m limit else s

/-- `_executor._temp_folder_manager.register_new_context(context_id)`; `self._workers = _executor`. -/
def bindContext (s : State) (k : Nat) : State :=
  match s.executor with
  | none => s
  | some e =>
    match s.workers[e]? with
    | none => s
    | some W => { (registerNewContext s W.mgr (k + 1)) with backend := assocSet s.backend k e }

/-- `get_memmapping_executor(n_jobs, context_id=parallel._id, **args)` from `LokyBackend.configure` of `P[k]`. -/
def getExecutor (s : State) (args : Args) (limit : Option Nat) (k : Nat) : State :=
  let reuse := s.executorArgs.isNone || s.executorArgs == some args
  let m := s.managers.length
  let s := newManager { s with executorArgs := some args }            -- manager = TemporaryResourcesManager(temp_folder)
  bindContext (reusableExecutor s reuse m limit) k

/-- `MemmappingExecutor.terminate(kill_workers)`. -/
def terminateExecutor (cfg : Cfg) (s : State) (w : Nat) (kill : Bool) : State :=
  match s.workers[w]? with
  | none => s
  | some W => cleanAll cfg (shutdownWorkers s w kill) W.mgr kill true

/-- `live(k)` of the probe: the executor / pool `P[k]` would dispatch to, `None` after a shutdown (the flag is only
ever set on executors: a terminated pool is forgotten by its backend, `_pool = None`). -/
def liveWorkers (s : Client) (k : Nat) : Option Nat :=
  match assocGet s.backend k with
  | none => none
  | some w =>
    match s.workers[w]? with
    | none => none
    | some W => if W.shutdown then none else some w

/-! ### operations -/

structure ArrayDesc where
  id : Nat
  memmapBacked : Bool
  hasobject : Bool
  nbytes : Nat
deriving Repr

/-- `configure k` = `P[k].__enter__()` (+ an empty call), `terminate k` = `P[k].__exit__()`: what they do depends on
the backend of `P[k]` (the probe calls them `poolConfigure` / `poolTerminate` for the multiprocessing backend). -/
inductive Op where
  | configure (k : Nat)
  | spawn (k : Nat)
  | reduce (k : Nat) (a : ArrayDesc)
  | load (c i : Nat)
  | drop (i : Nat)
  | childExit (c : Nat)
  | childKill (c : Nat)
  | terminate (k : Nat)
  | abort (k : Nat) (ensureReady : Bool)
  | execTerminate (kill : Bool)
  | exitParent
  | killParent
deriving Repr

inductive Status where
  | ok | skip | loadfail
deriving DecidableEq, Repr

/-- `os.makedirs(self._temp_folder)` (`EEXIST` ignored). -/
def mkdir (s : State) (d : FolderKey) : State :=
  if d ∈ s.disk.dirs then s else { s with disk := { s.disk with dirs := s.disk.dirs ++ [d] } }

/-- `if not os.path.exists(filename): dump(a, filename)`. -/
def dumpFile (s : State) (f : FileKey) : State :=
  if f ∈ s.disk.files then s else { s with disk := { s.disk with files := s.disk.files ++ [f] } }

/-- The reference taken for the worker that will unpickle the memmap (`if self._unlink_on_gc_collect:
resource_tracker.register(filename, "file")`) and the pickle `(load_temporary_memmap, (filename, mode, tracked))`. -/
def pickleFor (s : State) (f : FileKey) (tracked : Bool) : State :=
  let s := if tracked then send s .register .file f.name else s
  { s with inflight := s.inflight ++ [⟨f, tracked⟩] }

/-- `if is_new_memmap: resource_tracker.register(filename, "file")`: the parent's extra reference. -/
def registerExtra (s : State) (f : FileKey) : State :=
  send { s with extra := f :: s.extra } .register .file f.name

/-- The memmapping branch of `ArrayMemmapForwardReducer.__call__`: the array goes to file `f`. -/
def memmapArray (s : State) (w : Nat) (f : FileKey) (pool wasKnown : Bool) : State :=
  let s := mkdir s f.folder
  let s := { s with workers := updAt s.workers w (fun W => { W with temporary := f :: W.temporary }) }
  let s := pickleFor s f (!pool)                                      -- unlink_on_gc_collect = not a pool
  let s := if wasKnown then s else registerExtra s f                  -- is_new_memmap
  dumpFile s f

/-- `self._max_nbytes is not None and a.nbytes > self._max_nbytes`. -/
def bigEnough (limit : Option Nat) (nbytes : Nat) : Bool :=
  match limit with
  | none => false
  | some l => decide (l < nbytes)

/-- `manager._current_context_id`. -/
def currentOf (s : Client) (m : Nat) : Nat :=
  match s.managers[m]? with
  | some M => M.current
  | none => 0

/-- `ArrayMemmapForwardReducer.__call__(a)` while `P[k]` pickles a `BatchedCalls` for workers object `w`. -/
def reduceArray (s : State) (k w : Nat) (a : ArrayDesc) : State :=
  match s.workers[w]? with
  | none => s
  | some W =>
    let s := if W.pool then s else setCurrentContext s W.mgr (k + 1) -- _batched_calls_reducer_callback
    if a.memmapBacked || a.hasobject || !bigEnough W.limit a.nbytes then s   -- _reduce_memmap_backed / pickled by value
    else
      let ctx := currentOf s.toClient W.mgr
      if ctx ∉ cachedOf s.toClient W.mgr then s                       -- resolve_temp_folder_name: KeyError (unreachable)
      else memmapArray s w ⟨W.mgr, ctx, a.id⟩ W.pool (decide (⟨W.mgr, ctx, a.id⟩ ∈ W.temporary))

def isPoolK (cfg : Cfg) (k : Nat) : Bool := decide (k ∈ cfg.pools)

/-- The operations of the worker processes (they do not need the main process). -/
def Op.isWorkerOp : Op → Bool
  | .load _ _ | .drop _ | .childExit _ | .childKill _ => true
  | _ => false

def workerStep (s : State) : Op → State × Status
  | .load c i =>
    match s.children[c]?, s.inflight[i]? with
    | some ch, some p =>
      if ch.alive && p.f.m = ch.mgr then
        if p.f ∈ s.disk.files then
          ({ s with inflight := removeAt s.inflight i, holdings := s.holdings ++ [⟨c, p.f, p.tracked⟩] }, .ok)
        else                                                          -- FileNotFoundError
          ({ s with inflight := removeAt s.inflight i,
                    leaked := if p.tracked then s.leaked ++ [p.f] else s.leaked }, .loadfail)
      else (s, .skip)
    | _, _ => (s, .skip)
  | .drop i =>
    match s.holdings[i]? with
    | some h => (sendFinalizer { s with holdings := removeAt s.holdings i } h, .ok)   -- del held[hid]; gc.collect()
    | none => (s, .skip)
  | .childExit c =>
    match s.children[c]? with
    | some ch => if ch.alive then (exitChild s c, .ok) else (s, .skip)
    | none => (s, .skip)
  | .childKill c =>
    match s.children[c]? with
    | some ch => if ch.alive then (killChild s c, .ok) else (s, .skip)
    | none => (s, .skip)
  | _ => (s, .skip)

/-- The interpreter of the main process exits: the workers have left, the atexit callbacks run, last registered
first. -/
def exitParent (s : State) : State :=
  let s := endChildren s (liveChildren s.toClient (fun _ => true)) false
  let s := { (dropInflight s (fun _ => true)) with parentAlive := false }
  { (s.atexit.reverse.foldl atexitCleanup s) with atexit := [] }

def parentStep (cfg : Cfg) (s : State) : Op → State × Status
  | .configure k =>
    if isPoolK cfg k then                                             -- MemmappingPool.__init__
      ({ (createWorkers (newManager s) s.managers.length true cfg.maxNbytes) with
            backend := assocSet s.backend k s.workers.length }, .ok)
    else (getExecutor s (.parity (k % 2)) cfg.maxNbytes k, .ok)
  | .spawn k =>
    match liveWorkers s.toClient k with
    | none => (s, .skip)
    | some w =>
      match s.workers[w]? with
      | none => (s, .skip)
      | some W => ({ s with children := s.children ++ [⟨W.mgr, true⟩] }, .ok)
  | .reduce k a =>
    match liveWorkers s.toClient k with
    | none => (s, .skip)
    | some w => (reduceArray s k w a, .ok)
  | .terminate k =>
    match assocGet s.backend k with
    | none => (s, .skip)
    | some w =>
      match s.workers[w]? with
      | none => (s, .skip)
      | some W =>
        let s :=
          if W.pool then
            let s := endWorkers s W.mgr true                          -- MemmappingPool.terminate: Pool.terminate() …
            cleanAll cfg s W.mgr false false                          -- … _clean_temporary_resources()
          else cleanContext cfg s W.mgr (k + 1) false false           -- LokyBackend.terminate
        ({ s with backend := assocDel s.backend k }, .ok)
  | .abort k ensureReady =>
    match assocGet s.backend k with
    | none => (s, .skip)
    | some w =>
      match s.workers[w]? with
      | none => (s, .skip)
      | some W =>
        if W.pool then (s, .skip)                                     -- not modelled (the probe never aborts a pool)
        else
          let s := terminateExecutor cfg s w true                     -- self._workers.terminate(kill_workers=True)
          let s := { s with backend := assocDel s.backend k }
          -- self.configure(n_jobs, parallel, **self.parallel._backend_kwargs)  (/repo 7487594: P[k]'s own arguments)
          (if ensureReady then getExecutor s (.parity (k % 2)) cfg.maxNbytes k else s, .ok)
  | .execTerminate kill =>
    match s.executor with
    | none => (s, .skip)
    | some e => (terminateExecutor cfg s e kill, .ok)
  | .exitParent => (exitParent s, .ok)
  | .killParent => ({ (dropInflight s (fun _ => true)) with parentAlive := false }, .ok)
  | _ => (s, .skip)

/-- One operation: the new state and the probe's status word. -/
def stepOp (cfg : Cfg) (s : State) (op : Op) : State × Status :=
  if op.isWorkerOp then workerStep s op
  else if s.parentAlive then parentStep cfg s op
  else (s, .skip)

/-- A program from a fresh start. -/
def runOps (cfg : Cfg) (s : State) : List Op → State
  | [] => s
  | op :: ops => runOps cfg (stepOp cfg s op).1 ops

/-- The last process holding the pipe is gone (whoever is left is killed): the tracker reads EOF and runs its
`finally:` clean-up. -/
def eof (s : State) : State :=
  let s := endChildren s (liveChildren s.toClient (fun _ => true)) true
  let s := { (dropInflight s (fun _ => true)) with parentAlive := false }
  (finish s.reg).foldl applyAction s

/-- Which operations the probe can issue for this configuration (a `Parallel` index in range; no abort of a pool).
The driver answers `bad-op` to the others. -/
def Op.wellFormed (cfg : Cfg) : Op → Bool
  | .abort k _ => decide (k < cfg.nPar) && !isPoolK cfg k
  | .configure k | .terminate k | .spawn k | .reduce k _ => decide (k < cfg.nPar)
  | _ => true

end JoblibModel.TrackerClient
