import JoblibModel.ParallelProto
import JoblibModel.ParallelStartup
/-!
M1 — a `Parallel` object whose configuration CHANGES BETWEEN CALLS through its public surface (round 5, C09 seed m2):
the attributes `n_jobs`, `pre_dispatch`, `batch_size`, `timeout` reassigned between two calls, or a backend whose
`effective_n_jobs()` answers differently at every call (an elastic backend).  Everything `Parallel.__call__` reads from these
(`_start_call`: `n_jobs = self._initialize_backend()` / `self._effective_n_jobs()`, `pre_dispatch = self.pre_dispatch` with
`n_jobs` substituted at THIS call, `dispatch_one_batch`: `self.batch_size`, `_cached_effective_n_jobs`; the retrieval loop:
`self.timeout`) is read anew at every call, so the model of a sequence of calls is the OLD model of one call (`runCallF`, which
already takes the `Cfg` as an argument) applied with the call's own `Cfg`.

Additive: no definition of `ParallelProto` / `ParallelStartup` is touched.  The hook point BETWEEN two calls (late completions
of the earlier call's batches) still runs under the EARLIER call's configuration: the harness reassigns the attributes after it,
immediately before the call, and callbacks read `_cached_effective_n_jobs`, which `_start_call` has not yet replaced.
`return_as` and the managed / abort policy stay per scenario (`return_generator` / `return_ordered` are computed once in
`__init__`: reassigning `return_as` alone is not a supported reconfiguration); all `n_jobs ≥ 2` (no switch to the sequential path).
-/
namespace JoblibModel.ParallelReconf
open JoblibModel.ParallelProto JoblibModel.ParallelStartup

/-- The calls of the scenario, each with its own configuration and start-up fault; `cprev` = the configuration in force at the
hook point before the call (that of the previous call). -/
def runCallsV (guard : Bool) (fuel : Nat) : Nat → Nat → Cfg → List (Cfg × CallSpec × Fault) → St → St
  | _, _, _, [], s => s
  | k, base, cprev, (c, spec, f) :: rest, s =>
    if s.hung then s else
    let s := if k ≥ 1 then hook cprev false s else s
    let s := ev s ("call " ++ toString k)
    let s := runCallF c guard fuel base spec f s
    runCallsV guard fuel (k + 1) (base + spec.n) c rest s

/-- The configuration in force after the last call. -/
def lastCfg (c0 : Cfg) : List (Cfg × CallSpec × Fault) → Cfg
  | [] => c0
  | (c, _) :: rest => lastCfg c rest

/-- The largest timeout of the scenario (fuel only). -/
def maxTimeout (c0 : Cfg) : List (Cfg × CallSpec × Fault) → Nat
  | [] => c0.timeout.toNat
  | (c, _) :: rest => max c.timeout.toNat (maxTimeout c0 rest)

/-- The whole scenario of harness/ctl.py with per-call configurations (`c0`: the configuration the object was created with;
it fixes `return_as`, managed, abort policy). -/
def runScenarioV (c0 : Cfg) (guard : Bool) (enter : Fault) (calls : List (Cfg × CallSpec × Fault))
    (sched : List (List Nat)) : List String :=
  let specs := calls.map (·.2.1)
  let fuel := 10 * totalTasks specs + 4 * sched.length + 400 + 2 * maxTimeout c0 calls
  let s : St := { sched := sched, failIds := failIdsOf 0 specs }
  let s := if c0.managed0 then enterBlock c0 enter s else s
  let s := runCallsV guard fuel 0 0 c0 calls s
  let cl := lastCfg c0 calls
  let s := if s.hung then ev s "hang"
    else
      let s := hook cl false s
      if s.managed && !(enter.kind == 2) then exitBlock cl s else s
  s.log.reverse

/-- Well-formedness the driver demands: every call keeps what is fixed per object, and stays on the parallel path. -/
def okCfg (c0 c : Cfg) : Bool :=
  c.ra == c0.ra && c.managed0 == c0.managed0 && c.abortDrops == c0.abortDrops && decide (2 ≤ c.nj) && decide (1 ≤ c.bs.length)

end JoblibModel.ParallelReconf
