import JoblibModel.Lru
/-
Model of everything `Memory.reduce_size` does around the selection (property C18): the inventory
(`FileSystemStoreBackend.get_items`), the size-string parser (`disk.memstr_to_bytes`), the deletion loop
(`StoreBackendMixin.enforce_store_limits` → `clear_location`) and `Memory.reduce_size` itself. The selection
(`_get_items_to_delete`) is `JoblibModel.Lru`, reused unchanged. Only imports `JoblibModel.Lru` (import-free
itself); total, computable, structural recursion only.

Python → Lean
* the store directory              : `Dir` — basename, `os.path.getatime` of the directory (`none` = raises OSError), the
                                     non-directory entries (`File`: name, `getsize`, `getatime`, each `none` = raises
                                     OSError) and the sub-directories, both in listing (`os.scandir`) order
* a path                           : `Path` = the components below `self.location` (`[]` = `self.location` itself)
* `os.walk(self.location)`         : `osWalk` — top-down (a directory before its sub-directories, these in listing order);
                                     one `WalkEntry` = `(dirpath, filenames)` + the basename and the directory's atime
* `re.match("[a-f0-9]{32}", os.path.basename(dirpath))` : `isHashName` — a PREFIX match: the first 32 characters are
                                     lower-case hex digits; anything may follow
* `get_items`                      : `getItems` — the `for dirpath, _, filenames in os.walk(...)` loop: last access =
                                     atime of `output.pkl`, else of the directory, the directory skipped when both raise;
                                     size = sum of `getsize` of the files DIRECTLY in it, the directory skipped when one
                                     raises. `CacheItemInfo(path, size, last_access)` = `Lru.Item Path`
* `memstr_to_bytes(text)`          : `memstrToBytes` (see the section below for the grammar modelled)
* `clear_location(location)`       : `clearLocation` — `rm_subdirs` for the store root, `shutil.rmtree(…,
                                     ignore_errors=True)` otherwise; under the fault pattern `raises : Path → Bool` a
                                     raising call is the stale-NFS-handle case of the code comment: the directory is gone
                                     (another client removed it) AND the call raises `OSError`
* `enforce_store_limits`           : `enforceStoreLimits` = `_get_items_to_delete` + `enforceLoop`, the
                                     `for item in items_to_delete: try: clear_location(item.path) except OSError: pass`
* `Memory.reduce_size`             : `reduceSize` — `store_backend is None` (`Memory(location=None)`) → nothing; the three
                                     limits all `None` → nothing; else `enforce_store_limits`
* `bytes_limit`                    : `BytesArg` — `None`, an int, or a str (converted FIRST, before the store is read)
* `age_limit`                      : the deadline `now - age_limit` is an input, as in `Lru` (a negative `age_limit`, which
                                     raises ValueError on a non-empty store, is not modelled)

Not modelled: symbolic links (`os.walk` lists a link to a directory among the dirnames and does not follow it), a
DIRECTORY called `output.pkl`, permission failures of `rmtree` (swallowed by `ignore_errors=True`: the entry would
stay), concurrent writers (excluded by the property).
-/
namespace JoblibModel.StoreLimits
open JoblibModel.Lru

abbrev Path := List String

/-- A non-directory entry of a directory. `none` = the stat call raises `OSError`. -/
structure File where
  name : String
  size : Option Nat
  atime : Option Int
deriving Repr, DecidableEq

/-- A directory: basename, `os.path.getatime(dir)`, files and sub-directories in listing order. -/
inductive Dir where
  | mk (name : String) (atime : Option Int) (files : List File) (subs : List Dir)
deriving Repr

def Dir.name : Dir → String
  | .mk n _ _ _ => n

def Dir.subs : Dir → List Dir
  | .mk _ _ _ s => s

/-- One step of `os.walk`: `dirpath` (relative to the store location), its basename, the directory's atime and
`filenames`. -/
structure WalkEntry where
  path : Path
  name : String
  atime : Option Int
  files : List File
deriving Repr, DecidableEq

mutual
/-- `os.walk(dirpath)`, top-down. -/
def walkDir (dirpath : Path) : Dir → List WalkEntry
  | .mk name atime files subs => ⟨dirpath, name, atime, files⟩ :: walkSubs dirpath subs
/-- The recursion of `os.walk` into `dirnames`, in listing order. -/
def walkSubs (dirpath : Path) : List Dir → List WalkEntry
  | [] => []
  | d :: r => walkDir (dirpath ++ [d.name]) d ++ walkSubs dirpath r
end

/-- `os.walk(self.location)`. -/
def osWalk (t : Dir) : List WalkEntry := walkDir [] t

def isHexLower (c : Char) : Bool :=
  (decide ('0' ≤ c) && decide (c ≤ '9')) || (decide ('a' ≤ c) && decide (c ≤ 'f'))

/-- `re.match("[a-f0-9]{32}", basename)` — anchored at the start only. -/
def isHashName (s : String) : Bool :=
  let cs := s.toList
  decide (32 ≤ cs.length) && (cs.take 32).all isHexLower

/-- `os.path.getatime(output_filename)`, falling back to `os.path.getatime(dirpath)`; `none` = both raise. -/
def lastAccess (e : WalkEntry) : Option Int :=
  match e.files.find? (fun f => f.name = "output.pkl") with
  | some f =>
    match f.atime with
    | some a => some a
    | none => e.atime
  | none => e.atime

/-- `sum(os.path.getsize(fn) for fn in full_filenames)`; `none` = some `getsize` raises. -/
def dirSize : List File → Option Nat
  | [] => some 0
  | f :: r =>
    match f.size, dirSize r with
    | some a, some b => some (a + b)
    | _, _ => none

/-- The body of the `get_items` loop for one walked directory: `none` = `continue` (not a hash directory, or
unreadable). -/
def itemOf (e : WalkEntry) : Option (Item Path) :=
  if isHashName e.name then
    match lastAccess e with
    | none => none
    | some a =>
      match dirSize e.files with
      | none => none
      | some s => some ⟨e.path, s, a⟩
  else none

/-- `FileSystemStoreBackend.get_items`. -/
def getItems (t : Dir) : List (Item Path) := (osWalk t).filterMap itemOf

/-! ### vocabulary of the theorems about the inventory -/

/-- The paths of the hash-named directories of the store, in walk order. -/
def hashPaths (t : Dir) : List Path :=
  ((osWalk t).filter (fun e => isHashName e.name)).map (·.path)

/-- "Every stat succeeds": each directory's atime and each file's size can be read. -/
def StatOk (t : Dir) : Prop :=
  ∀ e ∈ osWalk t, e.atime.isSome = true ∧ ∀ f ∈ e.files, f.size.isSome = true

/-- No hash directory is nested in another one (nor is the store location itself hash-named): no hash directory's
path is a prefix of another's. Holds for every store joblib writes unless a cached function or one of its modules
has a name that starts with 32 hex digits. -/
def Separated (t : Dir) : Prop :=
  [] ∉ hashPaths t ∧ (hashPaths t).Pairwise (fun a b => ¬ a <+: b ∧ ¬ b <+: a)

mutual
/-- No hash-named directory in the subtree, the directory itself included. -/
def hashFree : Dir → Bool
  | .mk name _ _ subs => !isHashName name && hashFreeSubs subs
def hashFreeSubs : List Dir → Bool
  | [] => true
  | d :: r => hashFree d && hashFreeSubs r
end

mutual
/-- Structural reading of `Separated`: everywhere in the tree sibling directories have distinct names (as on any file
system) and below a hash-named directory there is no hash-named directory. -/
def flat : Dir → Bool
  | .mk name _ _ subs =>
    (if isHashName name then hashFreeSubs subs else true) && decide ((subs.map Dir.name).Nodup) && flatSubs subs
def flatSubs : List Dir → Bool
  | [] => true
  | d :: r => flat d && flatSubs r
end

/-- A store as joblib lays it out: `flat`, and the store location is not hash-named. -/
def NoNesting (t : Dir) : Prop := flat t = true ∧ isHashName t.name = false

/-! ### `disk.memstr_to_bytes`

`int(units[text[-1]] * float(text[:-1]))`, `KeyError`/`ValueError` re-raised as `ValueError`.

Grammar modelled for the mantissa `text[:-1]`: every string over the alphabet `0-9 . + -`. On that alphabet
Python's `float()` accepts exactly `[+-]? (digits [. digits?] | . digits)`, which is what `parseMantissa` accepts
(so `1.K`, `.5K`, `+.5K` are accepted and `.K`, `+K`, `--1K`, `1.2.3K` are `ValueError`). A mantissa with any other
character (exponent forms `1e3`, `inf`/`nan`/`infinity`, underscores `1_0`, surrounding white space `' 1'`/`'1 '` —
all accepted or rejected by `float()` under further rules, `infK` even escapes as `OverflowError`) is OUTSIDE:
the model answers `outside` and the harness compares nothing there. The unit test comes first (`units[text[-1]]`
is evaluated before `float(...)`): an unknown unit is `ValueError` whatever the mantissa; the empty string is
`IndexError` (`text[-1]`), which the `except (KeyError, ValueError)` does not convert.

Value: the model computes `trunc(±N · 2^k / 10^f)` exactly (`N` = the digits without the point, `f` = number of
fractional digits, `2^k` = the unit). The code goes through a double: `x = float(m)` is the correctly rounded
`m = N/10^f`, `2^k * x` is exact (scaling by a power of two), `int()` truncates toward zero. Both agree whenever
`N · 2^k < 2^53`: let `v = 2^k·m`. If `v` is an integer it is `< 2^53`, so `m = v/2^k` is a double and `x = m`.
Otherwise `v·10^f` is an integer, so `v` is at least `10^-f` away from every integer, while
`|2^k·x − v| ≤ v·2^-53 = N·2^k·2^-53 / 10^f < 10^-f`: no integer lies between `v` and `2^k·x`, and neither is one,
so they truncate alike. The harness keeps `N · 2^k < 2^53` and verifies the agreement by correspondence. -/

inductive MemResult where
  | ok (bytes : Int)
  | valueError
  | indexError
  | outside
deriving Repr, DecidableEq

/-- `units = dict(K=kilo, M=kilo**2, G=kilo**3)` as the exponent of 2; `none` = `KeyError`. -/
def unitExp (c : Char) : Option Nat :=
  if c = 'K' then some 10 else if c = 'M' then some 20 else if c = 'G' then some 30 else none

def isDigit (c : Char) : Bool := decide ('0' ≤ c) && decide (c ≤ '9')

def inAlphabet (c : Char) : Bool := isDigit c || c == '.' || c == '+' || c == '-'

/-- Value of a decimal digit (a table: `c.toNat - 48` makes the kernel's `whnf` crawl). -/
def digitVal (c : Char) : Nat :=
  if c = '1' then 1 else if c = '2' then 2 else if c = '3' then 3 else if c = '4' then 4 else if c = '5' then 5
  else if c = '6' then 6 else if c = '7' then 7 else if c = '8' then 8 else if c = '9' then 9 else 0

/-- Value of a digit string, most significant first. -/
def natOfDigits (acc : Nat) : List Char → Nat
  | [] => acc
  | c :: r => natOfDigits (acc * 10 + digitVal c) r

/-- The unsigned part: `digits [. digits?] | . digits` → `(N, f)`; `none` = `float()` raises `ValueError`. -/
def parseUnsigned (r : List Char) : Option (Nat × Nat) :=
  let ip := r.takeWhile isDigit
  match r.dropWhile isDigit with
  | [] => if ip.isEmpty then none else some (natOfDigits 0 ip, 0)
  | c :: fp =>
    if c = '.' ∧ fp.all isDigit ∧ ¬ (ip.isEmpty ∧ fp.isEmpty) then
      some (natOfDigits 0 (ip ++ fp), fp.length)
    else none

/-- `float(text[:-1])` on the modelled alphabet: `(negative, N, f)` with value `±N / 10^f`. -/
def parseMantissa : List Char → Option (Bool × Nat × Nat)
  | '-' :: r => (parseUnsigned r).map (fun nf => (true, nf))
  | '+' :: r => (parseUnsigned r).map (fun nf => (false, nf))
  | r => (parseUnsigned r).map (fun nf => (false, nf))

/-- `int(2^k * (±N / 10^f))`: truncation toward zero. -/
def scaled (neg : Bool) (n f k : Nat) : Int :=
  let q : Int := ((n * 2 ^ k / 10 ^ f : Nat) : Int)
  if neg then -q else q

def memstrChars (text : List Char) : MemResult :=
  match text.getLast? with
  | none => .indexError
  | some u =>
    match unitExp u with
    | none => .valueError
    | some k =>
      let m := text.dropLast
      if m.all inAlphabet then
        match parseMantissa m with
        | none => .valueError
        | some (neg, n, f) => .ok (scaled neg n f k)
      else .outside

def memstrToBytes (text : String) : MemResult := memstrChars text.toList

/-! ### deletion -/

mutual
/-- Remove, below `d`, every directory reached by the relative path `p` (`p ≠ []`; on a real file system sibling
names are distinct and there is at most one). -/
def rmBelow (p : Path) : Dir → Dir
  | .mk name atime files subs => .mk name atime files (rmSubs p subs)
def rmSubs (p : Path) : List Dir → List Dir
  | [] => []
  | d :: r =>
    match p with
    | [] => d :: rmSubs p r
    | n :: rest =>
      if d.name = n then
        (if rest.isEmpty then rmSubs p r else rmBelow rest d :: rmSubs p r)
      else d :: rmSubs p r
end

/-- The tree after `clear_location(location)` did its work: `rm_subdirs` (the sub-directories go, the files stay)
for the store root, `rmtree` otherwise. -/
def removed (location : Path) (t : Dir) : Dir :=
  match location, t with
  | [], .mk name atime files _ => .mk name atime files []
  | p, t => rmBelow p t

/-- `self.clear_location(location)`: `(raised OSError?, tree afterwards)`. In the raising case the directory is
gone as well (someone else removed it — that is why the call raises). -/
def clearLocation (raises : Path → Bool) (location : Path) (t : Dir) : Bool × Dir :=
  (raises location, removed location t)

/-- The loop of `enforce_store_limits`; returns the tree and the `clear_location` calls made, in order. -/
def enforceLoop (raises : Path → Bool) : List (Item Path) → Dir → List Path → Dir × List Path
  | [], t, calls => (t, calls)
  | item :: rest, t, calls =>
    match clearLocation raises item.id t with
    | (true, t') => /- except OSError: pass -/ enforceLoop raises rest t' (calls ++ [item.id])
    | (false, t') => enforceLoop raises rest t' (calls ++ [item.id])

inductive BytesArg where
  | int (b : Int)
  | str (s : String)
deriving Repr, DecidableEq

inductive Outcome where
  | returned (tree : Dir) (calls : List Path)
  | raised (exc : String)
deriving Repr

/-- `if isinstance(bytes_limit, str): bytes_limit = memstr_to_bytes(bytes_limit)`. -/
def resolveBytes : Option BytesArg → Except String (Option Int)
  | none => .ok none
  | some (.int b) => .ok (some b)
  | some (.str s) =>
    match memstrToBytes s with
    | .ok b => .ok (some b)
    | .valueError => .error "ValueError"
    | .indexError => .error "IndexError"
    | .outside => .error "outside-modelled-grammar"

/-- `StoreBackendMixin.enforce_store_limits(bytes_limit, items_limit, age_limit)`. -/
def enforceStoreLimits (bytes : Option BytesArg) (items deadline : Option Int) (raises : Path → Bool)
    (t : Dir) : Outcome :=
  match resolveBytes bytes with
  | .error e => .raised e
  | .ok b =>
    let itemsToDelete := itemsToDelete (getItems t) ⟨b, items, deadline⟩
    let (t', calls) := enforceLoop raises itemsToDelete t []
    .returned t' calls

/-- `Memory.reduce_size(bytes_limit, items_limit, age_limit)`; `hasBackend = false` is `Memory(location=None)`. -/
def reduceSize (hasBackend : Bool) (bytes : Option BytesArg) (items deadline : Option Int)
    (raises : Path → Bool) (t : Dir) : Outcome :=
  if !hasBackend then .returned t []
  else if bytes.isNone && items.isNone && deadline.isNone then .returned t []
  else enforceStoreLimits bytes items deadline raises t

end JoblibModel.StoreLimits
