/-
M1L — a SMALL-STEP, MULTI-THREADED model of `joblib.Parallel` (joblib/parallel.py) for backends with
`supports_retrieve_callback`, `n_jobs ≥ 2`, one call on a fresh object, `return_as ∈ {list, generator}` (ordered, consumed
to the end), no timeout.  Companion of the big-step model M1 (`ParallelProto.lean`), whose completion callbacks are atomic.

THREADS.  `Tid = Nat`: thread 0 is the caller (`Parallel.__call__`, which is also the consumer of the output
generator); thread `i + 1` is the completion-callback thread of batch tracker `i` (`BatchCompletionCallBack.__call__`
run by the backend; the backend contract gives every submitted batch at most one callback).  Any number of callback
threads is alive at the same time.  The environment action `complete k` lets the backend finish the `k`-th parked
batch (the worker executes its tasks, in order, up to the first one that raises) and start its callback thread.

SCHEDULING POINTS (a step of a thread = the code from just after one point to just before the next):
  * outermost acquisition of `Parallel._lock` (the thread is parked BEFORE it; enabled only while the lock is free),
    outermost release (parked AFTER it);
  * entry of a backend call: `submit` [point `submit`], `batch_completed` [`stats`], `compute_batch_size` [`bs`],
    `retrieve_result_callback` [`retr`], `abort_everything` [`abort`]; `time.sleep` of the retrieval loop [`sleep`]
    (the effect of the call belongs to the step that follows);
  * every access WITHOUT the lock to `_aborting, _exception, _iterating, _original_iterator, n_dispatched_tasks,
    n_completed_tasks, _jobs` of the Parallel object and to `status` of a tracker [`r:<field>` / `w:<field>`]
    (parked BEFORE the access).  So an atomic step contains at most one unlocked access to these attributes: the
    unlocked reads of `_wait_retrieval` / `_retrieve` / `dispatch_one_batch` and the unlocked writes of
    `_reset_run_tracking` / `_start` / `_abort` / the `except` and `finally` blocks are all SEPARATE steps.
  NOT split (atomic with the step they occur in): accesses to attributes outside that list (`_aborted`, `_running`,
  `_calling`, `_nb_consumed`, `n_dispatched_batches`, `_jobs_set`, `_ready_batches`, `_call_id`, tracker `_result`),
  the calls `configure/start_call/stop_call/terminate/retrieval_context`, the input iterator's `__next__`, and
  everything executed while the thread owns the lock up to the next backend call.

WHAT IS ATOMIC.  `stepCaller` / `stepCb` execute exactly one such segment.  Inside a step that acquires the lock and
then runs several effects (`dispatch_one_batch`'s locked region, `submit`) the pc is first set to a MARKER
(`Pc.dIn`, `CbPc.bsC` = "inside the locked region") which the end of the step overwrites; a marker is never a parking
point (`Pc.dIn`) or coincides with a real one (`CbPc.bsC` = parked at `compute_batch_size`): this only makes every
intermediate state of the proofs consistent, the step function as a whole is unchanged.

CODE VARIANT.  `Cfg.recheck = false` is the pinned tree.  `true` models `_wait_retrieval` reading `_aborting` once more
before it returns False (candidate repair of the swallowed-iterator-error race, see `JoblibProofs/M1L.lean`).

Python → Lean: `_ready_batches`→`ready`, `_jobs`→`jobs` (tracker indices), `_original_iterator is not None`→`origAlive`,
the `pre_dispatch`-long islice→`preLeft`, trackers→`trk` (creation order; a tracker also carries the program counter
of its callback thread), `_call_id`→`callId`, the program counter of the caller→`pc` (constructors are named after the
point the thread is parked at), `lockOwner`.  Tasks are the ids `0 … n-1`, the task function is the identity, so the
sequential result is `List.range n`.  `nPop` (number of `popleft`s) and `srcRaised` are ghost fields.

The log records `pull` (with the thread and whether that thread owned the lock at that instant), `pullraise`, `submit`,
`complete`, `yield`, `ret`/`raise`/`stop`, `abort`.

NOT covered here: timeouts, `generator_unordered`, several calls on one object / stale callbacks, consumers that
abandon the generator, `__enter__/__exit__`, `n_jobs = 1`, verbose output.
Import-free, total, computable.
-/
namespace JoblibModel.ParallelLock

abbrev Tid := Nat

inductive Exc where
  | task (id : Nat)      -- raised by task `id`
  | iter (pos : Nat)     -- raised by the input iterable at position `pos`
  | runtime              -- "This Parallel instance is already running"
  | attr                 -- AttributeError: a tracker without `_result` was asked for its result
  | index                -- IndexError: `self._jobs[0]` on an empty deque
deriving DecidableEq, Repr, Inhabited

inductive Status where
  | pending | done | error
deriving DecidableEq, Repr, Inhabited

inductive Res where
  | none
  | vals (l : List Nat)
  | exc (e : Exc)
deriving DecidableEq, Repr, Inhabited

/-- Program counter of the callback thread of a tracker (named after the point it is parked at). -/
inductive CbPc where
  | idle                 -- tracker created, `backend.submit` not executed yet (never, for the iterator-error tracker)
  | parked               -- submitted, in the backend
  | dropped              -- cancelled by `abort_everything`
  | acqA                 -- `with self.parallel._lock:` in `__call__`
  | retr                 -- owns the lock, at `retrieve_result_callback`
  | relA (ok : Bool)     -- after the release of the first critical section; `ok` = `job_succeeded`
  | stats                -- at `batch_completed`
  | acqC                 -- `with self.parallel._lock:` in `_dispatch_new`
  | bsC                  -- owns the lock, at `compute_batch_size` (dispatch_next → dispatch_one_batch)
  | submitC (j : Nat)    -- owns the lock, at `submit` of tracker `j`
  | relC                 -- after the release of the second critical section
  | done (counted : Bool) -- finished; `counted` = it went through `n_completed_tasks +=`
deriving DecidableEq, Repr, Inhabited

structure Tracker where
  items : List Nat
  bsize : Nat
  callId : Nat
  status : Status := .pending
  result : Res := .none
  pc : CbPc := .idle
  failed : Option Nat := none      -- set by `complete`: the task that raised in the worker
deriving DecidableEq, Repr, Inhabited

structure Cfg where
  nj : Nat
  bsAuto : Bool
  bs : List Nat          -- auto: scripted `compute_batch_size()` values (last repeats); fixed: `[k]`
  pdMode : Nat           -- 0 int, 1 'all', 2 expression (evaluated to `pd`)
  pd : Nat
  ra : Nat               -- 0 list, 1 generator
  abortDrops : Bool
  n : Nat                -- number of tasks
  fails : List Nat       -- ids of the tasks that raise
  iterfail : Option Nat  -- position at which the input iterable raises
  recheck : Bool := false -- code variant: `_wait_retrieval` reads `_aborting` once more before it returns False
                          -- (the candidate repair of the swallowed-iterator-error race; the pinned tree is `false`)
deriving Repr, Inhabited

/-- Which call of `dispatch_one_batch` the caller is in: the first one of `_start`, or the `while` loop. -/
inductive DK where
  | first | loop
deriving DecidableEq, Repr, Inhabited

/-- Program counter of the caller thread; every constructor is the scheduling point the thread is parked at. -/
inductive Pc where
  | resetAcq                         -- acq   `_reset_run_tracking`: `with self._lock`
  | resetRel                         -- rel
  | wNDisp                           -- w:n_dispatched_tasks
  | wNComp                           -- w:n_completed_tasks
  | wExc0                            -- w:_exception
  | wAbort0                          -- w:_aborting
  | readyAcq                         -- acq   `__call__`: `with self._lock: self._ready_batches = Queue()`
  | readyRel                         -- rel
  | wOrig                            -- w:_original_iterator
  | wIter0                           -- w:_iterating   `_start`: `self._iterating = False`
  | dPre (k : DK)                    -- r:_aborting    `dispatch_one_batch`: `if self._aborting`
  | dBs (k : DK)                     -- bs
  | dAcq (k : DK) (bs : Nat)         -- acq
  | dIn (k : DK)                     -- (transient marker, never a parking point: inside the locked region of
                                     --  `dispatch_one_batch`, between two effects of one atomic step)
  | dSubmit (k : DK) (j : Nat)       -- submit (owns the lock)
  | dRel (k : DK) (r : Bool)         -- rel; `r` = value returned by `dispatch_one_batch`
  | itAcq                            -- acq   `_start`: `with self._lock: self._iterating = … is not None`
  | itRel                            -- rel
  | wIterAll                         -- w:_iterating   `_start`, `pre_dispatch == "all"`
  | wtAbort                          -- r:_aborting    `_wait_retrieval`
  | wtIter                           -- r:_iterating
  | wtNComp                          -- r:n_completed_tasks
  | wtNDisp (nc : Nat)               -- r:n_dispatched_tasks
  | wtAbort2                         -- r:_aborting    `_wait_retrieval`, second read (only with `Cfg.recheck`)
  | rtAbort                          -- r:_aborting    `_retrieve`
  | rtLen                            -- r:_jobs        `len(self._jobs)`
  | rtHead                           -- r:_jobs        `self._jobs[0]`
  | rtStatus (i : Nat)               -- r:status       `get_status`
  | sleep                            -- sleep
  | popAcq                           -- acq
  | popRel (i : Nat)                 -- rel
  | resStatus (i : Nat)              -- r:status       `_return_or_raise`
  | refAcq                           -- acq   `_raise_error_fast`
  | refRel (e : Option Nat)          -- rel
  | refStatus (i : Nat)              -- r:status
  | excW (e : Exc)                   -- w:_exception   `except BaseException`
  | abortW (e : Exc)                 -- w:_aborting    `_abort`
  | abortCall (e : Exc)              -- abort
  | finExc (e : Option Exc)          -- r:_exception   `finally`
  | finJobsR (e : Option Exc)        -- r:_jobs
  | finJobsW (e : Option Exc) (rem : List Nat)   -- w:_jobs
  | tailStatus (i : Nat) (rem : List Nat)        -- r:status   tail loop over `_remaining_outputs`
  | done
deriving DecidableEq, Repr, Inhabited

inductive Outcome where
  | ret (l : List Nat)
  | raised (e : Exc)
deriving DecidableEq, Repr, Inhabited

inductive Ev where
  | pull (t : Tid) (id : Nat) (locked : Bool)
  | pullraise (t : Tid)
  | submit (t : Tid) (ids : List Nat)
  | complete (i : Nat) (ids : List Nat)
  | yield (v : Nat)
  | ret (l : List Nat)
  | raise (e : Exc)
  | stop
  | abort
deriving DecidableEq, Repr, Inhabited

structure St where
  log : List Ev := []              -- newest first
  lockOwner : Option Tid := none
  pc : Pc := .resetAcq
  out : List Nat := []
  outcome : Option Outcome := none
  bsI : Nat := 0
  -- the input iterable
  srcPos : Nat := 0
  srcDead : Bool := false
  srcRaised : Bool := false
  -- the Parallel object
  preLeft : Option Nat := none
  origAlive : Bool := false
  ready : List (List Nat) := []
  jobs : List Nat := []
  trk : List Tracker := []
  nDispTasks : Nat := 0
  nCompleted : Nat := 0
  iterating : Bool := false
  aborting : Bool := false
  aborted : Bool := false
  exception : Bool := false
  running : Bool := false
  callId : Nat := 0
  nPop : Nat := 0                  -- ghost: number of `popleft`s of the retrieval loop
deriving DecidableEq, Repr, Inhabited

def init : St := {}

def getTrk (s : St) (i : Nat) : Tracker := s.trk.getD i default

def setTrk (s : St) (i : Nat) (t : Tracker) : St := { s with trk := s.trk.set i t }

def setCb (s : St) (i : Nat) (p : CbPc) : St := setTrk s i { getTrk s i with pc := p }

def ev (s : St) (e : Ev) : St := { s with log := e :: s.log }

/-- `[islice[i : i + k] for i in range(0, len(islice), k)]` for `k ≥ 1`. -/
def chunks (k : Nat) (l : List Nat) : List (List Nat) :=
  go l.length l
where
  go : Nat → List Nat → List (List Nat)
    | 0, _ => []
    | _, [] => []
    | fuel + 1, l => l.take (max k 1) :: go fuel (l.drop (max k 1))

/-- Position at which the input iterable stops producing items (by raising or by exhaustion). -/
def stopAt (c : Cfg) : Nat :=
  match c.iterfail with
  | some f => min f c.n
  | none => c.n

/-- The number of items one `islice(iterator, k)` may take: `k` through `_original_iterator` (callbacks, `fromOrig`);
through the caller's iterator additionally what the `pre_dispatch`-long islice has left. -/
def pullLim (fromOrig : Bool) (k : Nat) (s : St) : Nat :=
  if fromOrig then k else match s.preLeft with
    | some p => min k p
    | none => k

/-- `list(itertools.islice(iterator, k))` by thread `t`. `fromOrig`: through `_original_iterator` (callbacks) rather
than through the caller's iterator (the `pre_dispatch`-long islice, or the input itself for `pre_dispatch='all'`).
Returns the new state, the items, and whether the input iterable raised. -/
def pull (c : Cfg) (t : Tid) (fromOrig : Bool) (k : Nat) (s : St) : St × List Nat × Bool :=
  let lim := pullLim fromOrig k s
  if lim = 0 ∨ s.srcDead then (s, [], false)
  else
    let m := min lim (stopAt c - s.srcPos)
    let ids := List.range' s.srcPos m
    let hitEnd := decide (m < lim)
    let raised := hitEnd && (c.iterfail == some (s.srcPos + m))
    let locked := s.lockOwner == some t
    let evs := (ids.map (fun id => Ev.pull t id locked)).reverse
    let evs := if raised then Ev.pullraise t :: evs else evs
    ({ s with srcPos := s.srcPos + m, srcDead := hitEnd, srcRaised := raised,
              preLeft := if fromOrig then s.preLeft else s.preLeft.map (· - m),
              log := evs ++ s.log }, ids, raised)

/-- Result of the locked region of `dispatch_one_batch`: returned without calling the backend, or stopped at
`backend.submit` for tracker `j` (the lock is still held). -/
inductive DRes where
  | ret (r : Bool)
  | submit (j : Nat)
deriving DecidableEq, Repr, Inhabited

/-- `if len(tasks) == 0: return False else: self._dispatch(tasks); return True`, up to `backend.submit`. -/
def dispatchTasks (s : St) (tasks : List Nat) : St × DRes :=
  if tasks.length = 0 then (s, .ret false)
  else if s.aborting then (s, .ret true)          -- `_dispatch`: `if self._aborting: return`
  else
    let j := s.trk.length
    let t : Tracker := { items := tasks, bsize := tasks.length, callId := s.callId }
    ({ s with nDispTasks := s.nDispTasks + tasks.length, trk := s.trk ++ [t], jobs := s.jobs ++ [j] }, .submit j)

/-- The input iterable raised inside `dispatch_one_batch`: a tracker carrying the error is registered. -/
def registerIterError (bs : Nat) (s : St) : St :=
  let j := s.trk.length
  let t : Tracker := { items := [], bsize := bs, callId := s.callId, status := .error,
                       result := .exc (.iter s.srcPos) }
  { s with trk := s.trk ++ [t], jobs := s.jobs ++ [j], exception := true, aborting := true }

/-- The locked region of `dispatch_one_batch` (thread `t` owns the lock), given the batch size. -/
def dispatchLocked (c : Cfg) (t : Tid) (fromOrig : Bool) (bs : Nat) (s : St) : St × DRes :=
  if s.aborting then (s, .ret false) else
  match s.ready with
  | tasks :: rest => dispatchTasks { s with ready := rest } tasks
  | [] =>
    let big := bs * c.nj
    let (s, islice, raised) := pull c t fromOrig big s
    if raised then (registerIterError bs s, .ret true)
    else if islice.length = 0 then (s, .ret false)
    else
      let final :=
        if fromOrig && islice.length < big then max 1 (islice.length / (10 * c.nj))
        else max 1 (islice.length / c.nj)
      match chunks final islice with
      | [] => (s, .ret false)
      | tasks :: rest => dispatchTasks { s with ready := rest } tasks

/-- The scripted `compute_batch_size()` / the fixed batch size. -/
def scriptedBs (c : Cfg) (s : St) : Nat := c.bs.getD (min s.bsI (c.bs.length - 1)) 1

/-- `backend.submit(batch, callback=tracker)` for tracker `j` by thread `t`: the batch is parked in the backend. -/
def doSubmit (t : Tid) (j : Nat) (s : St) : St :=
  setCb (ev s (.submit t (getTrk s j).items)) j .parked

/-- Where the caller continues after `dispatch_one_batch` returned `r`. -/
def afterDispatch (c : Cfg) : DK → Bool → Pc
  | .first, true => .itAcq
  | .first, false => .dPre .loop
  | .loop, true => .dPre .loop
  | .loop, false => if c.pdMode == 1 then .wIterAll else .wtAbort

/-- `tracker._return_or_raise()` (after the unlocked read of `status`): the values, or the exception to raise. -/
def returnOrRaise (s : St) (i : Nat) : St × Except Exc (List Nat) :=
  let t := getTrk s i
  let s' := setTrk s i { t with result := .none }
  match t.result with
  | .none => (s, .error .attr)
  | .vals l => if t.status == .error then (s', .error .attr) else (s', .ok l)
  | .exc e => if t.status == .error then (s', .error e) else (s', .ok [])

def firstErrorJob (s : St) : List Nat → Option Nat
  | [] => none
  | i :: r => if (getTrk s i).status == .error then some i else firstErrorJob s r

/-- The consumer receives the values of one batch. -/
def deliverVals (c : Cfg) (s : St) (l : List Nat) : St :=
  let s := { s with out := s.out ++ l }
  if c.ra == 1 then { s with log := (l.map Ev.yield).reverse ++ s.log } else s

/-- The call ends normally. -/
def finishRet (c : Cfg) (s : St) : St :=
  let s := if c.ra == 1 then ev s .stop else ev s (.ret s.out)
  { s with pc := .done, outcome := some (.ret s.out) }

/-- The call ends by raising `e`. -/
def finishRaise (s : St) (e : Exc) : St :=
  { ev s (.raise e) with pc := .done, outcome := some (.raised e) }

/-- The tail loop over `_remaining_outputs`: next tracker, or the end of the call. -/
def tailNext (c : Cfg) (s : St) : List Nat → St
  | [] => finishRet c s
  | i :: rest => { s with pc := .tailStatus i rest }

/-- `abort_everything`: with `abortDrops` the backend cancels every batch it still holds. -/
def dropParked (s : St) : St :=
  { s with trk := s.trk.map (fun t => if t.pc == .parked then { t with pc := .dropped } else t) }

/-- One atomic step of the caller thread (thread 0). -/
def stepCaller (c : Cfg) (s : St) : St :=
  match s.pc with
  | .resetAcq =>
    -- `with self._lock: if self._running: raise …; self._running = True; self._call_id = uuid4().hex`
    if s.running then finishRaise s .runtime
    else { s with running := true, callId := s.callId + 1, pc := .resetRel }
  | .resetRel => { s with pc := .wNDisp }
  | .wNDisp => { s with nDispTasks := 0, pc := .wNComp }
  | .wNComp => { s with nCompleted := 0, pc := .wExc0 }
  | .wExc0 => { s with exception := false, pc := .wAbort0 }
  | .wAbort0 => { s with aborting := false, aborted := false, pc := .readyAcq }
  | .readyAcq => { s with ready := [], pc := .readyRel }
  | .readyRel => { s with pc := .wOrig }
  | .wOrig =>
    if c.pdMode == 1 then { s with origAlive := false, preLeft := none, pc := .wIter0 }
    else { s with origAlive := true, preLeft := some c.pd, pc := .wIter0 }
  | .wIter0 => { s with iterating := false, pc := .dPre .first }
  | .dPre k =>
    if s.aborting then { s with pc := afterDispatch c k false }
    else if c.bsAuto then { s with pc := .dBs k }
    else { s with pc := .dAcq k (scriptedBs c s) }
  | .dBs k => { s with bsI := s.bsI + 1, pc := .dAcq k (scriptedBs c s) }
  | .dAcq k bs =>
    match dispatchLocked c 0 false bs { s with lockOwner := some 0, pc := .dIn k } with
    | (s, .submit j) => { s with pc := .dSubmit k j }
    | (s, .ret r) => { s with lockOwner := none, pc := .dRel k r }
  | .dIn _ => s
  | .dSubmit k j => { doSubmit 0 j { s with pc := .dIn k } with lockOwner := none, pc := .dRel k true }
  | .dRel k r => { s with pc := afterDispatch c k r }
  | .itAcq => { s with iterating := s.origAlive, pc := .itRel }
  | .itRel => { s with pc := .dPre .loop }
  | .wIterAll => { s with iterating := false, pc := .wtAbort }
  | .wtAbort => if s.aborting then { s with pc := .rtAbort } else { s with pc := .wtIter }
  | .wtIter => if s.iterating then { s with pc := .rtAbort } else { s with pc := .wtNComp }
  | .wtNComp => { s with pc := .wtNDisp s.nCompleted }
  | .wtNDisp nc =>
    if nc < s.nDispTasks then { s with pc := .rtAbort }
    else if c.recheck then { s with pc := .wtAbort2 }
    else { s with pc := .finExc none }
  | .wtAbort2 => if s.aborting then { s with pc := .rtAbort } else { s with pc := .finExc none }
  | .rtAbort => if s.aborting then { s with pc := .refAcq } else { s with pc := .rtLen }
  | .rtLen => if s.jobs.length = 0 then { s with pc := .sleep } else { s with pc := .rtHead }
  | .rtHead =>
    match s.jobs with
    | [] => { s with pc := .excW .index }
    | i :: _ => { s with pc := .rtStatus i }
  | .rtStatus i => if (getTrk s i).status == .pending then { s with pc := .sleep } else { s with pc := .popAcq }
  | .sleep => { s with pc := .wtAbort }
  | .popAcq =>
    match s.jobs with
    | [] => { s with pc := .excW .index }
    | i :: rest => { s with jobs := rest, nPop := s.nPop + 1, pc := .popRel i }
  | .popRel i => { s with pc := .resStatus i }
  | .resStatus i =>
    match returnOrRaise s i with
    | (s, .error e) => { s with pc := .excW e }
    | (s, .ok l) => { deliverVals c s l with pc := .wtAbort }
  | .refAcq => { s with pc := .refRel (firstErrorJob s s.jobs) }
  | .refRel none => { s with pc := .finExc none }
  | .refRel (some i) => { s with pc := .refStatus i }
  | .refStatus i =>
    match returnOrRaise s i with
    | (s, .error e) => { s with pc := .excW e }
    | (s, .ok _) => { s with pc := .finExc none }
  | .excW e => { s with exception := true, pc := .abortW e }
  | .abortW e =>
    if s.aborted then { s with aborting := true, pc := .finExc (some e) }
    else { s with aborting := true, pc := .abortCall e }
  | .abortCall e =>
    let s := ev s .abort
    let s := if c.abortDrops then dropParked s else s
    { s with aborted := true, pc := .finExc (some e) }
  | .finExc e => if s.exception then { s with pc := .finJobsW e [] } else { s with pc := .finJobsR e }
  | .finJobsR e => { s with pc := .finJobsW e s.jobs }
  | .finJobsW e rem =>
    let s := { s with jobs := [], running := false }
    match e with
    | some e => finishRaise s e
    | none => tailNext c s rem
  | .tailStatus i rem =>
    match returnOrRaise s i with
    | (s, .error e) => finishRaise s e
    | (s, .ok l) => tailNext c (deliverVals c s l) rem
  | .done => s

/-- What a callback thread does once `dispatch_one_batch(self._original_iterator)` has returned `r` inside
`dispatch_next` (lock held): clear the flags when nothing was dispatched, then leave `_dispatch_new`. -/
def cbAfterDispatch (i : Nat) (s : St) (r : Bool) : St :=
  let s := if r then s else { s with iterating := false, origAlive := false }
  setCb { s with lockOwner := none } i .relC

def cbDispatchResult (i : Nat) : St × DRes → St
  | (s, .submit j) => setCb s i (.submitC j)
  | (s, .ret r) => cbAfterDispatch i s r

/-- One atomic step of the callback thread of tracker `i` (thread `i + 1`). -/
def stepCb (c : Cfg) (i : Nat) (s : St) : St :=
  let t := getTrk s i
  match t.pc with
  | .acqA =>
    if s.callId != t.callId then setCb s i (.relA false)
    else if s.aborting then setCb s i (.relA false)
    else setCb { s with lockOwner := some (i + 1) } i .retr
  | .retr =>
    -- `_retrieve_result` → `_register_outcome`, then the release of the first critical section
    let s := { s with lockOwner := none }
    if t.status != .pending then setCb s i (.relA (t.failed == none))
    else
      match t.failed with
      | some id =>
        setTrk { s with exception := true, aborting := true } i
          { t with status := .error, result := .exc (.task id), pc := .relA false }
      | none => setTrk s i { t with status := .done, result := .vals t.items, pc := .relA true }
  | .relA ok => setCb s i (if ok then .stats else .done false)
  | .stats => setCb s i .acqC
  | .acqC =>
    if s.origAlive then
      -- `dispatch_next` → `dispatch_one_batch(self._original_iterator)`; the pc is set to the marker `bsC`
      -- ("inside dispatch_next, lock held") first; every branch below overwrites it unless the thread really
      -- parks at `compute_batch_size`
      let s := setCb { s with lockOwner := some (i + 1), nCompleted := s.nCompleted + t.bsize } i .bsC
      if s.aborting then cbAfterDispatch i s false
      else if c.bsAuto then s
      else cbDispatchResult i (dispatchLocked c (i + 1) true (scriptedBs c s) s)
    else setCb { s with nCompleted := s.nCompleted + t.bsize } i .relC
  | .bsC =>
    let bs := scriptedBs c s
    cbDispatchResult i (dispatchLocked c (i + 1) true bs { s with bsI := s.bsI + 1 })
  | .submitC j => cbAfterDispatch i (doSubmit (i + 1) j (setCb s i .bsC)) true
  | .relC => setCb s i (.done true)
  | _ => s

/-- The backend finishes parked batch `i`: its tasks run in order up to the first that raises, and the callback
thread is created, parked at its first lock acquisition. -/
def complete (c : Cfg) (i : Nat) (s : St) : St :=
  let t := getTrk s i
  setTrk (ev s (.complete i t.items)) i { t with pc := .acqA, failed := t.items.find? (fun id => c.fails.contains id) }

def Pc.isAcq : Pc → Bool
  | .resetAcq | .readyAcq | .dAcq _ _ | .itAcq | .popAcq | .refAcq => true
  | _ => false

def callerEnabled (s : St) : Bool :=
  s.pc != .done && (!s.pc.isAcq || s.lockOwner == none)

def cbEnabled (s : St) (i : Nat) : Bool :=
  match (getTrk s i).pc with
  | .idle | .parked | .dropped | .done _ => false
  | .acqA | .acqC => s.lockOwner == none
  | _ => true

/-- Indices of the parked trackers, in submission order. -/
def parkedIds (s : St) : List Nat :=
  (List.range s.trk.length).filter (fun i => (getTrk s i).pc == .parked)

inductive Act where
  | thread (t : Tid)
  | complete (k : Nat)       -- the `k`-th parked batch
deriving DecidableEq, Repr, Inhabited

def enabled (s : St) : Act → Bool
  | .thread 0 => callerEnabled s
  | .thread (i + 1) => cbEnabled s i
  | .complete k => k < (parkedIds s).length

/-- One action; an action that is not enabled leaves the state unchanged. -/
def step (c : Cfg) (s : St) : Act → St
  | .thread 0 => if callerEnabled s then stepCaller c s else s
  | .thread (i + 1) => if cbEnabled s i then stepCb c i s else s
  | .complete k =>
    match (parkedIds s)[k]? with
    | some i => complete c i s
    | none => s

def run (c : Cfg) (s : St) : List Act → St
  | [] => s
  | a :: r => run c (step c s a) r

/-- All enabled actions in canonical order: caller, callback threads by tracker, completions by submission order. -/
def enabledActs (s : St) : List Act :=
  (if callerEnabled s then [Act.thread 0] else []) ++
  ((List.range s.trk.length).filter (cbEnabled s)).map (fun i => Act.thread (i + 1)) ++
  (List.range (parkedIds s).length).map Act.complete

/-- The action picked by choice `ch`. -/
def pick (s : St) (ch : Nat) : Option Act :=
  let a := enabledActs s
  if a.length = 0 then none else a[ch % a.length]?

/-- After the schedule is used up: the last enabled action (drains completions and callbacks, then the caller). -/
def pickLast (s : St) : Option Act := (enabledActs s).getLast?

-- rendering, for the driver

def excStr : Exc → String
  | .task id => "TaskBoom(" ++ toString id ++ ")"
  | .iter id => "IterBoom(" ++ toString id ++ ")"
  | .runtime => "RuntimeError"
  | .attr => "AttributeError"
  | .index => "IndexError"

def idsStr (l : List Nat) : String := ",".intercalate (l.map toString)

def evStr : Ev → String
  | .pull _ id _ => "pull " ++ toString id
  | .pullraise _ => "pullraise"
  | .submit _ ids => "submit " ++ idsStr ids
  | .complete _ ids => "complete " ++ idsStr ids
  | .yield v => "yield " ++ toString v
  | .ret l => "ret " ++ idsStr l
  | .raise e => "raise " ++ excStr e
  | .stop => "stop"
  | .abort => "abort"

def Pc.point : Pc → String
  | .resetAcq | .readyAcq | .dAcq _ _ | .itAcq | .popAcq | .refAcq => "acq"
  | .resetRel | .readyRel | .dRel _ _ | .itRel | .popRel _ | .refRel _ => "rel"
  | .wNDisp => "w:n_dispatched_tasks"
  | .wNComp => "w:n_completed_tasks"
  | .wExc0 | .excW _ => "w:_exception"
  | .wAbort0 | .abortW _ => "w:_aborting"
  | .wOrig => "w:_original_iterator"
  | .wIter0 | .wIterAll => "w:_iterating"
  | .dPre _ | .wtAbort | .rtAbort | .wtAbort2 => "r:_aborting"
  | .dBs _ => "bs"
  | .dSubmit _ _ => "submit"
  | .dIn _ => "in"
  | .wtIter => "r:_iterating"
  | .wtNComp => "r:n_completed_tasks"
  | .wtNDisp _ => "r:n_dispatched_tasks"
  | .rtLen | .rtHead | .finJobsR _ => "r:_jobs"
  | .rtStatus _ | .resStatus _ | .refStatus _ | .tailStatus _ _ => "r:status"
  | .sleep => "sleep"
  | .abortCall _ => "abort"
  | .finExc _ => "r:_exception"
  | .finJobsW _ _ => "w:_jobs"
  | .done => "done"

def CbPc.point : CbPc → String
  | .idle => "idle"
  | .parked => "parked"
  | .dropped => "dropped"
  | .acqA | .acqC => "acq"
  | .retr => "retr"
  | .relA _ | .relC => "rel"
  | .stats => "stats"
  | .bsC => "bs"
  | .submitC _ => "submit"
  | .done _ => "done"

end JoblibModel.ParallelLock
