/-
Model of the SIGNAL side of the resource tracker's life — property C20: "the tracker outlives ^C and killall python".

Python → Lean
* `joblib/externals/loky/backend/resource_tracker.py`
  `_IGNORED_SIGNALS = (SIGINT, SIGTERM)`                          : `Sig`
  `ensure_running`: `pthread_sigmask(SIG_BLOCK, _IGNORED_SIGNALS)` around
  `spawnv_passfds` (bpo-33613) — the child starts with both blocked : `launched` (the pending bits = what arrived
                                                                    between the spawn and the first statement of `main`)
  `main`: `signal.signal(SIGINT, SIG_IGN)`                        : `Ev.ignore .int`
          `signal.signal(SIGTERM, SIG_IGN)`                       : `Ev.ignore .term`
          `signal.pthread_sigmask(SIG_UNBLOCK, _IGNORED_SIGNALS)` : `Ev.unblockAll`
  (in this order: `mainStart`); everything after it — the command loop, the EOF clean-up — changes neither the mask nor
  the dispositions.
* the kernel (POSIX `sigaction`/`sigprocmask`; modelled, not verified):
  a signal whose disposition is `SIG_IGN` is discarded when it is generated; a blocked, not ignored signal stays pending
  (one bit per signal); setting the disposition to `SIG_IGN` discards the pending one; unblocking delivers what is
  pending; delivery with the disposition the interpreter starts with ends `main` — SIGTERM terminates the process,
  SIGINT raises `KeyboardInterrupt` in `main`, which has no handler for it (before the registry exists, or inside the
  loop: the `finally:` clean-up is then the only thing left, and a second one ends that too): `alive := false`.
Import-free, total, computable.
-/
namespace JoblibModel.TrackerSignals

inductive Sig where
  | int | term
deriving DecidableEq, Repr

/-- Per signal: in the thread's mask, disposition `SIG_IGN`, pending. -/
structure Per where
  blocked : Bool
  ignored : Bool
  pending : Bool
deriving DecidableEq, Repr

structure St where
  int : Per
  term : Per
  alive : Bool
deriving DecidableEq, Repr

def St.get (s : St) : Sig → Per
  | .int => s.int
  | .term => s.term

def St.set (s : St) (g : Sig) (p : Per) : St :=
  match g with
  | .int => { s with int := p }
  | .term => { s with term := p }

inductive Ev where
  /-- the kernel generates the signal for the tracker process (`kill`, ^C to the process group, `killall python`) -/
  | arrive (g : Sig)
  /-- `signal.signal(g, SIG_IGN)` -/
  | ignore (g : Sig)
  /-- `signal.pthread_sigmask(SIG_UNBLOCK, _IGNORED_SIGNALS)` -/
  | unblockAll
deriving DecidableEq, Repr

/-- Delivery of what is pending for `p` when it leaves the mask. -/
def Per.fatalWhenUnblocked (p : Per) : Bool := p.pending && !p.ignored

def sigStep (s : St) : Ev → St
  | .arrive g =>
    if !s.alive then s
    else
      let p := s.get g
      if p.ignored then s                                              -- discarded
      else if p.blocked then s.set g { p with pending := true }        -- stays pending
      else { s with alive := false }                                   -- delivered with the start-up disposition
  | .ignore g =>
    if !s.alive then s else s.set g { (s.get g) with ignored := true, pending := false }
  | .unblockAll =>
    if !s.alive then s
    else
      { int := { s.int with blocked := false, pending := false },
        term := { s.term with blocked := false, pending := false },
        alive := !(s.int.fatalWhenUnblocked || s.term.fatalWhenUnblocked) }

def sigRun (s : St) (evs : List Ev) : St := evs.foldl sigStep s

/-- The tracker process as `ensure_running` spawns it: both signals blocked, dispositions as the interpreter sets them
up, `pi`/`pt` = a SIGINT / SIGTERM already arrived before `main` runs. -/
def launched (pi pt : Bool) : St := { int := ⟨true, false, pi⟩, term := ⟨true, false, pt⟩, alive := true }

/-- A process spawned WITHOUT the launcher's mask (for contrast). -/
def unprotected : St := { int := ⟨false, false, false⟩, term := ⟨false, false, false⟩, alive := true }

/-- The head of `main`, as the code has it. -/
def mainStart : List Ev := [.ignore .int, .ignore .term, .unblockAll]

def arrivals (a : List Sig) : List Ev := a.map .arrive

/-- The start-up of `main` with signals arriving at every point: `a0` before the first statement, `a1`, `a2` between
the statements, `a3` for the rest of the tracker's life (command loop, EOF clean-up). -/
def schedule (a0 a1 a2 a3 : List Sig) : List Ev :=
  arrivals a0 ++ .ignore .int :: (arrivals a1 ++ .ignore .term :: (arrivals a2 ++ .unblockAll :: arrivals a3))

/-- The tracker's life under the schedule. -/
def life (pi pt : Bool) (a0 a1 a2 a3 : List Sig) : St := sigRun (launched pi pt) (schedule a0 a1 a2 a3)

end JoblibModel.TrackerSignals
