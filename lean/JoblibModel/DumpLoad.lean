import JoblibModel.Generated.Tables
/-!
Model of the compress-argument resolution of `joblib.numpy_pickle.dump`, of the writer selection
(`numpy_pickle_utils._write_fileobject`) and of the content sniffing of `joblib.load`
(`numpy_pickle_utils._detect_compressor` / `_validate_fileobject_and_memmap`) — property C03.

The constant tables (`_COMPRESSORS` order, magic prefixes, extensions, `lz4 is None`, CPython's pickle
opcode tables) come from `JoblibModel.Generated.Tables`, regenerated from the live objects every run.

Python → Lean
* `compress` (any Python value)      : `CompressArg` — `val l` (the `else:` branch and `compress is True`),
                                       `str s`, `tuple2 m l`, `tupleN n` (a tuple with `n ≠ 2` elements)
* what sits in the level position    : `PyLevel` — `none`, `bool b`, `int n`, `float n` (an INTEGRAL float of
                                       value `n`, e.g. `3.0`), `other` (anything equal to no integer: `'3'`,
                                       `[1]`, `2.5`, `b'zlib'`, …)
* what sits in the method position   : `PyMethod` — `str s`, `hashable` (a non-string hashable object: `None`,
                                       `3`), `unhashable` (`['zlib']`: `x in _COMPRESSORS` raises TypeError)
* `filename`                         : `Target` — `path name` (a `str`, or a `pathlib.Path` after `str()`),
                                       `fileobj` (`hasattr(filename, "write")`: open file, `io.BytesIO`),
                                       `other` (neither)
* `compress_method`, `compress_level` at the final `if compress_level != 0:` : `Resolved`
* the file object the pickler writes to : `Writer` — `raw` or `codec name level` (`level = none`: the
                                       codec's own default)
* `_detect_compressor(fileobj)`      : `detect`
* `dump` / `load` end to end, with `pickle`, `unpickle` and the codecs as parameters : `dump`, `load` over `Env`
* `_detect_compressor` / `load` on an open file object whose cursor is at `pos` : `sniff`, `loadAt`
* several `dump` / `load` calls in one process, module globals re-bound in between (`importlib.reload`, a class
  statement run again, assignment) : `Proc` (files + bindings), `HOp`, `hstep`, `hfinal`, `hreplies`; what CPython's
  pickle does under given bindings is the parameter `envOf : B → Env Obj` (`histEnv`: the instance the driver runs)

Import-free (but for the generated table), total, computable.
-/
namespace JoblibModel.DumpLoad
open JoblibModel.Generated

abbrev Bytes := List Nat

inductive Err
  | valueError
  | typeError
deriving DecidableEq, Repr, Inhabited

def Err.name : Err → String
  | .valueError => "ValueError"
  | .typeError => "TypeError"

inductive PyLevel
  | none
  | bool (b : Bool)
  | int (n : Int)
  | float (n : Int)
  | other
deriving DecidableEq, Repr, Inhabited

inductive PyMethod
  | str (s : String)
  | hashable
  | unhashable
deriving DecidableEq, Repr, Inhabited

inductive CompressArg
  | val (l : PyLevel)
  | str (s : String)
  | tuple2 (m : PyMethod) (l : PyLevel)
  | tupleN (n : Nat)
deriving DecidableEq, Repr, Inhabited

inductive Target
  | path (name : String)
  | fileobj
  | other
deriving DecidableEq, Repr, Inhabited

/-! ### Python's comparison semantics on the level position -/

/-- `compress_level in range(10)` (membership by `==`: `True == 1`, `3.0 == 3`). -/
def PyLevel.inRange10 : PyLevel → Bool
  | .none => false
  | .bool _ => true
  | .int n => decide (0 ≤ n) && decide (n < 10)
  | .float n => decide (0 ≤ n) && decide (n < 10)
  | .other => false

/-- `compress_level == 0` (`False == 0`, `0.0 == 0`). -/
def PyLevel.eqZero : PyLevel → Bool
  | .none => false
  | .bool b => !b
  | .int n => decide (n = 0)
  | .float n => decide (n = 0)
  | .other => false

/-! ### The tables as the code uses them -/

/-- `name in _COMPRESSORS`. -/
def registered (s : String) : Bool := compressors.any (fun c => c.name == s)

/-- `_COMPRESSORS[name]`. -/
def lookup (s : String) : Option CompressorEntry := compressors.find? (fun c => c.name == s)

/-- `filename.endswith(ext)`. -/
def endsWith (name ext : String) : Bool := ext.toList.isSuffixOf name.toList

/-- The loop `for name, compressor in _COMPRESSORS.items(): if filename.endswith(compressor.extension):
compress_method = name` — the LAST match wins. -/
def extLoop (filename : String) : List CompressorEntry → Option String → Option String
  | [], acc => acc
  | c :: cs, acc => extLoop filename cs (if endsWith filename c.ext then some c.name else acc)

def extMethod (filename : String) : Option String := extLoop filename compressors none

/-! ### `dump`: the `if/elif` ladder -/

/-- `(compress_method, compress_level)` as they stand at the final `if compress_level != 0:`.
`method = none` is Python's `None` (set by "unset the variable…" for a path without a known extension). -/
structure Resolved where
  method : Option String
  level : PyLevel
deriving DecidableEq, Repr, Inhabited

/-- `compress_method = "zlib"; if compress is True: … elif isinstance(compress, tuple): … elif
isinstance(compress, str): … else: …` — yields `(compress_method, compress_level, isinstance(compress, tuple))`
as they stand after this first `if/elif` (the `str` branch REBINDS `compress` to a tuple). -/
def parseArg : CompressArg → Except Err (PyMethod × PyLevel × Bool)
  | .val (.bool true) => .ok (.str "zlib", .none, false)   -- compress is True
  | .tupleN _ => .error .valueError                         -- len(compress) != 2
  | .tuple2 m l => .ok (m, l, true)
  | .str s => .ok (.str s, .none, true)                     -- compress = (compress_method, None)
  | .val l => .ok (.str "zlib", l, false)                   -- compress_level = compress

/-- `compress_level is not None and compress_level is not False and compress_level not in range(10)`. -/
def levelBad (l : PyLevel) : Bool := l != .none && l != .bool false && !l.inRange10

/-- `if compress_method not in _COMPRESSORS: raise ValueError` (`TypeError` from the dict for an unhashable). -/
def checkMethod : PyMethod → Except Err String
  | .unhashable => .error .typeError
  | .hashable => .error .valueError
  | .str s => if registered s then .ok s else .error .valueError

/-- From `if not is_filename and not is_fileobj` to the end of the extension block. -/
def finish (name : String) (compress_level : PyLevel) (isTuple : Bool) : Target → Except Err Resolved
  | .other => .error .valueError
  | .fileobj => .ok ⟨some name, compress_level⟩
  | .path fname =>
    if isTuple then .ok ⟨some name, compress_level⟩
    else
      -- compress_method = None; for … if filename.endswith(compressor.extension): compress_method = name
      let m := extMethod fname
      -- if compress_method in _COMPRESSORS and compress_level == 0: compress_level = None
      if m.isSome && compress_level.eqZero then .ok ⟨m, .none⟩ else .ok ⟨m, compress_level⟩

/-- The checks after the first `if/elif`, in the code's order (so that with several things wrong the same
error wins): lz4 availability, level validity, method registered, target kind, extension block. -/
def resolveTail (compress_method : PyMethod) (compress_level : PyLevel) (isTuple : Bool)
    (filename : Target) : Except Err Resolved :=
  -- if compress_method == "lz4" and lz4 is None
  if compress_method == .str "lz4" && !lz4Installed then .error .valueError
  else if levelBad compress_level then .error .valueError
  else match checkMethod compress_method with
    | .error e => .error e
    | .ok name => finish name compress_level isTuple filename

/-- The whole ladder of `dump` up to `if compress_level != 0:`. -/
def resolve (compress : CompressArg) (filename : Target) : Except Err Resolved :=
  match parseArg compress with
  | .error e => .error e
  | .ok (compress_method, compress_level, isTuple) =>
    resolveTail compress_method compress_level isTuple filename

/-- What produces the bytes. -/
inductive Writer
  | raw
  | codec (name : String) (level : Option Nat)
deriving DecidableEq, Repr, Inhabited

def errOfName (s : String) : Option Err :=
  if s = "ValueError" then some .valueError else if s = "TypeError" then some .typeError else none

/-- `if compress_level != 0: _write_fileobject(filename, compress=(compress_method, compress_level))`
`elif is_filename: open(filename, "wb")` `else: filename` — the last two both write the raw pickle.
`_write_fileobject` falls back to zlib when the method is not a registered name (`None`). -/
def writer (r : Resolved) : Except Err Writer :=
  if r.level.eqZero then .ok .raw
  else
    let name := match r.method with
      | some m => if registered m then m else "zlib"
      | none => "zlib"
    match lookup name with
    | none => .error .valueError        -- unreachable when "zlib" is registered (table theorem)
    | some c =>
      if c.available = false then .error .valueError   -- `_check_versions()`: LZ4 is not installed
      else match r.level with
        | .none => .ok (.codec name none)
        | .bool _ => .ok (.codec name (some 1))       -- `True` (False is `== 0`)
        | .int n => .ok (.codec name (some n.toNat))
        | .float _ =>                                   -- the codec's file object rejects a float level
          match errOfName c.floatLevelErr with
          | some e => .error e
          | none => .ok (.codec name none)
        | .other => .error .valueError                  -- unreachable after `resolve`

/-- `dump` up to the choice of the writer: the exception class, or what writes. -/
def dumpHeader (compress : CompressArg) (filename : Target) : Except Err Writer :=
  match resolve compress filename with
  | .error e => .error e
  | .ok r => writer r

/-! ### `load`: content sniffing -/

inductive Detected
  | compat
  | method (name : String)
  | notCompressed
deriving DecidableEq, Repr, Inhabited

/-- `first_bytes.startswith(prefix)`. -/
def startsWith (first_bytes pfx : Bytes) : Bool := pfx.isPrefixOf first_bytes

/-- `_get_prefixes_max_len()`. -/
def maxPrefixLen : Nat :=
  (compressors.map (fun c => c.pfx.length) ++ [zfilePrefix.length]).foldl max 0

/-- `for name, compressor in _COMPRESSORS.items(): if first_bytes.startswith(compressor.prefix): return name`. -/
def detectIn (first_bytes : Bytes) : List CompressorEntry → Detected
  | [] => .notCompressed
  | c :: cs => if startsWith first_bytes c.pfx then .method c.name else detectIn first_bytes cs

/-- `_detect_compressor`: reads (or peeks) `max_prefix_len` bytes and tests the prefixes in order. -/
def detect (file : Bytes) : Detected :=
  let first_bytes := file.take maxPrefixLen
  if startsWith first_bytes zfilePrefix then .compat else detectIn first_bytes compressors

/-! ### The ways a pickle can start (CPython's tables) -/

/-- `file` starts the way `pickle._Pickler.dump` of a protocol `0 … HIGHEST_PROTOCOL` can start:
`PROTO` + the protocol number for protocols ≥ 2; for protocols 0/1 an opcode that needs nothing on the
stack — and, when that opcode has no inline argument, a second opcode after it. -/
def isPickleStart (file : Bytes) : Bool :=
  match file with
  | [] => false
  | b0 :: rest =>
    (b0 == pickleProtoOpcode &&
      (match rest with
       | b1 :: _ => decide (2 ≤ b1) && decide (b1 ≤ pickleHighestProtocol)
       | [] => false))
    || pickleFirstOpsWithArg.contains b0
    || (pickleFirstOpsNoArg.contains b0 &&
      (match rest with
       | b1 :: _ => pickleAllOpcodes.contains b1
       | [] => false))

/-- Table-level check used by the theorems: could a file beginning with magic prefix `p` also begin like a pickle? -/
def prefixMayStartPickle (p : Bytes) : Bool :=
  match p with
  | [] => true
  | b0 :: rest =>
    (b0 == pickleProtoOpcode &&
      (match rest with
       | b1 :: _ => decide (2 ≤ b1) && decide (b1 ≤ pickleHighestProtocol)
       | [] => true))
    || pickleFirstOpsWithArg.contains b0
    || (pickleFirstOpsNoArg.contains b0 &&
      (match rest with
       | b1 :: _ => pickleAllOpcodes.contains b1
       | [] => true))

/-! ### `dump` and `load` end to end, CPython's pickle and the codecs being parameters -/

structure Env (Obj : Type) where
  /-- `NumpyPickler(f, protocol).dump(value)` -/
  pickle : Nat → Obj → Bytes
  /-- `NumpyUnpickler(...).load()` -/
  unpickle : Bytes → Option Obj
  /-- the compressor's file object in write mode, closed: name, level (`none` = default), payload -/
  compress : String → Option Nat → Bytes → Bytes
  /-- the compressor's file object in read mode, read to the end -/
  decompress : String → Bytes → Option Bytes

def dump {Obj : Type} (E : Env Obj) (value : Obj) (compress : CompressArg) (filename : Target)
    (protocol : Nat) : Except Err Bytes :=
  match dumpHeader compress filename with
  | .error e => .error e
  | .ok .raw => .ok (E.pickle protocol value)
  | .ok (.codec n l) => .ok (E.compress n l (E.pickle protocol value))

/-- `load`; `fileName` is what the file is called at load time (the code uses it for messages, memory
mapping and the pre-0.10 layout only — never to choose the decompressor). `compat` files (`ZF` prefix,
joblib < 0.10) go to `load_compatibility`, outside this model. -/
def load {Obj : Type} (E : Env Obj) (_fileName : String) (file : Bytes) : Option Obj :=
  match detect file with
  | .compat => none
  | .method n => (E.decompress n file).bind E.unpickle
  | .notCompressed => E.unpickle file

/-! ### `load` from an OPEN FILE OBJECT whose cursor is at `pos` (a dump written after an application header,
several dumps back to back in one file) -/

/-- `_detect_compressor(fileobj)` with the cursor at `pos`: what it answers and where the cursor is afterwards.
`peekable` (`hasattr(fileobj, "peek")`: buffered files): `first_bytes = fileobj.peek(max_prefix_len)` — the cursor
does not move, but `peek` returns what the read buffer happens to hold after the cursor, `peeked` bytes (at least
one unless at end of file; the buffer is refilled only when it is empty), NOT necessarily `max_prefix_len`;
when it is shorter and the object is `seekable()` the code (since the F43 repair) reads `max_prefix_len` bytes and
seeks back to where it was, so the answer no longer depends on the state of the read buffer.
Otherwise (raw files, `io.BytesIO`, wrappers): `first_bytes = fileobj.read(max_prefix_len); fileobj.seek(0)` —
the object is REWOUND TO BYTE 0 (intended: joblib's tests do `f = io.BytesIO(); dump(obj, f); load(f)`), while the
magic number was looked for where the cursor was. -/
def sniff (peekable : Bool) (peeked : Nat) (file : Bytes) (pos : Nat) (seekable : Bool := true) :
    Detected × Nat :=
  if peekable then
    if peeked < maxPrefixLen && seekable then
      -- (F43 repair) `position = tell(); first_bytes = read(max_prefix_len); seek(position)`
      (detect ((file.drop pos).take maxPrefixLen), pos)
    else (detect ((file.drop pos).take peeked), pos)
  else (detect (file.drop pos), 0)

/-- `load(fileobj)`: sniff, then decode from wherever the cursor now is. -/
def loadAt {Obj : Type} (E : Env Obj) (peekable : Bool) (peeked : Nat) (_fileName : String) (file : Bytes)
    (pos : Nat) (seekable : Bool := true) : Option Obj :=
  match sniff peekable peeked file pos seekable with
  | (.compat, _) => none
  | (.method n, p) => (E.decompress n (file.drop p)).bind E.unpickle
  | (.notCompressed, p) => E.unpickle (file.drop p)

/-! ### HISTORIES: several `dump` / `load` calls in one process, the process' bindings changing in between

What CPython's unpickler does with a pickle depends on the process: a class or function is pickled BY REFERENCE
(`module`, `qualified name`) and `find_class` resolves the reference against `sys.modules` when the file is LOADED.
`B` is that part of the process (the bindings of the module globals, re-bound by `importlib.reload`, by running a
class statement again, by assignment); `envOf b` is what `pickle` / `unpickle` / the codecs do under bindings `b`.
`joblib.dump` / `joblib.load` themselves keep NO state between calls (`NumpyPickler` / `NumpyUnpickler` objects, their
memo and the file objects are created per call; `_COMPRESSORS` is only read): the state of the process as far as
`dump`/`load` are concerned is the files and the bindings.  `slot` is where the bytes are kept (the path, or the
`io.BytesIO` object); it is separate from `filename : Target`, which is what `dump` looks at (extension, kind). -/

structure Proc (B : Type) where
  /-- slot ↦ content; the first entry for a slot is the current one -/
  files : List (String × Bytes)
  bindings : B

inductive HOp (B Obj : Type)
  | dump (slot : String) (value : Obj) (compress : CompressArg) (filename : Target) (protocol : Nat)
  | load (slot : String)
  /-- a module global is re-bound -/
  | rebind (f : B → B)

inductive HReply (Obj : Type)
  | dumped
  /-- `dump` raised before anything was opened: the slot keeps what it held -/
  | dumpErr (e : Err)
  | loaded (r : Option Obj)
  | noFile
  | rebound
deriving DecidableEq, Repr

def hstep {B Obj : Type} (envOf : B → Env Obj) (s : Proc B) : HOp B Obj → Proc B × HReply Obj
  | .dump slot value compress filename protocol =>
    match dump (envOf s.bindings) value compress filename protocol with
    | .error e => (s, .dumpErr e)
    | .ok b => ({ s with files := (slot, b) :: s.files }, .dumped)
  | .load slot =>
    match s.files.lookup slot with
    | none => (s, .noFile)
    | some b => (s, .loaded (load (envOf s.bindings) slot b))
  | .rebind f => ({ s with bindings := f s.bindings }, .rebound)

/-- The state after a history. -/
def hfinal {B Obj : Type} (envOf : B → Env Obj) : Proc B → List (HOp B Obj) → Proc B
  | s, [] => s
  | s, op :: ops => hfinal envOf (hstep envOf s op).1 ops

/-- The replies of a history, one per operation. -/
def hreplies {B Obj : Type} (envOf : B → Env Obj) : Proc B → List (HOp B Obj) → List (HReply Obj)
  | _, [] => []
  | s, op :: ops => (hstep envOf s op).2 :: hreplies envOf (hstep envOf s op).1 ops

/-- Does the operation (possibly) write this slot? -/
def HOp.writes {B Obj : Type} (slot : String) : HOp B Obj → Bool
  | .dump s _ _ _ _ => s == slot
  | _ => false

/-- The bindings after the re-bindings of a history, from `b`. -/
def rebindsOf {B Obj : Type} : List (HOp B Obj) → B → B
  | [], b => b
  | .rebind f :: ops, b => rebindsOf ops (f b)
  | _ :: ops, b => rebindsOf ops b

/-! A concrete instance (used by the driver and by the witnesses): an object is an instance of the module global
number `g`, carrying payload `id`; `ver` is WHICH binding of that global its class is (never pickled: the class goes
into the file by reference). The bindings `b : List (Nat × Nat)` give the current version of every global. -/

abbrev HObj := Nat × Nat × Nat

def histEnv (b : List (Nat × Nat)) : Env HObj where
  pickle := fun p x => (if 2 ≤ p then [pickleProtoOpcode, p] else [78, 46]) ++ [x.1, x.2.2]
  unpickle := fun bs =>
    match bs.drop 2 with
    | [g, id] => (b.lookup g).map (fun v => (g, v, id))   -- `find_class`: the CURRENT binding
    | _ => none
  compress := fun n _ bs => ((lookup n).map (·.pfx)).getD [] ++ bs
  decompress := fun n bs => some (bs.drop (((lookup n).map (·.pfx)).getD []).length)

end JoblibModel.DumpLoad
