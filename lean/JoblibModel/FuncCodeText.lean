/-
Model `FuncCodeText` — the TEXT layer of `func_code.py` (properties C12, C05): how `joblib.memory` writes the
source of a cached function to `func_code.py` and reads it back.  `JoblibModel.FuncCode` treats the stored source
as an abstract token (`Src`) and a damaged file as a `Damage` class; this file models the characters.

Python → Lean (texts are lists of Unicode code points, `Text = List Nat`)
* `memory.FIRST_LINE_TEXT = "# first line:"`                                   : `firstLineText`
* `MemorizedFunc._write_func_code`: `"%s %i\n%s" % (FIRST_LINE_TEXT, first_line, func_code)`
                                                                               : `writeText first_line func_code`
    `"%i" % n` for a Python int                                                : `showInt n`
* `memory.extract_first_line(func_code)`                                       : `extractFirstLine`
    `func_code.startswith(FIRST_LINE_TEXT)`                                    : `List.isPrefixOf`
    `func_code.split("\n")`                                                    : `splitNL`
    `"\n".join(lines[1:])`                                                     : `joinNL lines.tail`
    `int(lines[0][len(FIRST_LINE_TEXT):])`                                     : `pyInt`
* `int(str)` (base 10): strip white space, optional sign, decimal digits with single underscores between
  digits; anything else is `ValueError`                                        : `pyInt`
    The model ABSTAINS (`untracked`) as soon as the field holds a non-ASCII code point (Python accepts Unicode
    decimal digits and Unicode white space there; the model does not track those tables) or is longer than 4000
    characters (CPython >= 3.11 refuses more than `sys.get_int_max_str_digits()` = 4300 digits).

A process killed inside the single `f.write(func_code.encode("utf-8"))` of `store_cached_func_code` leaves a
strict PREFIX of the bytes; the UTF-8 codec is a parameter of the theorems (a byte prefix decodes to a code-point
prefix or raises `UnicodeDecodeError`, a `ValueError`), so "torn" is a strict prefix of the code points here.

Import-free, total, computable.
-/
namespace JoblibModel.FuncCodeText

abbrev Text := List Nat

/-- `FIRST_LINE_TEXT`. -/
def firstLineText : Text := [35, 32, 102, 105, 114, 115, 116, 32, 108, 105, 110, 101, 58]

def NL : Nat := 10
def SP : Nat := 32
def MINUS : Nat := 45
def PLUS : Nat := 43
def USCORE : Nat := 95

/-! ## `"%i" % n` -/

/-- Decimal digits of `n`, most significant first, as code points; `0` ↦ `"0"`. -/
def showNat (n : Nat) : Text :=
  if n < 10 then [48 + n] else showNat (n / 10) ++ [48 + n % 10]
termination_by n
decreasing_by omega

def showInt : Int → Text
  | .ofNat n => showNat n
  | .negSucc n => MINUS :: showNat (n + 1)

/-- `"%s %i\n%s" % (FIRST_LINE_TEXT, first_line, func_code)`. -/
def writeText (first_line : Int) (func_code : Text) : Text :=
  firstLineText ++ SP :: showInt first_line ++ NL :: func_code

/-! ## `int(str)` -/

inductive Outcome (α : Type) where
  | ok (a : α)
  | valueError
  | untracked
deriving Repr, DecidableEq

/-- White space skipped by `int()` in an all-ASCII `str` (`Py_ISSPACE`: `\t \n \v \f \r` and space; `\x1c`–`\x1f`, which
`str.isspace` accepts, are NOT skipped on the ASCII path — the correspondence check found that out). -/
def isSpace (c : Nat) : Bool := (9 ≤ c && c ≤ 13) || c = 32

def isDigit (c : Nat) : Bool := 48 ≤ c && c ≤ 57

def stripLeft : Text → Text
  | [] => []
  | c :: cs => if isSpace c then stripLeft cs else c :: cs

def strip (t : Text) : Text := (stripLeft (stripLeft t).reverse).reverse

/-- Digits with single underscores between digits: `acc` is the value so far, `prevDigit` tells whether the
previous character was a digit (an underscore is only legal then, and the text may only end then). -/
def parseDigits : Text → Nat → Bool → Option Nat
  | [], acc, prevDigit => if prevDigit then some acc else none
  | c :: cs, acc, prevDigit =>
    if isDigit c then parseDigits cs (acc * 10 + (c - 48)) true
    else if c = USCORE && prevDigit then
      match cs with
      | [] => none
      | d :: _ => if isDigit d then parseDigits cs acc false else none
    else none

/-- `int(t)` for a `str` `t` (base 10). -/
def pyInt (t : Text) : Outcome Int :=
  if t.any (fun c => decide (128 ≤ c)) || decide (4000 < t.length) then .untracked
  else
    match strip t with
    | [] => .valueError
    | c :: cs =>
      if c = MINUS then
        match parseDigits cs 0 false with
        | some n => .ok (-(n : Int))
        | none => .valueError
      else if c = PLUS then
        match parseDigits cs 0 false with
        | some n => .ok (n : Int)
        | none => .valueError
      else
        match parseDigits (c :: cs) 0 false with
        | some n => .ok (n : Int)
        | none => .valueError

/-! ## `str.split("\n")`, `"\n".join` -/

/-- `t.split("\n")`: always at least one field. `cur` is the field being read, reversed. -/
def splitNLAux : Text → Text → List Text
  | [], cur => [cur.reverse]
  | c :: cs, cur => if c = NL then cur.reverse :: splitNLAux cs [] else splitNLAux cs (c :: cur)

def splitNL (t : Text) : List Text := splitNLAux t []

def joinNL : List Text → Text
  | [] => []
  | [l] => l
  | l :: ls => l ++ NL :: joinNL ls

/-! ## `extract_first_line` -/

def extractFirstLine (func_code : Text) : Outcome (Text × Int) :=
  if firstLineText.isPrefixOf func_code then
    let lines := splitNL func_code
    match pyInt ((lines.headD []).drop firstLineText.length) with
    | .ok first_line => .ok (joinNL lines.tail, first_line)
    | .valueError => .valueError
    | .untracked => .untracked
  else .ok (func_code, -1)

/-- What `_check_previous_func_code` concludes from the text it read, when the live function's source is
`func_code`: `same` (`old_func_code == func_code`: the cache is kept), `changed` (anything else that parses: the
function's directory is cleared and the code rewritten), `unreadable` (`ValueError`: cleared, treated as changed). -/
inductive Verdict where
  | same | changed | unreadable | untracked
deriving Repr, DecidableEq

def compareStored (stored func_code : Text) : Verdict :=
  match extractFirstLine stored with
  | .ok (old, _) => if old = func_code then .same else .changed
  | .valueError => .unreadable
  | .untracked => .untracked

end JoblibModel.FuncCodeText
