/-
Model of `AutoBatchingMixin` (joblib/_parallel_backends.py): `compute_batch_size` / `batch_completed`, the
auto-batching state machine whose output M1 (`ParallelProto`) takes as the scripted batch sizes.

Durations are exact non-negative rationals `num / den` (seconds); Python uses floats — the harness only sends
duration sequences on which every comparison and every `int(...)` of the float computation is at least 1e-6 away
from its boundary, so the exact and the float computation agree (checked on the Python side with `fractions`).
MIN_IDEAL_BATCH_DURATION = 1/5 s, MAX_IDEAL_BATCH_DURATION = 2 s.  Import-free, total, computable.
-/
namespace JoblibModel.AutoBatch

structure Q where
  num : Nat
  den : Nat       -- > 0
deriving Repr, Inhabited

def Q.lt (a b : Q) : Bool := a.num * b.den < b.num * a.den
def Q.isZero (a : Q) : Bool := a.num == 0
/-- `0.8 * a + 0.2 * b` -/
def Q.smooth (a b : Q) : Q := ⟨4 * a.num * b.den + b.num * a.den, 5 * a.den * b.den⟩

structure St where
  eff : Nat := 1          -- _effective_batch_size
  dur : Q := ⟨0, 1⟩       -- _smoothed_batch_duration
deriving Repr, Inhabited

/-- `int(old_batch_size * MIN_IDEAL_BATCH_DURATION / batch_duration)` for `batch_duration > 0`. -/
def ideal (old : Nat) (d : Q) : Nat := (old * d.den) / (5 * d.num)

/-- The value `compute_batch_size()` returns. -/
def batchSize (s : St) : Nat :=
  if !s.dur.isZero && s.dur.lt ⟨1, 5⟩ then max (min (2 * s.eff) (2 * ideal s.eff s.dur)) 1
  else if (Q.lt ⟨2, 1⟩ s.dur) && decide (s.eff ≥ 2) then max (2 * ideal s.eff s.dur) 1
  else s.eff

/-- `compute_batch_size()`: returns the new state and the batch size (the smoothed duration is reset whenever
the batch size changes). -/
def compute (s : St) : St × Nat :=
  let bs := batchSize s
  ({ eff := bs, dur := if bs != s.eff then ⟨0, 1⟩ else s.dur }, bs)

/-- `batch_completed(batch_size, duration)`. -/
def completed (s : St) (batchSize : Nat) (duration : Q) : St :=
  if batchSize == s.eff then
    if s.dur.isZero then { s with dur := duration } else { s with dur := s.dur.smooth duration }
  else s

/-- `reset_batch_stats()`: what `terminate()` of the loky / multiprocessing backends does (an unmanaged `Parallel` after
every call, a managed one only in `__exit__`). -/
def reset (_ : St) : St := {}

/-- `newCall nTasks nDispatched nWorkers`: the `Parallel` object starts another call on the same, still configured, backend
(a managed `with Parallel(...)`): `_reset_run_tracking` and the new call's `n_tasks` (`none` = unsized input),
`n_dispatched_tasks`, number of workers. The mixin reads none of them: the statistics survive unchanged. -/
inductive Op where
  | compute
  | completed (batchSize : Nat) (duration : Q)
  | reset
  | newCall (nTasks : Option Nat) (nDispatched nWorkers : Nat)
deriving Repr, Inhabited

def step (s : St) : Op → St × Option Nat
  | .compute => let (s, b) := compute s; (s, some b)
  | .completed b d => (completed s b d, none)
  | .reset => (reset s, none)
  | .newCall _ _ _ => (s, none)

def run : St → List Op → List Nat
  | _, [] => []
  | s, op :: r =>
    match step s op with
    | (s, some b) => b :: run s r
    | (s, none) => run s r

def final : St → List Op → St
  | s, [] => s
  | s, op :: r => final (step s op).1 r

end JoblibModel.AutoBatch
