/-
Model of the function-code check of `MemorizedFunc` (joblib/memory.py) — what decides whether the
entries stored under a function identifier may be served to the function object at hand
(property C12) — for ONE function identifier `func_id`, cached in ANY NUMBER of cache locations
(several `Memory` objects) by the processes that follow one another.

Python → Lean
* a function object (`id(func)`; a new one for every executed `def`)      : `Obj = Nat`
* a source text, as `func_inspect.get_func_code` returns it (the text of the `def` block; two
  definitions with the same text are the same `Src`)                      : `Src = Nat`
* a code object (`func.__code__`): its identity and the source text it was compiled from.  Code
  objects are immutable; `hash(func.__code__)` (which covers `co_firstlineno`) is identified with
  the pair, so two code objects are told apart even when their texts agree   : `CodeId = Nat × Src`
* `is_named_callable` of `_write_func_code` (false for lambdas)           : `named : Bool`
* a cache location: a DIRECTORY `<dir>/joblib` (`Loc`, field `dir`), and the STRING under which a
  `Memory` object addresses it, `store_backend.location` (`Loc`, field `key`).  `Memory(location=p)`
  keeps `os.path.join(p, "joblib")` verbatim: `Memory(d)` and `Memory(d + "/.")` are two `key`s of one
  `dir`.  By convention the canonical spelling of directory `d` is the key `d`.  Two `Memory`
  objects built on the same string are the same location (same `key`, same `dir`).
* the function objects alive in the current process, each with its current `__code__`
                                                                          : `State.live`
* the `MemorizedFunc` objects (`memory.cache(f)` of one of the `Memory` objects; several may wrap
  one function, at one location or at several), each with its function, its
  `store_backend.location`, the directory that denotes, its `_func_code_id` and the source part of
  `_func_code_info`                                                        : `State.wraps`, `Wrapper`
* `_FUNCTION_HASHES[func] = (id(func), hash(func), hash(func.__code__))`, process-global, keyed by
  the function object ALONE                                               : `State.table`
* `_FUNC_CODE_WRITERS[writer_key]`, process-global: the function hash that last wrote
  `func_code.py` under that key in this process; `writer_key = (store_backend.location, func_id)`
  (one `func_id` here, so: the location string)                           : `State.writers`, `wkey`
* per directory: `<dir>/joblib/<func_id>/func_code.py`                    : `Dir.code : CodeFile`
  `missing` (no such file), `unreadable` (it does not read back: `extract_first_line` /
  the utf-8 decoder raise `ValueError` — a file cut inside its `# first line:` header or inside a
  multi-byte character), `other` (readable, but the text is no function's source: cut anywhere
  else), `ok s` (the source `s`).  The file starts with `# first line: N`; `extract_first_line`
  strips it and `_check_previous_func_code` compares ONLY the source text, EXACTLY
  (`old_func_code == func_code`); the line number serves the collision warnings alone.
  `<dir>/joblib/<func_id>/<args_id>/output.pkl`                           : `Dir.entries`
  (argument ↦ stored value; the argument key itself is C02/C06's business: here `Nat`)
                                                                          : `State.disk`, `dirAt`
* `MemorizedFunc.func_code_info`            → `funcCodeInfo`
* `MemorizedFunc._hash_func`                → `(o, cur)`
* `MemorizedFunc._write_func_code`          → `writeFuncCode` (`_FUNC_CODE_WRITERS.pop(writer_key)`,
  `store_cached_func_code`, then both tables for a named callable)
* `MemorizedFunc.clear`                     → `clearWrite` (`clear_path`, `func_code_info`,
  `_write_func_code`)
* `MemorizedFunc._check_previous_func_code` → `checkPrevious` (`shortcut` = the `_FUNCTION_HASHES`
  branch; `IOError` → write; `ValueError` → clear; differing text → clear)
* `MemorizedFunc._is_in_cache_and_valid`    → `isInCache` (no validation callback here)
* `_cached_call` / `check_call_in_cache` / `MemorizedFunc.clear` → cases of `step`
* `Memory.clear` → `Op.clearAll d`: `store_backend.clear()` empties THAT directory;
  `_FUNCTION_HASHES.clear()` and `_FUNC_CODE_WRITERS.clear()` empty the process-global tables (for
  every location)
* `Memory.cache(f)` → `Op.wrap` (and the wrapper `Op.define` creates): a new `MemorizedFunc` on the
  `Memory` object's store backend; it writes nothing but the function's directory
* `f.__code__ = g.__code__`                 → `Op.swap`
* a fault on `func_code.py` of one directory (writer killed, file deleted)  → `Op.damage`
* starting a fresh process: `live`, `wraps`, `table`, `writers` emptied, every directory kept.
* `sem k a`: the value the code with source `k` computes on argument `a` (a parameter).

Versions of the code, selected by `Cfg`:
* `writerCheck`  — fixes/F10-same-name-redefinition.diff (committed): the shortcut also demands
  that this very function hash last wrote `func_code.py`; `false` = the pinned tree (F10);
* `infoIdUpdate` — fixes/F38-code-swap.diff (committed): `func_code_info` records the code object
  its cached source belongs to; `false` = `_func_code_id` keeps the FIRST code object ever seen, so
  that swapping back to it revives a stale cached source (F38);
* `writerKeyHasLocation` — `true` = the code as it is; `false` = a regression a reviewer seeded:
  `writer_key = self.func_id`, one writer slot for all locations;
* `writerKeyResolved` — fixes/F46-writer-key-realpath.diff (candidate, NOT in the tree): the
  writer key is the resolved directory (`os.path.realpath`), not the string; `false` = the code as
  it is (F46: two spellings of one directory have two writer slots).

Not modelled: the collision warnings; weak-reference removal of dead functions from
`_FUNCTION_HASHES` (objects stay alive until the process ends); concurrent processes (C11);
defaults / closures of a function (they are not part of its code object); one string denoting two
directories in one process (a relative location and `os.chdir`).
Import-free apart from the dict helpers of `FilterArgs`; total, computable.
-/
import JoblibModel.FilterArgs
namespace JoblibModel.FuncCode
open JoblibModel.FilterArgs (dget dset)

structure Cfg where
  writerCheck : Bool
  infoIdUpdate : Bool
  writerKeyHasLocation : Bool
  writerKeyResolved : Bool
deriving DecidableEq, Repr

/-- The code as it is in the tree (F10 and F38 repaired). -/
def Cfg.fixed : Cfg := ⟨true, true, true, false⟩

/-- … with the candidate repair of F46 (writer key = the resolved directory). -/
def Cfg.resolved : Cfg := ⟨true, true, true, true⟩

abbrev Obj := Nat
abbrev Src := Nat
abbrev CodeId := Nat × Src
abbrev Loc := Nat

inductive CodeFile where
  | missing
  | unreadable
  | other
  | ok (s : Src)
deriving DecidableEq, Repr

/-- What a fault leaves of `func_code.py`. -/
inductive Damage where
  | delete
  | unreadable
  | other
deriving DecidableEq, Repr

/-- `_func_code_id` and the source in `_func_code_info` of one `MemorizedFunc`. -/
abbrev InfoCache := Option CodeId × Option Src

/-- One `MemorizedFunc`: its function, `store_backend.location` (`key`), the directory that string
denotes (`dir`), and its `func_code_info` cache. -/
structure Wrapper where
  func : Obj
  key : Loc
  dir : Loc
  ic : InfoCache
deriving DecidableEq, Repr

/-- `<dir>/joblib/<func_id>/`: `func_code.py` and the entries beside it. -/
structure Dir (R : Type) where
  code : CodeFile := .missing
  entries : List (Nat × R) := []
deriving Repr

structure State (R : Type) where
  live : List (Obj × (CodeId × Bool)) := []
  wraps : List (Nat × Wrapper) := []
  table : List (Obj × CodeId) := []
  writers : List (Loc × (Obj × CodeId)) := []
  disk : List (Loc × Dir R) := []
deriving Repr

inductive Op where
  /-- a `def` (or `lambda`, `named = false`) is executed: a new function object `o` whose code object
  `(o, k)` has source `k`, wrapped with `memory.cache` (wrapper `o`) of the `Memory` object on
  directory `loc` under its canonical spelling -/
  | define (o : Obj) (k : Src) (named : Bool) (loc : Loc)
  /-- `memory.cache(f_o)` once more: another `MemorizedFunc` `w` on the same function, of a `Memory`
  object whose `store_backend.location` is the string `key`, denoting directory `dir` -/
  | wrap (w : Nat) (o : Obj) (key : Loc) (dir : Loc)
  /-- `f_o.__code__ = c` -/
  | swap (o : Obj) (c : CodeId)
  /-- the cached function `w` is called with argument `a` -/
  | call (w : Nat) (a : Nat)
  /-- `check_call_in_cache` -/
  | check (w : Nat) (a : Nat)
  /-- `MemorizedFunc.clear()` -/
  | clearFn (w : Nat)
  /-- `Memory.clear()` of a `Memory` object on directory `dir` -/
  | clearAll (dir : Loc)
  /-- `func_code.py` of directory `dir` is truncated / deleted (no effect when there is no such file) -/
  | damage (dir : Loc) (d : Damage)
  /-- the process ends, a new one starts on the same cache directories -/
  | fresh
deriving DecidableEq, Repr

inductive Out (R : Type) where
  | value (r : R) (executed : Bool)
  | flag (b : Bool)
  | done
  /-- the wrapper / object is not alive in this process (a malformed history) -/
  | notLive
deriving DecidableEq, Repr

variable {R : Type}

/-- `del d[k]` for every occurrence of `k` (`dict.pop(k, None)`). -/
def ddel {ν : Type} (k : Nat) : List (Nat × ν) → List (Nat × ν)
  | [] => []
  | (k', v) :: r => if k' = k then ddel k r else (k', v) :: ddel k r

/-- The function's directory at cache directory `d` (nothing there yet: no file, no entry). -/
def dirAt (st : State R) (d : Loc) : Dir R := (dget d st.disk).getD {}

/-- `writer_key` of a `MemorizedFunc` whose `store_backend.location` is the string `key`, denoting the
directory `dir` (the `func_id` component is the same for all: one function identifier). -/
def wkey (cfg : Cfg) (key dir : Loc) : Loc :=
  if cfg.writerKeyHasLocation then (if cfg.writerKeyResolved then dir else key) else 0

/-- What a wrapper resolves to: the wrapper `w` itself, its function `o`, the function's current code
object, `named`, the wrapper's location (string and directory) and its cached source. -/
structure Target where
  w : Nat
  o : Obj
  cur : CodeId
  named : Bool
  key : Loc
  dir : Loc
  ic : InfoCache
deriving DecidableEq, Repr

def lookup (st : State R) (w : Nat) : Option Target :=
  match dget w st.wraps with
  | none => none
  | some W =>
    match dget W.func st.live with
    | none => none
    | some (cur, named) => some ⟨w, W.func, cur, named, W.key, W.dir, W.ic⟩

/-- The `func_code_info` property: the source it returns and the cache afterwards. -/
def funcCodeInfo (cfg : Cfg) (cur : CodeId) (ic : InfoCache) : Src × InfoCache :=
  let ic' : InfoCache :=
    match ic.1 with
    | none => (some cur, ic.2)                                  -- `_func_code_id is None`
    | some c0 =>
      if c0 = cur then ic
      else (if cfg.infoIdUpdate then some cur else some c0, none)  -- `__code__` was reassigned
  match ic'.2 with
  | some s => (s, ic')
  | none => (cur.2, (ic'.1, some cur.2))                          -- `get_func_code(self.func)`

/-- The wrapper of `t` with its `func_code_info` cache replaced. -/
def Target.wrapper (t : Target) (ic : InfoCache) : Wrapper := ⟨t.o, t.key, t.dir, ic⟩

/-- `_write_func_code`: pop the writer entry, store the source in THIS wrapper's directory, register
the function hash (named callables only) and remember it as the writer under `writer_key`. -/
def writeFuncCode (cfg : Cfg) (st : State R) (t : Target) (src : Src) : State R :=
  { st with
    disk := dset t.dir { dirAt st t.dir with code := .ok src } st.disk
    table := if t.named then dset t.o t.cur st.table else st.table
    writers :=
      if t.named then dset (wkey cfg t.key t.dir) (t.o, t.cur) st.writers
      else ddel (wkey cfg t.key t.dir) st.writers }

/-- `MemorizedFunc.clear`: wipe the function's directory at this wrapper's location (`clear_path`),
write the code again. -/
def clearWrite (cfg : Cfg) (st : State R) (t : Target) (src : Src) : State R :=
  writeFuncCode cfg { st with disk := dset t.dir {} st.disk } t src

/-- The in-memory branch of `_check_previous_func_code`. -/
def shortcut (cfg : Cfg) (st : State R) (t : Target) : Bool :=
  match dget t.o st.table with
  | some h =>
    decide (h = t.cur) &&
      (!cfg.writerCheck || decide (dget (wkey cfg t.key t.dir) st.writers = some (t.o, t.cur)))
  | none => false

/-- `_check_previous_func_code` of the wrapper `t.w`: the answer and the state afterwards. -/
def checkPrevious (cfg : Cfg) (st : State R) (t : Target) : Bool × State R :=
  if shortcut cfg st t then (true, st)
  else
    let fi := funcCodeInfo cfg t.cur t.ic
    let st1 := { st with wraps := dset t.w (t.wrapper fi.2) st.wraps }
    match (dirAt st t.dir).code with
    | .missing => (false, writeFuncCode cfg st1 t fi.1)        -- IOError: no func_code.py
    | .unreadable => (false, clearWrite cfg st1 t fi.1)        -- ValueError: treated as changed
    | .other => (false, clearWrite cfg st1 t fi.1)             -- the text differs
    | .ok old => if old = fi.1 then (true, st1) else (false, clearWrite cfg st1 t fi.1)

/-- `_is_in_cache_and_valid` (`contains_item` after the code check). -/
def isInCache (cfg : Cfg) (st : State R) (t : Target) (a : Nat) : Option R × State R :=
  let r := checkPrevious cfg st t
  (if r.1 then dget a (dirAt r.2 t.dir).entries else none, r.2)

def applyDamage (c : CodeFile) (d : Damage) : CodeFile :=
  match c with
  | .missing => .missing
  | _ =>
    match d with
    | .delete => .missing
    | .unreadable => .unreadable
    | .other => .other

def step (cfg : Cfg) (sem : Src → Nat → R) (st : State R) : Op → Out R × State R
  | .define o k named loc =>
    (.done, { st with live := dset o ((o, k), named) st.live,
                      wraps := dset o ⟨o, loc, loc, (none, none)⟩ st.wraps })
  | .wrap w o key dir =>
    match dget o st.live with
    | some _ => (.done, { st with wraps := dset w ⟨o, key, dir, (none, none)⟩ st.wraps })
    | none => (.notLive, st)
  | .swap o c =>
    match dget o st.live with
    | some (_, named) => (.done, { st with live := dset o (c, named) st.live })
    | none => (.notLive, st)
  | .call w a =>
    match lookup st w with
    | none => (.notLive, st)
    | some t =>
      let r := isInCache cfg st t a
      match r.1 with
      | some v => (.value v false, r.2)
      | none =>
        let v := sem t.cur.2 a                     -- the function runs its CURRENT code
        (.value v true,
          { r.2 with disk := dset t.dir { dirAt r.2 t.dir with entries := dset a v (dirAt r.2 t.dir).entries } r.2.disk })
  | .check w a =>
    match lookup st w with
    | none => (.notLive, st)
    | some t =>
      let r := isInCache cfg st t a
      (.flag r.1.isSome, r.2)
  | .clearFn w =>
    match lookup st w with
    | none => (.notLive, st)
    | some t =>
      let fi := funcCodeInfo cfg t.cur t.ic
      (.done, clearWrite cfg { st with wraps := dset w (t.wrapper fi.2) st.wraps } t fi.1)
  | .clearAll d => (.done, { st with disk := dset d {} st.disk, table := [], writers := [] })
  | .damage d dm =>
    (.done, { st with disk := dset d { dirAt st d with code := applyDamage (dirAt st d).code dm } st.disk })
  | .fresh => (.done, { st with live := [], wraps := [], table := [], writers := [] })

/-- Outputs of a history. -/
def run (cfg : Cfg) (sem : Src → Nat → R) : State R → List Op → List (Out R)
  | _, [] => []
  | st, op :: ops => (step cfg sem st op).1 :: run cfg sem (step cfg sem st op).2 ops

/-- State after a history. -/
def exec (cfg : Cfg) (sem : Src → Nat → R) : State R → List Op → State R
  | st, [] => st
  | st, op :: ops => exec cfg sem (step cfg sem st op).2 ops

def init : State R := {}

/-- The directory an operation works on (`none`: it touches no directory). -/
def opDir (st : State R) : Op → Option Loc
  | .call w _ => (lookup st w).map (·.dir)
  | .check w _ => (lookup st w).map (·.dir)
  | .clearFn w => (lookup st w).map (·.dir)
  | .clearAll d => some d
  | .damage d _ => some d
  | _ => none

end JoblibModel.FuncCode
