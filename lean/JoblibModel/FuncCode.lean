/-
Model of the function-code check of `MemorizedFunc` (joblib/memory.py) — what decides whether the
entries stored under a function identifier may be served to the function object at hand
(property C12) — for ONE function identifier `func_id` in one cache directory.

Python → Lean
* a function object (`id(func)`; a new one for every executed `def`)      : `Obj = Nat`
* a source text, as `func_inspect.get_func_code` returns it (the text of the `def` block; two
  definitions with the same text are the same `Src`); `hash(func.__code__)` is identified with
  it (a code object swap changes both)                                    : `Src = Nat`
* `is_named_callable` of `_write_func_code` (false for lambdas)           : `named : Bool`
* the function objects alive in the current process                       : `State.live`
* `_FUNCTION_HASHES[func] = (id(func), hash(func), hash(func.__code__))`   : `State.table`
  (`dget o table = some s`: registered with code `s`)
* `_FUNC_CODE_WRITERS[(location, func_id)]` (fixes/F10-same-name-redefinition.diff): the function
  hash that last wrote `func_code.py` in this process                     : `State.writer`
* `<location>/joblib/<func_id>/func_code.py`                              : `State.code`
  (`none` = no such file).  The file starts with `# first line: N`; `extract_first_line` strips it
  and `_check_previous_func_code` compares ONLY the source text (`old_func_code == func_code`);
  the line number is used for the collision warnings alone, so it is not part of the state.
* `<func_id>/<args_id>/output.pkl`                                        : `State.entries`
  (argument ↦ stored value; the argument key itself is C02/C06's business: here `Nat`)
* `MemorizedFunc._hash_func`                → `(o, src)`
* `MemorizedFunc._write_func_code`          → `writeFuncCode`
* `MemorizedFunc.clear`                     → `clearFn` (`clear_path` then `_write_func_code`)
* `MemorizedFunc._check_previous_func_code` → `checkPrevious` (`shortcut` = the `_FUNCTION_HASHES`
  branch)
* `MemorizedFunc._is_in_cache_and_valid`    → `isInCache` (no validation callback here)
* `MemorizedFunc._cached_call` / `check_call_in_cache` / `Memory.clear` → cases of `step`
* starting a fresh process: `live`, `table`, `writer` emptied, the disk kept.
* `sem k a`: the value the code with source `k` computes on argument `a` (a parameter).

Two versions of the code, selected by `Version`:
* `.fixed` — with fixes/F10-same-name-redefinition.diff: the shortcut also demands that this very
  function hash is the one that last wrote `func_code.py`;
* `.old`   — the pinned tree: the shortcut looks at `_FUNCTION_HASHES` only (F10).

Not modelled: the collision warnings; weak-reference removal of dead functions from
`_FUNCTION_HASHES` (objects stay alive until the process ends); concurrent processes (C11).
Import-free apart from the dict helpers of `FilterArgs`; total, computable.
-/
import JoblibModel.FilterArgs
namespace JoblibModel.FuncCode
open JoblibModel.FilterArgs (dget dset)

inductive Version where
  | old
  | fixed
deriving DecidableEq, Repr

abbrev Obj := Nat
abbrev Src := Nat

structure State (R : Type) where
  live : List (Obj × (Src × Bool)) := []
  table : List (Obj × Src) := []
  writer : Option (Obj × Src) := none
  code : Option Src := none
  entries : List (Nat × R) := []
deriving Repr

inductive Op where
  /-- a `def` (or `lambda`, `named = false`) is executed: a new function object `o` with source `k`,
  wrapped with `memory.cache` -/
  | define (o : Obj) (k : Src) (named : Bool)
  /-- `o.__code__ = <code object whose source is k>` -/
  | swap (o : Obj) (k : Src)
  /-- the cached function of `o` is called with argument `a` -/
  | call (o : Obj) (a : Nat)
  /-- `check_call_in_cache` -/
  | check (o : Obj) (a : Nat)
  /-- `MemorizedFunc.clear()` -/
  | clearFn (o : Obj)
  /-- `Memory.clear()` -/
  | clearAll
  /-- the process ends, a new one starts on the same cache directory -/
  | fresh
deriving DecidableEq, Repr

inductive Out (R : Type) where
  | value (r : R) (executed : Bool)
  | flag (b : Bool)
  | done
  /-- the object is not alive in this process (a malformed history) -/
  | notLive
deriving DecidableEq, Repr

variable {R : Type}

/-- `_write_func_code`: store the source, register the function hash (named callables only) and
remember it as the writer of `func_code.py`. -/
def writeFuncCode (st : State R) (o : Obj) (src : Src) (named : Bool) : State R :=
  { st with
    code := some src
    table := if named then dset o src st.table else st.table
    writer := if named then some (o, src) else none }

/-- `MemorizedFunc.clear`: wipe the function's directory, write the code again. -/
def clearFn (st : State R) (o : Obj) (src : Src) (named : Bool) : State R :=
  writeFuncCode { st with entries := [] } o src named

/-- The in-memory branch of `_check_previous_func_code`. -/
def shortcut (ver : Version) (st : State R) (o : Obj) (src : Src) : Bool :=
  match dget o st.table with
  | some h => decide (h = src) && (decide (ver = .old) || decide (st.writer = some (o, src)))
  | none => false

/-- `_check_previous_func_code`: the answer and the state afterwards. -/
def checkPrevious (ver : Version) (st : State R) (o : Obj) (src : Src) (named : Bool) :
    Bool × State R :=
  if shortcut ver st o src then (true, st)
  else
    match st.code with
    | none => (false, writeFuncCode st o src named)             -- IOError: first use of the directory
    | some old => if old = src then (true, st) else (false, clearFn st o src named)

/-- `_is_in_cache_and_valid` (`contains_item` after the code check). -/
def isInCache (ver : Version) (st : State R) (o : Obj) (src : Src) (named : Bool) (a : Nat) :
    Option R × State R :=
  let r := checkPrevious ver st o src named
  (if r.1 then dget a r.2.entries else none, r.2)

def step (ver : Version) (sem : Src → Nat → R) (st : State R) : Op → Out R × State R
  | .define o k named => (.done, { st with live := dset o (k, named) st.live })
  | .swap o k =>
    match dget o st.live with
    | some (_, named) => (.done, { st with live := dset o (k, named) st.live })
    | none => (.notLive, st)
  | .call o a =>
    match dget o st.live with
    | none => (.notLive, st)
    | some (src, named) =>
      let r := isInCache ver st o src named a
      match r.1 with
      | some v => (.value v false, r.2)
      | none =>
        let v := sem src a
        (.value v true, { r.2 with entries := dset a v r.2.entries })
  | .check o a =>
    match dget o st.live with
    | none => (.notLive, st)
    | some (src, named) =>
      let r := isInCache ver st o src named a
      (.flag r.1.isSome, r.2)
  | .clearFn o =>
    match dget o st.live with
    | none => (.notLive, st)
    | some (src, named) => (.done, clearFn st o src named)
  | .clearAll => (.done, { st with code := none, entries := [], table := [], writer := none })
  | .fresh => (.done, { st with live := [], table := [], writer := none })

/-- Outputs of a history. -/
def run (ver : Version) (sem : Src → Nat → R) : State R → List Op → List (Out R)
  | _, [] => []
  | st, op :: ops => (step ver sem st op).1 :: run ver sem (step ver sem st op).2 ops

/-- State after a history. -/
def exec (ver : Version) (sem : Src → Nat → R) : State R → List Op → State R
  | st, [] => st
  | st, op :: ops => exec ver sem (step ver sem st op).2 ops

def init : State R := {}

end JoblibModel.FuncCode
