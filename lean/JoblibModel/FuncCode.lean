/-
Model of the function-code check of `MemorizedFunc` (joblib/memory.py) — what decides whether the
entries stored under a function identifier may be served to the function object at hand
(property C12) — for ONE function identifier `func_id` in one cache directory.

Python → Lean
* a function object (`id(func)`; a new one for every executed `def`)      : `Obj = Nat`
* a source text, as `func_inspect.get_func_code` returns it (the text of the `def` block; two
  definitions with the same text are the same `Src`)                      : `Src = Nat`
* a code object (`func.__code__`): its identity and the source text it was compiled from.  Code
  objects are immutable; `hash(func.__code__)` (which covers `co_firstlineno`) is identified with
  the pair, so two code objects are told apart even when their texts agree   : `CodeId = Nat × Src`
* `is_named_callable` of `_write_func_code` (false for lambdas)           : `named : Bool`
* the function objects alive in the current process, each with its current `__code__`
                                                                          : `State.live`
* the `MemorizedFunc` objects (`memory.cache(f)`; several may wrap one function), each with its
  `_func_code_id` and the source part of `_func_code_info`               : `State.wraps`
* `_FUNCTION_HASHES[func] = (id(func), hash(func), hash(func.__code__))`   : `State.table`
* `_FUNC_CODE_WRITERS[(location, func_id)]`: the function hash that last wrote `func_code.py` in
  this process                                                            : `State.writer`
* `<location>/joblib/<func_id>/func_code.py`                              : `State.code : CodeFile`
  `missing` (no such file), `unreadable` (it does not read back: `extract_first_line` /
  the utf-8 decoder raise `ValueError` — a file cut inside its `# first line:` header or inside a
  multi-byte character), `other` (readable, but the text is no function's source: cut anywhere
  else), `ok s` (the source `s`).  The file starts with `# first line: N`; `extract_first_line`
  strips it and `_check_previous_func_code` compares ONLY the source text, EXACTLY
  (`old_func_code == func_code`); the line number serves the collision warnings alone.
* `<func_id>/<args_id>/output.pkl`                                        : `State.entries`
  (argument ↦ stored value; the argument key itself is C02/C06's business: here `Nat`)
* `MemorizedFunc.func_code_info`            → `funcCodeInfo`
* `MemorizedFunc._hash_func`                → `(o, cur)`
* `MemorizedFunc._write_func_code`          → `writeFuncCode`
* `MemorizedFunc.clear`                     → `clearWrite` (`clear_path`, `func_code_info`,
  `_write_func_code`)
* `MemorizedFunc._check_previous_func_code` → `checkPrevious` (`shortcut` = the `_FUNCTION_HASHES`
  branch; `IOError` → write; `ValueError` → clear; differing text → clear)
* `MemorizedFunc._is_in_cache_and_valid`    → `isInCache` (no validation callback here)
* `_cached_call` / `check_call_in_cache` / `MemorizedFunc.clear` / `Memory.clear` → cases of `step`
* `f.__code__ = g.__code__`                 → `Op.swap`
* a fault on `func_code.py` (writer killed, file deleted)                 → `Op.damage`
* starting a fresh process: `live`, `wraps`, `table`, `writer` emptied, the disk kept.
* `sem k a`: the value the code with source `k` computes on argument `a` (a parameter).

Versions of the code, selected by `Cfg`:
* `writerCheck`  — fixes/F10-same-name-redefinition.diff (committed): the shortcut also demands
  that this very function hash last wrote `func_code.py`; `false` = the pinned tree (F10);
* `infoIdUpdate` — fixes/F38-code-swap.diff: `func_code_info` records the code object its cached
  source belongs to; `false` = `_func_code_id` keeps the FIRST code object ever seen, so that
  swapping back to it revives a stale cached source (F38).

Not modelled: the collision warnings; weak-reference removal of dead functions from
`_FUNCTION_HASHES` (objects stay alive until the process ends); concurrent processes (C11);
defaults / closures of a function (they are not part of its code object).
Import-free apart from the dict helpers of `FilterArgs`; total, computable.
-/
import JoblibModel.FilterArgs
namespace JoblibModel.FuncCode
open JoblibModel.FilterArgs (dget dset)

structure Cfg where
  writerCheck : Bool
  infoIdUpdate : Bool
deriving DecidableEq, Repr

/-- The repaired code. -/
def Cfg.fixed : Cfg := ⟨true, true⟩

abbrev Obj := Nat
abbrev Src := Nat
abbrev CodeId := Nat × Src

inductive CodeFile where
  | missing
  | unreadable
  | other
  | ok (s : Src)
deriving DecidableEq, Repr

/-- What a fault leaves of `func_code.py`. -/
inductive Damage where
  | delete
  | unreadable
  | other
deriving DecidableEq, Repr

/-- `_func_code_id` and the source in `_func_code_info` of one `MemorizedFunc`. -/
abbrev InfoCache := Option CodeId × Option Src

structure State (R : Type) where
  live : List (Obj × (CodeId × Bool)) := []
  wraps : List (Nat × (Obj × InfoCache)) := []
  table : List (Obj × CodeId) := []
  writer : Option (Obj × CodeId) := none
  code : CodeFile := .missing
  entries : List (Nat × R) := []
deriving Repr

inductive Op where
  /-- a `def` (or `lambda`, `named = false`) is executed: a new function object `o` whose code object
  `(o, k)` has source `k`, wrapped with `memory.cache` (wrapper `o`) -/
  | define (o : Obj) (k : Src) (named : Bool)
  /-- `memory.cache(f_o)` once more: another `MemorizedFunc` `w` on the same function -/
  | wrap (w : Nat) (o : Obj)
  /-- `f_o.__code__ = c` -/
  | swap (o : Obj) (c : CodeId)
  /-- the cached function `w` is called with argument `a` -/
  | call (w : Nat) (a : Nat)
  /-- `check_call_in_cache` -/
  | check (w : Nat) (a : Nat)
  /-- `MemorizedFunc.clear()` -/
  | clearFn (w : Nat)
  /-- `Memory.clear()` -/
  | clearAll
  /-- `func_code.py` is truncated / deleted (no effect when there is no such file) -/
  | damage (d : Damage)
  /-- the process ends, a new one starts on the same cache directory -/
  | fresh
deriving DecidableEq, Repr

inductive Out (R : Type) where
  | value (r : R) (executed : Bool)
  | flag (b : Bool)
  | done
  /-- the wrapper / object is not alive in this process (a malformed history) -/
  | notLive
deriving DecidableEq, Repr

variable {R : Type}

/-- What a wrapper resolves to: its function, the function's current code object, `named`, and the
wrapper's cached source. -/
def lookup (st : State R) (w : Nat) : Option (Obj × CodeId × Bool × InfoCache) :=
  match dget w st.wraps with
  | none => none
  | some (o, ic) =>
    match dget o st.live with
    | none => none
    | some (cur, named) => some (o, cur, named, ic)

/-- The `func_code_info` property: the source it returns and the cache afterwards. -/
def funcCodeInfo (cfg : Cfg) (cur : CodeId) (ic : InfoCache) : Src × InfoCache :=
  let ic' : InfoCache :=
    match ic.1 with
    | none => (some cur, ic.2)                                  -- `_func_code_id is None`
    | some c0 =>
      if c0 = cur then ic
      else (if cfg.infoIdUpdate then some cur else some c0, none)  -- `__code__` was reassigned
  match ic'.2 with
  | some s => (s, ic')
  | none => (cur.2, (ic'.1, some cur.2))                          -- `get_func_code(self.func)`

/-- `_write_func_code`: store the source, register the function hash (named callables only) and
remember it as the writer of `func_code.py`. -/
def writeFuncCode (st : State R) (o : Obj) (cur : CodeId) (src : Src) (named : Bool) : State R :=
  { st with
    code := .ok src
    table := if named then dset o cur st.table else st.table
    writer := if named then some (o, cur) else none }

/-- `MemorizedFunc.clear`: wipe the function's directory, write the code again. -/
def clearWrite (st : State R) (o : Obj) (cur : CodeId) (src : Src) (named : Bool) : State R :=
  writeFuncCode { st with entries := [] } o cur src named

/-- The in-memory branch of `_check_previous_func_code`. -/
def shortcut (cfg : Cfg) (st : State R) (o : Obj) (cur : CodeId) : Bool :=
  match dget o st.table with
  | some h => decide (h = cur) && (!cfg.writerCheck || decide (st.writer = some (o, cur)))
  | none => false

/-- `_check_previous_func_code` of wrapper `w`: the answer and the state afterwards. -/
def checkPrevious (cfg : Cfg) (st : State R) (w : Nat) (o : Obj) (cur : CodeId) (named : Bool)
    (ic : InfoCache) : Bool × State R :=
  if shortcut cfg st o cur then (true, st)
  else
    let fi := funcCodeInfo cfg cur ic
    let st1 := { st with wraps := dset w (o, fi.2) st.wraps }
    match st.code with
    | .missing => (false, writeFuncCode st1 o cur fi.1 named)     -- IOError: no func_code.py
    | .unreadable => (false, clearWrite st1 o cur fi.1 named)     -- ValueError: treated as changed
    | .other => (false, clearWrite st1 o cur fi.1 named)          -- the text differs
    | .ok old => if old = fi.1 then (true, st1) else (false, clearWrite st1 o cur fi.1 named)

/-- `_is_in_cache_and_valid` (`contains_item` after the code check). -/
def isInCache (cfg : Cfg) (st : State R) (w : Nat) (o : Obj) (cur : CodeId) (named : Bool)
    (ic : InfoCache) (a : Nat) : Option R × State R :=
  let r := checkPrevious cfg st w o cur named ic
  (if r.1 then dget a r.2.entries else none, r.2)

def applyDamage (c : CodeFile) (d : Damage) : CodeFile :=
  match c with
  | .missing => .missing
  | _ =>
    match d with
    | .delete => .missing
    | .unreadable => .unreadable
    | .other => .other

def step (cfg : Cfg) (sem : Src → Nat → R) (st : State R) : Op → Out R × State R
  | .define o k named =>
    (.done, { st with live := dset o ((o, k), named) st.live, wraps := dset o (o, (none, none)) st.wraps })
  | .wrap w o =>
    match dget o st.live with
    | some _ => (.done, { st with wraps := dset w (o, (none, none)) st.wraps })
    | none => (.notLive, st)
  | .swap o c =>
    match dget o st.live with
    | some (_, named) => (.done, { st with live := dset o (c, named) st.live })
    | none => (.notLive, st)
  | .call w a =>
    match lookup st w with
    | none => (.notLive, st)
    | some (o, cur, named, ic) =>
      let r := isInCache cfg st w o cur named ic a
      match r.1 with
      | some v => (.value v false, r.2)
      | none =>
        let v := sem cur.2 a                     -- the function runs its CURRENT code
        (.value v true, { r.2 with entries := dset a v r.2.entries })
  | .check w a =>
    match lookup st w with
    | none => (.notLive, st)
    | some (o, cur, named, ic) =>
      let r := isInCache cfg st w o cur named ic a
      (.flag r.1.isSome, r.2)
  | .clearFn w =>
    match lookup st w with
    | none => (.notLive, st)
    | some (o, cur, named, ic) =>
      let fi := funcCodeInfo cfg cur ic
      (.done, clearWrite { st with wraps := dset w (o, fi.2) st.wraps } o cur fi.1 named)
  | .clearAll => (.done, { st with code := .missing, entries := [], table := [], writer := none })
  | .damage d => (.done, { st with code := applyDamage st.code d })
  | .fresh => (.done, { st with live := [], wraps := [], table := [], writer := none })

/-- Outputs of a history. -/
def run (cfg : Cfg) (sem : Src → Nat → R) : State R → List Op → List (Out R)
  | _, [] => []
  | st, op :: ops => (step cfg sem st op).1 :: run cfg sem (step cfg sem st op).2 ops

/-- State after a history. -/
def exec (cfg : Cfg) (sem : Src → Nat → R) : State R → List Op → State R
  | st, [] => st
  | st, op :: ops => exec cfg sem (step cfg sem st op).2 ops

def init : State R := {}

end JoblibModel.FuncCode
