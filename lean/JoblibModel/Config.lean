/-
Model M2/`Config` — the decision logic behind `parallel_config` / `parallel_backend` /
`Parallel.__init__` (joblib/parallel.py), properties C17 (and the backend classes for C15).

The model transcribes the code WITH the two one-line repairs /verif/fixes/F21-*.diff and
/verif/fixes/F22-*.diff applied (both places are marked `F21` / `F22` below; the behaviour of the
unrepaired code is kept as `…Unrepaired` so that the witnesses of the two defects are theorems).

Python → Lean
* `_Sentinel` objects of `default_parallel_config`   : `Slot = none`  ("argument not given")
* any other Python value                              : `Slot = some v`, `v : Val`
* `default_parallel_config[k].default_value`          : `Defaults` (read from the live table by the harness)
* `_backend.config` (a `threading.local` attribute)   : one `Config` per thread (`TState.cfg`);
  "attribute absent" and "attribute is `default_parallel_config`" are the same value `Config.unset`
  because every read is `getattr(_backend, "config", default_parallel_config)`
* `_get_config_param(param, context_config, key)`     : `getConfigParam`
* `parallel_config.__init__` / `_check_backend`       : `parallelConfigInit` / `checkBackend`
* `parallel_config.__exit__` / `unregister`           : `unregister`
* `parallel_backend.__init__`                         : `parallelBackendArgs` then `parallelConfigInit`
* `_get_active_backend` / `get_active_backend`        : `getActiveBackend'` / `getActiveBackend`
* `Parallel.__init__` (backend / n_jobs / kwargs)     : `parallelInit`
* `BACKENDS`, `DEFAULT_BACKEND` (changeable through `register_parallel_backend(make_default=True)`),
  `DEFAULT_THREAD_BACKEND`, `DEFAULT_PROCESS_BACKEND`  : `registry`, `Env.defaultBackend`, constants
* `memstr_to_bytes`                                   : `memstrToBytes` (integer mantissas)
* a `with` statement                                  : `Op.enter` … `Op.exit` (small step) / `Prog.block`, `XProg.block`
* `cm = parallel_config(...)` / `parallel_backend(...)` called as a function : `Op.create` / `XProg.create`
* `cm.unregister()` at any later point                 : `Op.unreg k` (k-th object the thread made) / `XProg.unreg`
* `threading.Thread(...).start()`, a thread in `contextvars.copy_context()`, `asyncio.to_thread` : `Op.spawn child kind`
* identity of the dictionary in `_backend.config`      : `TState.cur` (only the `guardedUnregister` variant reads it)

Outside the model (the harness never generates them; see TRUSTED_EXTRA of harness/props/c17.py):
multiprocessing disabled (`mp is None`), the `dask` external backend, multiprocessing-context
objects passed as `backend`, `inner_max_num_threads`/`**backend_params`, third-party backend
classes, a sentinel of one key passed for another key, backend instances shared between two uses,
a context object made by one thread and unregistered by another.
Import-free, total, computable.
-/
namespace JoblibModel.Config

/-- The four backend classes of joblib/_parallel_backends.py. -/
inductive BackendClass
  | sequential | threading | multiprocessing | loky
deriving Repr, DecidableEq, Inhabited

namespace BackendClass
/-- `getattr(backend, "uses_threads", False)`. -/
def usesThreads : BackendClass → Bool
  | sequential => true | threading => true | multiprocessing => false | loky => false
/-- `getattr(backend, "supports_sharedmem", False)`. -/
def supportsSharedmem : BackendClass → Bool
  | sequential => true | threading => true | multiprocessing => false | loky => false
/-- `backend.default_n_jobs` (`ParallelBackendBase.default_n_jobs = 1`, overridden nowhere). -/
def defaultNJobs : BackendClass → Int := fun _ => 1
/-- `type(backend).__name__`. -/
def name : BackendClass → String
  | sequential => "SequentialBackend" | threading => "ThreadingBackend"
  | multiprocessing => "MultiprocessingBackend" | loky => "LokyBackend"
end BackendClass

/-- `DEFAULT_THREAD_BACKEND = "threading"`, `DEFAULT_PROCESS_BACKEND = "loky"`. -/
def defaultThreadBackend : BackendClass := .threading
def defaultProcessBackend : BackendClass := .loky

/-- `BACKENDS[name]` with multiprocessing available. -/
def registry (name : String) : Option BackendClass :=
  if name = "threading" then some .threading
  else if name = "sequential" then some .sequential
  else if name = "multiprocessing" then some .multiprocessing
  else if name = "loky" then some .loky
  else none

/-- Python values that occur as settings. `backend c l` is an instance of class `c` whose
`nesting_level` attribute is `l` (`none` = Python `None`). -/
inductive Val
  | none
  | int (i : Int)
  | str (s : String)
  | backend (c : BackendClass) (level : Option Nat)
deriving Repr, DecidableEq, Inhabited

/-- An argument / dictionary entry: `none` = the key's `_Sentinel` (not given). -/
abbrev Slot := Option Val

inductive Key
  | backend | n_jobs | verbose | temp_folder | max_nbytes | mmap_mode | prefer | require
deriving Repr, DecidableEq, Inhabited

/-- A dictionary with exactly the eight keys of `default_parallel_config`; also used for the
keyword arguments of `parallel_config(...)` and `Parallel(...)`. -/
structure Config where
  backend : Slot
  n_jobs : Slot
  verbose : Slot
  temp_folder : Slot
  max_nbytes : Slot
  mmap_mode : Slot
  prefer : Slot
  require : Slot
deriving Repr, DecidableEq, Inhabited

/-- `default_parallel_config` itself: every entry is its sentinel. -/
def Config.unset : Config := ⟨none, none, none, none, none, none, none, none⟩

def Config.get (c : Config) : Key → Slot
  | .backend => c.backend | .n_jobs => c.n_jobs | .verbose => c.verbose
  | .temp_folder => c.temp_folder | .max_nbytes => c.max_nbytes | .mmap_mode => c.mmap_mode
  | .prefer => c.prefer | .require => c.require

def Config.set (c : Config) (k : Key) (v : Slot) : Config :=
  match k with
  | .backend => { c with backend := v } | .n_jobs => { c with n_jobs := v }
  | .verbose => { c with verbose := v } | .temp_folder => { c with temp_folder := v }
  | .max_nbytes => { c with max_nbytes := v } | .mmap_mode => { c with mmap_mode := v }
  | .prefer => { c with prefer := v } | .require => { c with require := v }

/-- `.default_value` of the eight sentinels. -/
structure Defaults where
  backend : Val
  n_jobs : Val
  verbose : Val
  temp_folder : Val
  max_nbytes : Val
  mmap_mode : Val
  prefer : Val
  require : Val
deriving Repr, DecidableEq, Inhabited

def Defaults.get (d : Defaults) : Key → Val
  | .backend => d.backend | .n_jobs => d.n_jobs | .verbose => d.verbose
  | .temp_folder => d.temp_folder | .max_nbytes => d.max_nbytes | .mmap_mode => d.mmap_mode
  | .prefer => d.prefer | .require => d.require

/-- The table as it is in the pinned tree (the harness passes the live one to the driver). -/
def Defaults.pinned : Defaults :=
  ⟨.none, .none, .int 0, .none, .str "1M", .str "r", .none, .none⟩

/-- Module-level state other than the thread-local: `DEFAULT_BACKEND` and the defaults table. -/
structure Env where
  defaultBackend : BackendClass
  d : Defaults
deriving Repr, DecidableEq, Inhabited

def Env.pinned : Env := ⟨.loky, Defaults.pinned⟩

inductive Err
  | valueError | typeError | attributeError | indexError
deriving Repr, DecidableEq, Inhabited

def Err.name : Err → String
  | .valueError => "ValueError" | .typeError => "TypeError"
  | .attributeError => "AttributeError" | .indexError => "IndexError"

/-- `_get_config_param(param, context_config, key)`. -/
def getConfigParam (d : Defaults) (param : Slot) (context_config : Config) (key : Key) : Val :=
  match param with
  | some v => v                              -- param is explicitly set, return it
  | none =>
    match context_config.get key with
    | some v => v                            -- a context manager set the key
    | none => d.get key                      -- param.default_value

/-- `self.parallel_config = old.copy(); self.parallel_config.update({k: v … if not Sentinel})`. -/
def update (old new_config : Config) : Config :=
  { backend := new_config.backend.orElse fun _ => old.backend
    n_jobs := new_config.n_jobs.orElse fun _ => old.n_jobs
    verbose := new_config.verbose.orElse fun _ => old.verbose
    temp_folder := new_config.temp_folder.orElse fun _ => old.temp_folder
    max_nbytes := new_config.max_nbytes.orElse fun _ => old.max_nbytes
    mmap_mode := new_config.mmap_mode.orElse fun _ => old.mmap_mode
    prefer := new_config.prefer.orElse fun _ => old.prefer
    require := new_config.require.orElse fun _ => old.require }

/-- `parent_backend.nesting_level` of `_check_backend` (0 when the parent entry is the sentinel). -/
def parentLevel (old : Config) : Except Err (Option Nat) :=
  match old.backend with
  | none => .ok (some 0)
  | some (.backend _ l) => .ok l
  | some _ => .error .attributeError

/-- `parallel_config._check_backend` (without `inner_max_num_threads` / `backend_params`). -/
def checkBackend (old : Config) (backend : Slot) : Except Err Slot :=
  match backend with
  | none => .ok none
  | some (.str name) =>
    match registry name with
    | none => .error .valueError                      -- "Invalid backend"
    | some c => do                                    -- BACKENDS[backend]() : nesting_level None
      let l ← parentLevel old
      pure (some (.backend c l))
  | some (.backend c none) => do
    let l ← parentLevel old
    pure (some (.backend c l))
  | some (.backend c (some l)) => .ok (some (.backend c (some l)))
  | some _ => .error .attributeError                  -- `backend.nesting_level` of None / int

/-- A live `parallel_config` object: what it saved and what it installed. -/
structure Ctx where
  old_parallel_config : Config
  parallel_config : Config
deriving Repr, DecidableEq

/-- The dictionary `new_config` of `parallel_config.__init__`: the arguments, with `backend`
replaced by what `_check_backend` returned. -/
def newConfig (old : Config) (args : Config) : Except Err Config := do
  let backend ← checkBackend old args.backend
  pure { args with backend := backend }

/-- `parallel_config.__init__`: returns the object and the new value of `_backend.config`.
On an exception `_backend.config` has not been assigned yet. -/
def parallelConfigInit (cur : Config) (args : Config) : Except Err (Ctx × Config) := do
  let old := cur
  let new_config ← newConfig old args
  let cfg := update old new_config
  pure (⟨old, cfg⟩, cfg)

/-- `parallel_config.__exit__` → `unregister`: the new value of `_backend.config`. -/
def unregister (cm : Ctx) : Config := cm.old_parallel_config

/-- `parallel_backend(backend, n_jobs=-1)` → the keyword arguments it hands to
`parallel_config.__init__` (`n_jobs` is never the sentinel). -/
def parallelBackendArgs (backend : Val) (n_jobs : Slot) : Config :=
  { Config.unset with backend := some backend, n_jobs := some (n_jobs.getD (.int (-1))) }

/-- `prefer in VALID_BACKEND_HINTS`. -/
def validHint (v : Val) : Bool := v = .none || v = .str "processes" || v = .str "threads"
/-- `require in VALID_BACKEND_CONSTRAINTS`. -/
def validConstraint (v : Val) : Bool := v = .none || v = .str "sharedmem"

/-- A backend instance as far as the observations go. -/
structure Backend where
  cls : BackendClass
  level : Option Nat
deriving Repr, DecidableEq, Inhabited

structure Active where
  backend : Backend
  config : Config
  /-- the "Using … as joblib backend instead of …" message was printed -/
  msg : Bool
deriving Repr, DecidableEq

/-- `backend = _get_config_param(default_parallel_config["backend"], backend_config, "backend")`
followed by `if backend is None: backend = BACKENDS[DEFAULT_BACKEND](nesting_level=0)`:
(`explicit_backend`, the backend). -/
def contextBackend (env : Env) (backend_config : Config) : Except Err (Bool × Backend) :=
  match getConfigParam env.d none backend_config .backend with
  | .none => .ok (false, ⟨env.defaultBackend, some 0⟩)
  | .backend c l => .ok (true, ⟨c, l⟩)
  | _ => .error .attributeError                       -- `backend.nesting_level`

/-- `force_threads` of `_get_active_backend`. -/
def forceThreads (explicit_backend : Bool) (cls : BackendClass) (prefer require : Val) : Bool :=
  (require = .str "sharedmem" && !cls.supportsSharedmem) ||
    (!explicit_backend && prefer = .str "threads" && !cls.usesThreads)

/-- `force_processes` of `_get_active_backend`. -/
def forceProcesses (explicit_backend : Bool) (cls : BackendClass) (prefer : Val) : Bool :=
  !explicit_backend && prefer = .str "processes" && cls.usesThreads

/-- `verbose >= 10 and explicit_backend` (a `TypeError` when `verbose` is not a number). -/
def fallbackMsg (verbose : Val) (explicit_backend : Bool) : Except Err Bool :=
  match verbose with
  | .int v => .ok (decide (v ≥ 10) && explicit_backend)
  | _ => .error .typeError

/-- `_get_active_backend(prefer, require, verbose)`. `repaired = false` gives the code before F22. -/
def getActiveBackendCore (repaired : Bool) (env : Env) (backend_config : Config)
    (prefer require verbose : Slot) : Except Err Active :=
  let prefer := getConfigParam env.d prefer backend_config .prefer
  let require := getConfigParam env.d require backend_config .require
  let verbose := getConfigParam env.d verbose backend_config .verbose
  if !validHint prefer then .error .valueError
  else if !validConstraint require then .error .valueError
  else if prefer = .str "processes" && require = .str "sharedmem" then .error .valueError
  else
    match contextBackend env backend_config with
    | .error e => .error e
    | .ok (explicit_backend, b) =>
      if forceThreads explicit_backend b.cls prefer require then
        match fallbackMsg verbose explicit_backend with
        | .error e => .error e
        | .ok msg =>
          -- F22: the context's n_jobs is replaced by 1 only when the context's own backend is
          -- replaced (the pinned tree does it in every force_threads case)
          let thread_config :=
            if repaired && !explicit_backend then backend_config
            else backend_config.set .n_jobs (some (.int 1))
          .ok ⟨⟨defaultThreadBackend, b.level⟩, thread_config, msg⟩
      else if forceProcesses explicit_backend b.cls prefer then
        .ok ⟨⟨defaultProcessBackend, b.level⟩, backend_config, false⟩
      else
        .ok ⟨b, backend_config, false⟩

def getActiveBackend' := getActiveBackendCore true

/-- What `get_active_backend()` shows: the backend and the context's `n_jobs`. -/
structure GabObs where
  backend : Backend
  n_jobs : Val
deriving Repr, DecidableEq

/-- `get_active_backend(prefer, require, verbose)`. -/
def getActiveBackend (env : Env) (cfg : Config) (prefer require verbose : Slot) :
    Except Err GabObs := do
  let a ← getActiveBackend' env cfg prefer require verbose
  pure ⟨a.backend, getConfigParam env.d none a.config .n_jobs⟩

/-- Decimal digits → number; `none` for the empty list or a non-digit. -/
def digitsToNat : List Char → Option Nat
  | [] => none
  | cs => cs.foldl (fun acc c => match acc with
      | none => none
      | some n => if c.isDigit then some (n * 10 + (c.toNat - '0'.toNat)) else none) (some 0)

/-- `memstr_to_bytes(text)` for mantissas written as plain decimal integers. -/
def memstrToBytes (text : String) : Except Err Int :=
  match text.toList.reverse with
  | [] => .error .indexError                                   -- text[-1]
  | u :: rest =>
    let units : Option Int :=
      if u = 'K' then some 1024 else if u = 'M' then some (1024 * 1024)
      else if u = 'G' then some (1024 * 1024 * 1024) else none
    match units, digitsToNat rest.reverse with
    | some k, some n => .ok (k * n)
    | _, _ => .error .valueError

/-- `int(n_jobs)` inside `try … except ValueError` (strings: canonical decimal literals). -/
def toInt (v : Val) : Except Err Int :=
  match v with
  | .int i => .ok i
  | .str s => match s.toInt? with
    | some i => .ok i
    | none => .error .valueError
  | _ => .error .typeError

/-- What the harness reads off a constructed `Parallel` object. -/
structure ParObs where
  backend : Backend          -- type(p._backend).__name__, p._backend.nesting_level
  n_jobs : Int               -- p.n_jobs
  verbose : Val              -- p.verbose
  max_nbytes : Val           -- p._backend_kwargs[...]
  temp_folder : Val
  mmap_mode : Val
  prefer : Val
  require : Val
  kw_verbose : Int
  msg : Bool
deriving Repr, DecidableEq

/-- `if isinstance(max_nbytes, str): max_nbytes = memstr_to_bytes(max_nbytes)`. -/
def postMaxNbytes : Val → Except Err Val
  | .str s => (memstrToBytes s).map Val.int
  | v => .ok v

/-- `max(0, verbose - 50)`. -/
def kwVerbose : Val → Except Err Int
  | .int v => .ok (max 0 (v - 50))
  | _ => .error .typeError

/-- The `if backend is default or backend is None … elif … else BACKENDS[backend](nesting_level=…)`
cascade of `Parallel.__init__`. -/
def chooseBackend (active_backend : Backend) (backend : Slot) : Except Err Backend :=
  match backend with
  | none => .ok active_backend
  | some .none => .ok active_backend
  | some (.backend c none) => .ok ⟨c, active_backend.level⟩
  | some (.backend c (some l)) => .ok ⟨c, some l⟩
  | some (.str name) =>
    match registry name with
    | some c => .ok ⟨c, active_backend.level⟩
    | none => .error .valueError
  | some (.int _) => .error .valueError

/-- `n_jobs` of `Parallel.__init__`: `None` means unset; resolve; `None` → `backend.default_n_jobs`;
`int(...)`. -/
def resolveNJobs (d : Defaults) (n_jobs : Slot) (context_config : Config) (cls : BackendClass) :
    Except Err Int :=
  let n_jobs : Slot := if n_jobs = some .none then none else n_jobs
  let n_jobs := getConfigParam d n_jobs context_config .n_jobs
  let n_jobs := if n_jobs = .none then Val.int cls.defaultNJobs else n_jobs
  toInt n_jobs

/-- The value compared with `"sharedmem"` at the end of `Parallel.__init__`.
F21: the resolved constraint (the pinned tree tests the raw argument, a sentinel when not given). -/
def testedConstraint (r21 : Bool) (resolved : Val) (raw : Slot) : Val :=
  if r21 then resolved else raw.getD .none

/-- `Parallel.__init__(n_jobs, backend, verbose, temp_folder, max_nbytes, mmap_mode, prefer, require)`
in a thread whose `_backend.config` is `cfg`; the other parameters keep their defaults.
`r21 = false` gives the code before F21, `r22 = false` the code before F22. -/
def parallelInitCore (r21 r22 : Bool) (env : Env) (cfg : Config) (e : Config) : Except Err ParObs := do
  let a ← getActiveBackendCore r22 env cfg e.prefer e.require e.verbose
  let context_config := a.config
  let verbose := getConfigParam env.d e.verbose context_config .verbose
  let max_nbytes := getConfigParam env.d e.max_nbytes context_config .max_nbytes
  let temp_folder := getConfigParam env.d e.temp_folder context_config .temp_folder
  let mmap_mode := getConfigParam env.d e.mmap_mode context_config .mmap_mode
  let prefer := getConfigParam env.d e.prefer context_config .prefer
  let require := getConfigParam env.d e.require context_config .require
  let max_nbytes ← postMaxNbytes max_nbytes
  let kw_verbose ← kwVerbose verbose
  let backend ← chooseBackend a.backend e.backend
  let n_jobs ← resolveNJobs env.d e.n_jobs context_config backend.cls
  if testedConstraint r21 require e.require = .str "sharedmem" && !backend.cls.supportsSharedmem then
    throw .valueError
  pure ⟨backend, n_jobs, verbose, max_nbytes, temp_folder, mmap_mode, prefer, require, kw_verbose, a.msg⟩

/-- The repaired code (what the harness compares the implementation with). -/
def parallelInit := parallelInitCore true true
/-- The code of the pinned tree before F21/F22. -/
def parallelInitUnrepaired := parallelInitCore false false

/-! ## Programs, per thread -/

/-- How a thread is started: `threading.Thread(target=f)`, a thread whose target runs inside
`contextvars.copy_context()` of the starting thread, `asyncio.to_thread(f)`. -/
inductive SpawnKind
  | plain | copiedContext | toThread
deriving Repr, DecidableEq

/-- Switches for three variants of the code that the property excludes (each one is a seeded change
of round 4; `Variant.code`, all `false`, is joblib as it is — the only variant the driver runs).
* `guardedUnregister` — `unregister()` restores only `if _backend.config is self.parallel_config`;
* `contextVar` — the `threading.local` is a `contextvars.ContextVar`: a thread started inside a copy
  of the starting thread's context begins with that thread's configuration;
* `gabLiteralDefaults` — `get_active_backend(prefer=None, require=None, verbose=0)`: the literal
  defaults are passed on as if they had been given explicitly. -/
structure Variant where
  guardedUnregister : Bool
  contextVar : Bool
  gabLiteralDefaults : Bool
deriving Repr, DecidableEq

def Variant.code : Variant := ⟨false, false, false⟩

/-- A `parallel_config` / `parallel_backend` object a thread has made (by a `with` statement or by
a plain call). `id` = its position in the thread's list of objects; `oldOwner` = whose dictionary
`old_parallel_config` IS (`none` = `default_parallel_config`) — needed only to say what the
`is` test of the `guardedUnregister` variant sees. -/
structure Obj where
  id : Nat
  cm : Ctx
  oldOwner : Option Nat
deriving Repr, DecidableEq

/-- One thread: its `_backend.config` (`cur` = which object's `parallel_config` dictionary that
is), the objects of the `with` blocks it is inside (innermost first), and every object it has made
so far in creation order (objects are never forgotten: `unregister()` may be called on any of
them at any later time, in any order, more than once or never). -/
structure TState where
  cfg : Config
  stack : List Obj
  objs : List Obj
  cur : Option Nat
deriving Repr, DecidableEq

def TState.init : TState := ⟨Config.unset, [], [], none⟩

inductive Op
  | enter (args : Config)                       -- `with parallel_config(**args):` reached
  | exit                                        -- the block is left (return or exception)
  | par (explicit : Config)                     -- `Parallel(**explicit)` constructed and inspected
  | gab (prefer require verbose : Slot)         -- `get_active_backend(...)`
  | create (args : Config)                      -- `cm_k = parallel_config(**args)`, no `with`
  | unreg (k : Nat)                             -- `cm_k.unregister()`, k-th object of this thread
  | spawn (child : Nat) (kind : SpawnKind)      -- start thread `child` (a step of the starter)
deriving Repr, DecidableEq

inductive Out
  | entered
  | enterRaised (e : Err)
  | exited
  | badExit
  | par (r : Except Err ParObs)
  | gab (r : Except Err GabObs)
  | spawned

/-- `parallel_config.__init__` in a thread: the new object and the thread's new state. -/
def createObj (s : TState) (args : Config) : Except Err (Obj × TState) :=
  match parallelConfigInit s.cfg args with
  | .ok (cm, cfg) =>
    let o : Obj := ⟨s.objs.length, cm, s.cur⟩
    .ok (o, { s with cfg := cfg, objs := s.objs ++ [o], cur := some o.id })
  | .error e => .error e

/-- `o.unregister()` in a thread whose state is `s`. -/
def unregisterV (v : Variant) (s : TState) (o : Obj) : TState :=
  if v.guardedUnregister && s.cur != some o.id then s
  else { s with cfg := unregister o.cm, cur := o.oldOwner }

/-- `__exit__` of the innermost `with` block. -/
def exitStep (v : Variant) (s : TState) : TState × Out :=
  match s.stack with
  | o :: rest => (unregisterV v { s with stack := rest } o, .exited)
  | [] => (s, .badExit)

/-- `cm_k.unregister()`. -/
def unregStep (v : Variant) (s : TState) (k : Nat) : TState × Out :=
  match s.objs[k]? with
  | some o => (unregisterV v s o, .exited)
  | none => (s, .badExit)

/-- `get_active_backend(prefer, require, verbose)` of a variant. -/
def getActiveBackendV (v : Variant) (env : Env) (cfg : Config) (prefer require verbose : Slot) :
    Except Err GabObs :=
  if v.gabLiteralDefaults then
    getActiveBackend env cfg (some (prefer.getD .none)) (some (require.getD .none))
      (some (verbose.getD (.int 0)))
  else getActiveBackend env cfg prefer require verbose

/-- One step of one thread. -/
def stepV (v : Variant) (env : Env) (s : TState) : Op → TState × Out
  | .enter args =>
    match createObj s args with
    | .ok (o, s') => ({ s' with stack := o :: s'.stack }, .entered)
    | .error e => (s, .enterRaised e)
  | .create args =>
    match createObj s args with
    | .ok (_, s') => (s', .entered)
    | .error e => (s, .enterRaised e)
  | .exit => exitStep v s
  | .unreg k => unregStep v s k
  | .par e => (s, .par (parallelInit env s.cfg e))
  | .gab p r w => (s, .gab (getActiveBackendV v env s.cfg p r w))
  | .spawn _ _ => (s, .spawned)

/-- joblib as it is. -/
def step := stepV Variant.code

/-- A thread running a list of steps. -/
def runThreadV (v : Variant) (env : Env) : TState → List Op → TState × List Out
  | s, [] => (s, [])
  | s, op :: ops =>
    let (s', o) := stepV v env s op
    let (s'', os) := runThreadV v env s' ops
    (s'', o :: os)

def runThread := runThreadV Variant.code

/-- All threads: `threading.local` gives every thread id its own `TState`. -/
abbrev Global := Nat → TState

/-- The state a new thread starts in. joblib: the default configuration, however the thread was
started. (`contextVar` variant: a thread running in a copy of the starter's context sees the
starter's configuration.) -/
def childInit (v : Variant) (parent : TState) (kind : SpawnKind) : TState :=
  if v.contextVar && kind != .plain then { TState.init with cfg := parent.cfg } else TState.init

def gstepV (v : Variant) (env : Env) (g : Global) (t : Nat) (op : Op) : Global × Out :=
  match op with
  | .spawn child kind => (fun u => if u = child then childInit v (g t) kind else g u, .spawned)
  | op =>
    let (s, o) := stepV v env (g t) op
    (fun u => if u = t then s else g u, o)

def gstep := gstepV Variant.code

/-- An interleaving: which thread does which step, in global order. -/
def grunV (v : Variant) (env : Env) : Global → List (Nat × Op) → Global × List (Nat × Out)
  | g, [] => (g, [])
  | g, (t, op) :: rest =>
    let (g', o) := gstepV v env g t op
    let (g'', os) := grunV v env g' rest
    (g'', (t, o) :: os)

def grun := grunV Variant.code

/-- Programs as trees: `block args body k` is `with parallel_config(**args): body` followed by `k`;
`raise` raises an exception that no `with` block swallows (`__exit__` returns `None`);
`try_ body k` is `try: body  except: pass` followed by `k`. Width = the `k` chain, depth = nesting. -/
inductive Prog
  | done
  | par (explicit : Config) (k : Prog)
  | gab (prefer require verbose : Slot) (k : Prog)
  | block (args : Config) (body : Prog) (k : Prog)
  | raise
  | try_ (body : Prog) (k : Prog)
deriving Repr

structure RunResult where
  cfg : Config               -- `_backend.config` afterwards
  raised : Bool              -- an exception is propagating
  ops : List Op              -- the steps that were executed, in order
deriving Repr

/-- Big-step execution of a program by one thread whose configuration is `c`. -/
def run : Prog → Config → RunResult
  | .done, c => ⟨c, false, []⟩
  | .par e k, c =>
    let r := run k c
    ⟨r.cfg, r.raised, .par e :: r.ops⟩
  | .gab p q v k, c =>
    let r := run k c
    ⟨r.cfg, r.raised, .gab p q v :: r.ops⟩
  | .block args body k, c =>
    match parallelConfigInit c args with
    | .error _ => ⟨c, true, [.enter args]⟩            -- the constructor raised: nothing was assigned
    | .ok (cm, c') =>
      let rb := run body c'
      let c'' := unregister cm                         -- `__exit__`, whatever the body did
      if rb.raised then ⟨c'', true, .enter args :: rb.ops ++ [.exit]⟩
      else
        let rk := run k c''
        ⟨rk.cfg, rk.raised, .enter args :: rb.ops ++ .exit :: rk.ops⟩
  | .raise, c => ⟨c, true, []⟩
  | .try_ body k, c =>
    let rb := run body c
    let rk := run k rb.cfg
    ⟨rk.cfg, rk.raised, rb.ops ++ rk.ops⟩

/-- The configuration a thread has inside blocks whose *effective* arguments (after
`_check_backend`) are `stack`, innermost first, entered from the default state. -/
def stackCfg : List Config → Config
  | [] => Config.unset
  | a :: outer => update (stackCfg outer) a

/-- Programs, general form: `Prog` plus context objects made by a plain call (`create`) and
`cm_i.unregister()` for the i-th object the thread has made (`unreg`), anywhere — inside or outside
`with` blocks, in any order, any number of times. `with` blocks themselves stay lexically nested
(Python has no other way to write them). -/
inductive XProg
  | done
  | par (explicit : Config) (k : XProg)
  | gab (prefer require verbose : Slot) (k : XProg)
  | block (args : Config) (body : XProg) (k : XProg)
  | create (args : Config) (k : XProg)
  | unreg (i : Nat) (k : XProg)
  | raise
  | try_ (body : XProg) (k : XProg)
deriving Repr

structure XResult where
  state : TState             -- the thread afterwards
  raised : Bool              -- an exception is propagating
  ops : List Op              -- the steps that were executed, in order
deriving Repr

/-- Big-step execution of a general program by a thread in state `s` (joblib as it is). -/
def xrun : XProg → TState → XResult
  | .done, s => ⟨s, false, []⟩
  | .par e k, s =>
    let r := xrun k s
    ⟨r.state, r.raised, .par e :: r.ops⟩
  | .gab p q v k, s =>
    let r := xrun k s
    ⟨r.state, r.raised, .gab p q v :: r.ops⟩
  | .block args body k, s =>
    match createObj s args with
    | .error _ => ⟨s, true, [.enter args]⟩            -- the constructor raised: nothing was assigned
    | .ok (o, s') =>
      let rb := xrun body { s' with stack := o :: s'.stack }
      let s'' := (exitStep Variant.code rb.state).1     -- `__exit__`, whatever the body did
      if rb.raised then ⟨s'', true, .enter args :: rb.ops ++ [.exit]⟩
      else
        let rk := xrun k s''
        ⟨rk.state, rk.raised, .enter args :: rb.ops ++ .exit :: rk.ops⟩
  | .create args k, s =>
    match createObj s args with
    | .error _ => ⟨s, true, [.create args]⟩
    | .ok (_, s') =>
      let r := xrun k s'
      ⟨r.state, r.raised, .create args :: r.ops⟩
  | .unreg i k, s =>
    let r := xrun k (unregStep Variant.code s i).1
    ⟨r.state, r.raised, .unreg i :: r.ops⟩
  | .raise, s => ⟨s, true, []⟩
  | .try_ body k, s =>
    let rb := xrun body s
    let rk := xrun k rb.state
    ⟨rk.state, rk.raised, rb.ops ++ rk.ops⟩

/-- A tree of `with` blocks as a general program. -/
def Prog.embed : Prog → XProg
  | .done => .done
  | .par e k => .par e k.embed
  | .gab p q v k => .gab p q v k.embed
  | .block a body k => .block a body.embed k.embed
  | .raise => .raise
  | .try_ body k => .try_ body.embed k.embed

end JoblibModel.Config
