/-
Model of `joblib.func_inspect.filter_args` (joblib/func_inspect.py) — the canonicalisation of a
call `(args, kwargs)` of a function into the dict that keys the `Memory` cache (property C07) —
and of Python's own argument binding (`bind`, the specification).

Two transcriptions of `filter_args` live here:

* `filterArgs` / `filterArgsMethod` — the code WITH `fixes/F02-F05-filter-args.diff` applied
  (defaults looked up by parameter name, positional-only parameters kept, `*args` shields the
  keyword-only parameters from surplus positionals). This is what the theorems of C07 are about.
* `filterArgsOld` — the code of the pinned tree as it was (positional `arg_defaults[position]`
  with the negative index, `args[arg_position + 1:]`, positional-only parameters skipped). Kept so
  that the four defect shapes F2–F5 stay machine-checked (`C07.old_F2 … old_F5`).

Python → Lean
* a signature (`inspect.signature(func).parameters.values()`) : `Sig = List Param`;
  `Param.name : Nat` (an identifier; the harness uses 0 ↦ 'a', 1 ↦ 'b', …, order-preserving),
  `Param.kind` one of the 5 `inspect.Parameter` kinds, `Param.default : Option Nat`
  (`none` = `Parameter.empty`)
* values are opaque ids (`Nat`): the model ASSUMES `filter_args` only moves argument and default values
  and never compares, truth-tests or hashes one (`param.default is not param.empty` is an identity
  test; `sorted(kwargs.items())` never reaches the values because the names differ). The harness
  checks this assumption: every generated case is also run with each value a distinct exotic object
  (mock.ANY, NaN, falsy, `__eq__` returning non-bools or raising, …) and the bound values are compared
  by identity with what Python binds; a call is `Call.args : List Nat` (positionals) and
  `Call.kwargs : List (Nat × Nat)` (a `dict`: association list, keys distinct — `CallWF`)
* Python `dict`: association list with `dget` (`d[k]` / `k in d`), `dset` (`d[k] = v`: replace in
  place or append — insertion order as in CPython), `dpop`
* the returned `arg_dict`: `Dict = List (Key × Val)`; keys are parameter names, `'*'`, `'**'`;
  values are one value, the list of surplus positionals, or the dict of surplus keywords
* `ignore_lst : List Key`
* exceptions: `Except Err _`; `Err` names the four `raise` sites of `filter_args`
* names of the Python local variables are kept (`arg_names` ↦ `argNames`, …)

Not modelled (checked by correspondence only, or out of scope): the `isinstance(ignore_lst, str)`
guard, the non-function branch (`{"*": args, "**": kwargs}` for partials/builtins — unchanged by
the fix), the text of the error messages beyond which `raise` site produced them.

Import-free, total, computable.
-/
namespace JoblibModel.FilterArgs

/-! ## Python dict as an association list -/
section PyDict
variable {κ ν : Type} [DecidableEq κ]

/-- `d.get(k)`; `isSome` is `k in d`. -/
def dget (k : κ) : List (κ × ν) → Option ν
  | [] => none
  | (k', v) :: r => if k' = k then some v else dget k r

/-- `d[k] = v`: replaces the value in place when `k` is present, appends otherwise. -/
def dset (k : κ) (v : ν) : List (κ × ν) → List (κ × ν)
  | [] => [(k, v)]
  | (k', v') :: r => if k' = k then (k, v) :: r else (k', v') :: dset k v r

/-- `d.pop(k)` (the dict without `k`; identity when absent). -/
def dpop (k : κ) : List (κ × ν) → List (κ × ν)
  | [] => []
  | (k', v') :: r => if k' = k then r else (k', v') :: dpop k r

end PyDict

/-! ## Signatures, calls, results -/

/-- `inspect.Parameter.kind`. -/
inductive Kind where
  | posOnly   -- POSITIONAL_ONLY
  | posKw     -- POSITIONAL_OR_KEYWORD
  | varPos    -- VAR_POSITIONAL  (*args)
  | kwOnly    -- KEYWORD_ONLY
  | varKw     -- VAR_KEYWORD     (**kwargs)
deriving DecidableEq, Repr, Inhabited

structure Param where
  name : Nat
  kind : Kind
  default : Option Nat
deriving DecidableEq, Repr, Inhabited

abbrev Sig := List Param

structure Call where
  args : List Nat
  kwargs : List (Nat × Nat)
deriving DecidableEq, Repr

inductive Key where
  | name (n : Nat)
  | star     -- '*'
  | dstar    -- '**'
deriving DecidableEq, Repr, Inhabited

inductive Val where
  | one (v : Nat)
  | seq (vs : List Nat)            -- the list / tuple of surplus positionals
  | map (kv : List (Nat × Nat))    -- the dict of surplus keywords
deriving DecidableEq, Repr, Inhabited

abbrev Dict := List (Key × Val)

/-- The `raise` sites of `filter_args`. -/
inductive Err where
  | kwOnlyAsPositional   -- ValueError "Keyword-only parameter '%s' was passed as positional parameter"
  | wrongNumber          -- ValueError "Wrong number of arguments for %s"
  | unexpectedKeyword    -- TypeError  "Ignore list for %s() contains an unexpected keyword argument"
  | ignoreUndefined      -- ValueError "Ignore list: argument '%s' is not defined for function %s"
deriving DecidableEq, Repr, Inhabited

def Kind.rank : Kind → Nat
  | .posOnly => 0 | .posKw => 1 | .varPos => 2 | .kwOnly => 3 | .varKw => 4

/-- Parameters that are entries of `arg_names` (everything but `*args` / `**kwargs`). -/
def Param.named (p : Param) : Bool :=
  match p.kind with
  | .varPos | .varKw => false
  | _ => true

/-- Parameters that can be filled positionally. -/
def Param.positional (p : Param) : Bool :=
  match p.kind with
  | .posOnly | .posKw => true
  | _ => false

/-- Parameters that can be filled by keyword. -/
def Param.byKeyword (p : Param) : Bool :=
  match p.kind with
  | .posKw | .kwOnly => true
  | _ => false

/-- What `inspect.Signature` (and the `def` statement) guarantee about two parameters `p` before
`q`: distinct names; kinds in the order positional-only, positional-or-keyword, `*args`,
keyword-only, `**kwargs`; at most one `*args` and one `**kwargs`. (Python's rule about defaults of
positional parameters is NOT needed by the theorems about the repaired code.) -/
def Before (p q : Param) : Prop :=
  p.name ≠ q.name ∧ p.kind.rank ≤ q.kind.rank ∧ (p.named = false → p.kind.rank < q.kind.rank)

instance (p q : Param) : Decidable (Before p q) := by unfold Before; exact inferInstance

/-- Well-formed signature. -/
def WF (s : Sig) : Prop := s.Pairwise Before

instance (s : Sig) : Decidable (WF s) := by unfold WF; exact inferInstance

/-- Well-formed call: `kwargs` is a dict (distinct keys). -/
def CallWF (c : Call) : Prop := (c.kwargs.map Prod.fst).Nodup

instance (c : Call) : Decidable (CallWF c) := by unfold CallWF; exact inferInstance

/-! ## `bind` — Python's binding rules (the specification)

One pass over the parameters in signature order, as `inspect.Signature._bind` and the interpreter
do it: `args` = positionals not yet consumed, `kw` = keywords not yet consumed.
The result is `BoundArguments.arguments` after `apply_defaults()`: every parameter, in signature
order, with the tuple of surplus positionals for `*args` and the dict of surplus keywords for
`**kwargs`. The harness validates this function against calling a real function (and against
`inspect.Signature.bind`) on every generated case. -/

inductive BindErr where
  | tooManyPositional | multipleValues | missing | unexpectedKeyword
deriving DecidableEq, Repr, Inhabited

def bindGo : List Param → List Nat → List (Nat × Nat) → Except BindErr (List (Nat × Val))
  | [], [], [] => .ok []
  | [], _ :: _, _ => .error .tooManyPositional
  | [], [], _ :: _ => .error .unexpectedKeyword   -- also: a positional-only name passed by keyword
  | p :: ps, args, kw =>
    match p.kind with
    | .posOnly =>
      match args with
      | a :: as => (bindGo ps as kw).map ((p.name, .one a) :: ·)
      | [] =>
        match p.default with
        | some dv => (bindGo ps [] kw).map ((p.name, .one dv) :: ·)
        | none => .error .missing
    | .posKw =>
      match args with
      | a :: as =>
        if (dget p.name kw).isSome then .error .multipleValues
        else (bindGo ps as kw).map ((p.name, .one a) :: ·)
      | [] =>
        match dget p.name kw with
        | some v => (bindGo ps [] (dpop p.name kw)).map ((p.name, .one v) :: ·)
        | none =>
          match p.default with
          | some dv => (bindGo ps [] kw).map ((p.name, .one dv) :: ·)
          | none => .error .missing
    | .varPos => (bindGo ps [] kw).map ((p.name, .seq args) :: ·)
    | .kwOnly =>
      match args with
      | _ :: _ => .error .tooManyPositional
      | [] =>
        match dget p.name kw with
        | some v => (bindGo ps [] (dpop p.name kw)).map ((p.name, .one v) :: ·)
        | none =>
          match p.default with
          | some dv => (bindGo ps [] kw).map ((p.name, .one dv) :: ·)
          | none => .error .missing
    | .varKw =>
      match args with
      | _ :: _ => .error .tooManyPositional
      | [] => (bindGo ps [] []).map ((p.name, .map kw) :: ·)

def bind (s : Sig) (c : Call) : Except BindErr (List (Nat × Val)) := bindGo s c.args c.kwargs

/-- The key under which `filter_args` files a parameter name: `'*'` for the `*args` parameter,
`'**'` for the `**kwargs` parameter, the name itself otherwise. -/
def keyOf (s : Sig) (n : Nat) : Key :=
  match s.find? (fun p => p.name = n) with
  | some p =>
    match p.kind with
    | .varPos => .star
    | .varKw => .dstar
    | _ => .name n
  | none => .name n

/-- Python's bound mapping in `filter_args`' output format. -/
def rename (s : Sig) (b : List (Nat × Val)) : Dict := b.map (fun e => (keyOf s e.1, e.2))

/-- Equality of two Python values of the result (`==`): dicts compare without order. -/
def ValEq : Val → Val → Prop
  | .one a, .one b => a = b
  | .seq a, .seq b => a = b
  | .map a, .map b => a.Perm b
  | _, _ => False

/-- Entry-wise equality of two result dicts listed in the same order. -/
def EntriesEq : Dict → Dict → Prop
  | [], [] => True
  | x :: xs, y :: ys => x.1 = y.1 ∧ ValEq x.2 y.2 ∧ EntriesEq xs ys
  | _, _ => False

/-- `d₁ == d₂` for two result dicts with distinct keys: the same entries up to order, surplus
keyword dicts compared up to order too. -/
def SameDict (d₁ d₂ : Dict) : Prop := ∃ d, d₁.Perm d ∧ EntriesEq d d₂

/-! ## `filter_args`, repaired (fixes/F02-F05-filter-args.diff) -/

/-- The locals filled by the `for param in arg_sig.parameters.values()` loop. -/
structure Walk where
  argNames : List Nat := []            -- arg_names
  argDefaults : List (Nat × Nat) := [] -- arg_defaults (dict name → default)
  argPosonly : List Nat := []          -- arg_posonlyargs
  argKwonly : List Nat := []           -- arg_kwonlyargs
  argVarargs : Option Nat := none      -- arg_varargs
  argVarkw : Option Nat := none        -- arg_varkw
deriving Repr, DecidableEq

/-- One iteration of the parameter loop. -/
def walkStep (w : Walk) (p : Param) : Walk :=
  let w := match p.kind with
    | .posOnly => { w with argNames := w.argNames ++ [p.name], argPosonly := w.argPosonly ++ [p.name] }
    | .posKw => { w with argNames := w.argNames ++ [p.name] }
    | .kwOnly => { w with argNames := w.argNames ++ [p.name], argKwonly := w.argKwonly ++ [p.name] }
    | .varPos => { w with argVarargs := some p.name }
    | .varKw => { w with argVarkw := some p.name }
  match p.default with
  | some dv => { w with argDefaults := dset p.name dv w.argDefaults }
  | none => w

def walkFrom (w : Walk) : List Param → Walk
  | [] => w
  | p :: ps => walkFrom (walkStep w p) ps

def walk (s : Sig) : Walk := walkFrom {} s

/-- `arg_position < len(args) and not (arg_name in arg_kwonlyargs and arg_varargs is not None)`,
returning `args[arg_position]` when true. -/
def positionalArg (w : Walk) (args : List Nat) (n pos : Nat) : Option Nat :=
  if n ∈ w.argKwonly ∧ w.argVarargs.isSome then none else args[pos]?

/-- `for arg_position, arg_name in enumerate(arg_names):` — `pos` is `arg_position`, `d` is
`arg_dict`. -/
def mainLoop (w : Walk) (args : List Nat) (kwargs : List (Nat × Nat)) :
    List Nat → Nat → Dict → Except Err Dict
  | [], _, d => .ok d
  | n :: ns, pos, d =>
    match positionalArg w args n pos with
    | some v =>
      if n ∈ w.argKwonly then .error .kwOnlyAsPositional
      else mainLoop w args kwargs ns (pos + 1) (dset (.name n) (.one v) d)
    | none =>
      -- `arg_name in kwargs and arg_name not in arg_posonlyargs`
      match (if n ∈ w.argPosonly then none else dget n kwargs) with
      | some v => mainLoop w args kwargs ns (pos + 1) (dset (.name n) (.one v) d)
      | none =>
        -- `arg_defaults[arg_name]`, KeyError → ValueError
        match dget n w.argDefaults with
        | some v => mainLoop w args kwargs ns (pos + 1) (dset (.name n) (.one v) d)
        | none => .error .wrongNumber

/-- Insertion into a list sorted by key (`sorted(kwargs.items())`; keys are distinct, so the
values never take part in a comparison). -/
def insertKw (e : Nat × Nat) : List (Nat × Nat) → List (Nat × Nat)
  | [] => [e]
  | x :: r => if e.1 ≤ x.1 then e :: x :: r else x :: insertKw e r

def sortKw : List (Nat × Nat) → List (Nat × Nat)
  | [] => []
  | e :: r => insertKw e (sortKw r)

/-- `for arg_name, arg_value in sorted(kwargs.items()):` — `vk` is `varkwargs`. -/
def kwLoop (w : Walk) : List (Nat × Nat) → Dict → List (Nat × Nat) →
    Except Err (Dict × List (Nat × Nat))
  | [], d, vk => .ok (d, vk)
  | (k, v) :: r, d, vk =>
    if (dget (Key.name k) d).isSome ∧ k ∉ w.argPosonly then
      kwLoop w r (dset (.name k) (.one v) d) vk
    else if w.argVarkw.isSome then
      kwLoop w r d (dset k v vk)
    else .error .unexpectedKeyword

/-- `for item in ignore_lst:` -/
def ignoreLoop : List Key → Dict → Except Err Dict
  | [], d => .ok d
  | k :: r, d =>
    if (dget k d).isSome then ignoreLoop r (dpop k d) else .error .ignoreUndefined

/-- Everything after the parameter loop (and the bound-method adjustment). -/
def core (w : Walk) (ignore : List Key) (args : List Nat) (kwargs : List (Nat × Nat)) :
    Except Err Dict :=
  match mainLoop w args kwargs w.argNames 0 [] with
  | .error e => .error e
  | .ok d =>
    match kwLoop w (sortKw kwargs) d [] with
    | .error e => .error e
    | .ok (d, varkwargs) =>
      let d := match w.argVarkw with
        | some _ => dset .dstar (.map varkwargs) d
        | none => d
      let d := match w.argVarargs with
        | some _ => dset .star (.seq (args.drop (w.argNames.length - w.argKwonly.length))) d
        | none => d
      ignoreLoop ignore d

/-- `filter_args(func, ignore_lst, args, kwargs)` for a plain function with signature `s`. -/
def filterArgs (s : Sig) (ignore : List Key) (c : Call) : Except Err Dict :=
  core (walk s) ignore c.args c.kwargs

/-- The `if inspect.ismethod(func):` block: `s` is `inspect.signature(func)` (without `self`),
`selfP` the first parameter of `inspect.signature(func.__func__)`, `selfV` is `func.__self__`. -/
def methodWalk (selfP : Param) (w : Walk) : Walk :=
  { w with
    argNames := selfP.name :: w.argNames
    argPosonly := if selfP.kind = .posOnly then w.argPosonly ++ [selfP.name] else w.argPosonly }

def filterArgsMethod (selfP : Param) (selfV : Nat) (s : Sig) (ignore : List Key) (c : Call) :
    Except Err Dict :=
  core (methodWalk selfP (walk s)) ignore (selfV :: c.args) c.kwargs

/-- A bound-method call `obj.m(*args, **kwargs)` is `m.__func__(obj, *args, **kwargs)`. -/
def bindMethod (selfP : Param) (selfV : Nat) (s : Sig) (c : Call) :
    Except BindErr (List (Nat × Val)) :=
  bind (selfP :: s) ⟨selfV :: c.args, c.kwargs⟩

/-! ## `filter_args` as it was before the fix (pinned tree) -/

structure WalkOld where
  argNames : List Nat := []
  argDefaults : List Nat := []     -- a list, indexed by position from the end
  argKwonly : List Nat := []
  argVarargs : Option Nat := none
  argVarkw : Option Nat := none
deriving Repr, DecidableEq

def walkStepOld (w : WalkOld) (p : Param) : WalkOld :=
  let w := match p.kind with
    | .posOnly => w     -- no branch for POSITIONAL_ONLY
    | .posKw => { w with argNames := w.argNames ++ [p.name] }
    | .kwOnly => { w with argNames := w.argNames ++ [p.name], argKwonly := w.argKwonly ++ [p.name] }
    | .varPos => { w with argVarargs := some p.name }
    | .varKw => { w with argVarkw := some p.name }
  match p.default with
  | some dv => { w with argDefaults := w.argDefaults ++ [dv] }
  | none => w

def walkFromOld (w : WalkOld) : List Param → WalkOld
  | [] => w
  | p :: ps => walkFromOld (walkStepOld w p) ps

/-- `l[-k]` for `k ≥ 1` (`none` = IndexError). -/
def negIndex (l : List Nat) (k : Nat) : Option Nat :=
  if k ≤ l.length then l[l.length - k]? else none

/-- The old `enumerate(arg_names)` loop; `total` is `len(arg_names)`. -/
def mainLoopOld (w : WalkOld) (args : List Nat) (kwargs : List (Nat × Nat)) (total : Nat) :
    List Nat → Nat → Dict → Except Err Dict
  | [], _, d => .ok d
  | n :: ns, pos, d =>
    match args[pos]? with
    | some v =>
      if n ∈ w.argKwonly then .error .kwOnlyAsPositional
      else mainLoopOld w args kwargs total ns (pos + 1) (dset (.name n) (.one v) d)
    | none =>
      match dget n kwargs with
      | some v => mainLoopOld w args kwargs total ns (pos + 1) (dset (.name n) (.one v) d)
      | none =>
        -- `arg_defaults[position]` with `position = arg_position - len(arg_names)` (negative)
        match negIndex w.argDefaults (total - pos) with
        | some v => mainLoopOld w args kwargs total ns (pos + 1) (dset (.name n) (.one v) d)
        | none => .error .wrongNumber

def kwLoopOld (w : WalkOld) : List (Nat × Nat) → Dict → List (Nat × Nat) →
    Except Err (Dict × List (Nat × Nat))
  | [], d, vk => .ok (d, vk)
  | (k, v) :: r, d, vk =>
    if (dget (Key.name k) d).isSome then kwLoopOld w r (dset (.name k) (.one v) d) vk
    else if w.argVarkw.isSome then kwLoopOld w r d (dset k v vk)
    else .error .unexpectedKeyword

def coreOld (w : WalkOld) (ignore : List Key) (args : List Nat) (kwargs : List (Nat × Nat)) :
    Except Err Dict :=
  match mainLoopOld w args kwargs w.argNames.length w.argNames 0 [] with
  | .error e => .error e
  | .ok d =>
    match kwLoopOld w (sortKw kwargs) d [] with
    | .error e => .error e
    | .ok (d, varkwargs) =>
      let d := match w.argVarkw with
        | some _ => dset .dstar (.map varkwargs) d
        | none => d
      let d := match w.argVarargs with
        -- `args[arg_position + 1:]`: arg_position is the last index of arg_names (or -1)
        | some _ => dset .star (.seq (args.drop w.argNames.length)) d
        | none => d
      ignoreLoop ignore d

def filterArgsOld (s : Sig) (ignore : List Key) (c : Call) : Except Err Dict :=
  coreOld (walkFromOld {} s) ignore c.args c.kwargs

def filterArgsMethodOld (selfP : Param) (selfV : Nat) (s : Sig) (ignore : List Key) (c : Call) :
    Except Err Dict :=
  let w := walkFromOld {} s
  coreOld { w with argNames := selfP.name :: w.argNames } ignore (selfV :: c.args) c.kwargs

end JoblibModel.FilterArgs
